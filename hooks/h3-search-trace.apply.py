#!/usr/bin/env python3
"""Apply hook H3 (add-only, #ifdef TEXEL_VERIF) to a texel worktree."""
import sys, re
wt = sys.argv[1]

def ins(txt, anchor, block, before=True, occurrence=0, count=None):
    """Insert block (list of lines) before/after the line that equals `anchor` (stripped compare).
    occurrence: index among the matching lines; count: expected number of matches."""
    lines = txt.split("\n")
    idx = [i for i, l in enumerate(lines) if l.strip() == anchor.strip()]
    if count is not None and len(idx) != count:
        raise SystemExit("anchor %r: %d matches, expected %d" % (anchor, len(idx), count))
    if not idx:
        raise SystemExit("anchor %r not found" % anchor)
    i = idx[occurrence]
    blk = ["#ifdef TEXEL_VERIF"] + block + ["#endif"]
    pos = i if before else i + 1
    lines[pos:pos] = blk
    return "\n".join(lines)

# ---------------- search.hpp ----------------
p = wt + "/lib/texellib/search.hpp"
t = open(p).read()
t = ins(t, '#include <limits>', ['#include "verifTrace.hpp"'], count=1)
t = ins(t, 'SearchTreeInfo searchTreeInfo[SearchConst::MAX_SEARCH_DEPTH * 2];',
        ['    // Hook H3: search trace (debug/verifTrace.hpp)',
         '    VerifTrace verifTrace;',
         '    bool verifInWrapper = false; // True while the tracing wrapper calls the real function',
         '    int verifSite = 0;           // Tag of the return statement about to be executed',
         '    int verifKind = -1;          // How the next node is called (VerifTrace::VerifKind)',
         '    int verifMove = -1;          // Compressed move leading to the next node',
         '    std::string verifFen() const;'], before=False, count=1)
t = ins(t, 'bool tb2 = tb && depth >= minProbeDepth;',
        ['    if (!verifInWrapper && verifTrace.on(threadNo)) {',
         '        const int kind = verifKind, mv = verifMove;',
         '        verifKind = -1; verifMove = -1;',
         '        VerifNode vn(verifTrace, 0, kind, mv, alpha, beta, ply, depth, inCheck);',
         '        verifInWrapper = true;',
         '        verifSite = 0;',
         '        const int r = negaScout(tb, alpha, beta, ply, depth, recaptureSquare, inCheck);',
         '        verifTrace.logReturn(vn.idx, r, verifSite, [this]() { return verifFen(); });',
         '        return r;',
         '    }',
         '    verifInWrapper = false;'], count=1)
open(p, "w").write(t)

# ---------------- search.cpp ----------------
p = wt + "/lib/texellib/search.cpp"
t = open(p).read()
S = lambda n, ind: [ind + "verifSite = %d;" % n]

t = ins(t, 'using namespace SearchConst;', [
    'std::string Search::verifFen() const { return TextIO::toFEN(pos); }',
    '#define VERIF_FRAME(stmts) do { if (verifTrace.isOn() && verifTrace.hasTop()) { VerifTrace::Frame& vf = verifTrace.top(); stmts } } while (0)',
], before=False, occurrence=0)

# --- iterativeDeepening
t = ins(t, 'getRootMoves(scMovesIn, rootMoves, maxDepth);',
        ['    if (verifTrace.on(threadNo))',
         '        verifTrace.logRootStart(verifFen(), (int)rootMoves.size(), maxDepth, threadNo);'], before=False, count=1)
t = ins(t, 'int score = -negaScoutRoot(true, -beta, -alpha, 1, depth - lmrS - 1, givesCheck);',
        ['            verifKind = VerifTrace::K_ROOT; verifMove = m.getCompressedMove();'], count=1)
t = ins(t, 'if ((lmrS > 0) && (score > alpha))',
        ['            verifKind = VerifTrace::K_ROOT; verifMove = m.getCompressedMove();'], count=1)
t = ins(t, 'score = -negaScoutRoot(true, -beta, -alpha, 1, depth - 1, givesCheck);',
        ['                verifKind = VerifTrace::K_ROOT; verifMove = m.getCompressedMove();'], occurrence=1, count=2)
for occ in (0, 1):
    t = ins(t, 'storeSearchResult(rootMoves, mi, depth, alpha, beta, score);',
            ['            if (verifTrace.isOn())',
             '                verifTrace.logRoot(depth, mi, (int)rootMoves.size(), m.getCompressedMove(), alpha, beta, score);'],
            before=False, occurrence=occ, count=2)
t = ins(t, 'notifyStats();',
        ['    if (verifTrace.isOn())',
         '        verifTrace.logDone(bestMove.getCompressedMove(), rootMoves.empty() ? 0 : rootMoves[0].score());'],
        before=True, occurrence=0)

# --- negaScout
t = ins(t, 'if (alpha >= beta)', S(1, '    '), occurrence=0)          # mate distance pruning
t = ins(t, 'logFile.logNodeEnd(sti.nodeIdx, score, tType, evalScore, hKey);',
        ['        VERIF_FRAME(vf.tType = tType; vf.evalScore = evalScore; vf.hKey = hKey;);'], count=1)
t = ins(t, 'return logAndReturn(-(MATE0-(ply+1)), TType::T_EXACT);', S(2, '                '), count=1)
t = ins(t, 'return logAndReturn(0, TType::T_EXACT);', S(3, '        '), occurrence=0, count=2)
t = ins(t, 'return logAndReturn(0, TType::T_EXACT);', S(4, '        '), occurrence=1, count=2)
t = ins(t, 'if (useTT) tt.probe(hKey, ent);',
        ['    VERIF_FRAME(vf.ttType = ent.getType(); vf.ttRaw = ent.getScore(0); vf.ttDepth = ent.getDepth(););'], before=False, count=1)
t = ins(t, 'return logAndReturn(score, ent.getType());', S(5, '            '), count=1)
t = ins(t, 'if (excl && ent.getBusy())', S(6, '        '), count=1)
t = ins(t, 'return logAndReturn(score, tbEnt.getType());', S(7, '                '), count=1)
t = ins(t, 'int score = quiesce(alpha, beta, ply, 0, inCheck);',
        ['        verifKind = VerifTrace::K_QROOT; verifMove = -1;'], count=1)
t = ins(t, 'return logAndReturn(score, type);', S(8, '        '), count=1)
t = ins(t, 'int score = quiesce(alpha-razorMargin, beta-razorMargin, ply, 0, inCheck);',
        ['            verifKind = VerifTrace::K_RAZOR; verifMove = -1;'], count=1)
t = ins(t, 'return logAndReturn(score, TType::T_LE);',
        ['                verifSite = 9;', '                VERIF_FRAME(vf.margin = razorMargin;);'], count=1)
t = ins(t, 'return logAndReturn(evalScore - margin, TType::T_GE);', S(10, '                '), count=1)
t = ins(t, 'score = -negaScout(tb, -beta, -(beta - 1), ply + 1, depth - R, Square(-1), false);',
        ['                verifKind = VerifTrace::K_NULL; verifMove = -1;'], count=1)
t = ins(t, 'score = negaScout(tb, beta - 1, beta, ply, depth - R, recaptureSquare, inCheck);',
        ['                verifKind = VerifTrace::K_VERIFY; verifMove = -1;'], count=1)
t = ins(t, 'return logAndReturn(score, TType::T_GE);', S(11, '                '), count=1)
t = ins(t, 'negaScout(tb, alpha, beta, ply, newDepth, Square(-1), inCheck);',
        ['            verifKind = VerifTrace::K_IID; verifMove = -1;'], count=1)
t = ins(t, 'tt.probe(hKey, ent);',
        ['            VERIF_FRAME(vf.ttType = ent.getType(); vf.ttRaw = ent.getScore(0); vf.ttDepth = ent.getDepth(););'], before=False, count=1)
t = ins(t, 'int singScore = negaScout(tb, newBeta-1, newBeta, ply, newDepth,',
        ['        verifKind = VerifTrace::K_SINGULAR; verifMove = -1;'], count=1)
t = ins(t, 'bool seeDone = false;',
        ['    VERIF_FRAME(vf.nGen = moves.size;);'], count=1)
t = ins(t, 'score = futilityScore;',
        ['                VERIF_FRAME(vf.nFut++;);'], before=False, count=1)
t = ins(t, 'score = -negaScout(tb, -b, -alpha, ply + 1, newDepth, newCaptureSquare, givesCheck);',
        ['                VERIF_FRAME(vf.nSearched++;);',
         '                verifKind = VerifTrace::K_MOVE; verifMove = m.getCompressedMove();'], count=1)
t = ins(t, 'score = -negaScout(tb, -beta, -alpha, ply + 1, newDepth, newCaptureSquare, givesCheck);',
        ['                    verifKind = VerifTrace::K_MOVE; verifMove = m.getCompressedMove();'], count=1)
t = ins(t, 'score = ent.getScore(ply);', S(12, '                    '), count=1)
t = ins(t, 'tType = TType::T_GE;', S(13, '                    '), occurrence=0, count=2)
t = ins(t, 'if (singularSearch) // Only one legal move, fail low to trigger singular extension', S(15, '        '), count=1)
t = ins(t, 'emptyMove.setScore(0);', S(14, '        '), count=1)
t = ins(t, 'bestScore = tbScore;', S(19, '        '), count=1)
t = ins(t, 'if (useTT) tt.insert(hKey, moves[bestMove], tType, ply, depth, evalScore);', S(16, '        '), count=1)
t = ins(t, 'bestScore = ent.getScore(ply);', S(17, '            '), count=1)
t = ins(t, 'emptyMove.setScore(bestScore);', S(18, '            '), occurrence=1, count=2)

# --- quiesce (first of the two near-identical functions: quiesce, then quiescePos)
t = ins(t, 'Search::quiesce(int alpha, int beta, int ply, int depth, const bool inCheck) {',
        ['    if (!verifInWrapper && verifTrace.on(threadNo)) {',
         '        const int kind = verifKind, mv = verifMove;',
         '        verifKind = -1; verifMove = -1;',
         '        VerifNode vn(verifTrace, 1, kind, mv, alpha, beta, ply, depth, inCheck);',
         '        verifInWrapper = true;',
         '        verifSite = 0;',
         '        const int r = quiesce(alpha, beta, ply, depth, inCheck);',
         '        verifTrace.logReturn(vn.idx, r, verifSite, [this]() { return verifFen(); });',
         '        return r;',
         '    }',
         '    verifInWrapper = false;'], before=False, count=1)
t = ins(t, 'if (depth == 0)',
        ['    if (!inCheck && verifTrace.isOn())', '        verifTrace.noteEval(score);', '    verifSite = 20;'],
        occurrence=1)   # the `if (depth == 0) sampler.sample(...)` of quiesce (occurrence 0 is `if (depth == 0) q0Eval = score;`)
t = ins(t, 'scoreMoveListMvvLva(moves);', ['    VERIF_FRAME(vf.nGen = moves.size;);'], occurrence=0, count=2)
t = ins(t, 'score = -quiesce(-beta, -alpha, ply + 1, depth - 1, nextInCheck);',
        ['        VERIF_FRAME(vf.nSearched++;);',
         '        verifKind = VerifTrace::K_QMOVE; verifMove = m.getCompressedMove();'], count=1)
t = ins(t, 'if (alpha >= beta)', S(21, '                '), occurrence=1)
t = ins(t, 'return bestScore;', S(22, '    '), count=1)
open(p, "w").write(t)
print("ok")
