// Correspondence harness for C18: drives the real Book / PolyglotBook code.
//
// stdin commands (one per line), one output line per command that produces output:
//   SEED <n>                 re-seed Book::rndGen (after initBook) so runs are reproducible
//   FEN <fen>                set the current position            -> "P ..." (or "P ERR")
//   WALK <seed> <plies> <bookpct>   random legal game from the start position; with probability
//                            bookpct% a built-in book move is played   -> one "P ..." per position
//   FILE <path>              UciParams::bookFile := path   ("-" = empty string = built-in book)
//   PROBE <ncalls> [! [secs]]  getBookEntries + ncalls x getBookMove on the current position
//                            ('!' = run in a forked child with an alarm, default 10 s)   -> "R ..."
//   ALL [!]                  getAllBookMoves on the current position            -> "A ..."
//   GM <wtm> <e1piece> <e8piece>   PolyglotBook::getMove for all 65536 move codes -> "G ..."
//   CODEC <hash> <move> <weight>   serialize -> 16 bytes -> deSerialize           -> "C ..."
//
// P line:  P fen=<fen>;key=<hex>;board=<64 piece codes>;wtm=<0|1>;castle=<mask>;ep=<sq|-1>;
//            zob=<hex>;legal=<from.to.prom,...>;pg=<getPGMove of each legal move,...>
// R line:  R cands=<from.to.prom:count:weight,...>;calls=<rnd:from.to.prom:sync,...>
//          rnd = the value Random::nextInt(sum) delivered inside getBookMove (recomputed on a
//          copy of the generator state taken before the call), -1 when nextInt was not called;
//          sync = 1 when the generator state after the call equals the copy's state.
#include <cstdio>
#include <cstdlib>
#include <cstring>
#include <iostream>
#include <sstream>
#include <string>
#include <vector>
#include <algorithm>
#include <array>
#include <atomic>
#include <cassert>
#include <chrono>
#include <cmath>
#include <condition_variable>
#include <deque>
#include <fstream>
#include <functional>
#include <iomanip>
#include <map>
#include <memory>
#include <mutex>
#include <set>
#include <thread>
#include <unordered_map>
#include <unordered_set>
#include <unistd.h>
#include <signal.h>
#include <sys/wait.h>

#define private public
#define protected public
#include "book.hpp"
#include "polyglot.hpp"
#include "position.hpp"
#include "moveGen.hpp"
#include "textio.hpp"
#include "parameters.hpp"
#include "random.hpp"
#include "chessError.hpp"
#undef private
#undef protected

static std::string mv2s(const Move& m) {
    std::ostringstream os;
    os << m.from().asInt() << '.' << m.to().asInt() << '.' << m.promoteTo();
    return os.str();
}

static void legalMoves(Position& pos, MoveList& ml) {
    MoveGen::pseudoLegalMoves(pos, ml);
    MoveGen::removeIllegal(pos, ml);
}

static std::string hex64(U64 v) {
    char buf[32];
    snprintf(buf, sizeof buf, "%016llx", (unsigned long long)v);
    return buf;
}

static std::string describe(Position& pos) {
    std::ostringstream os;
    os << "P fen=" << TextIO::toFEN(pos) << ";key=" << hex64(PolyglotBook::getHashKey(pos)) << ";board=";
    for (int i = 0; i < 64; i++) {
        if (i) os << ',';
        os << pos.getPiece(Square(i));
    }
    os << ";wtm=" << (pos.isWhiteMove() ? 1 : 0) << ";castle=" << pos.getCastleMask()
       << ";ep=" << (pos.getEpSquare().isValid() ? pos.getEpSquare().asInt() : -1)
       << ";zob=" << hex64(pos.zobristHash()) << ";legal=";
    MoveList ml;
    legalMoves(pos, ml);
    for (int i = 0; i < ml.size; i++) {
        if (i) os << ',';
        os << mv2s(ml[i]);
    }
    os << ";pg=";
    for (int i = 0; i < ml.size; i++) {
        if (i) os << ',';
        os << PolyglotBook::getPGMove(pos, ml[i]);
    }
    return os.str();
}

static bool sameState(const Random& a, const Random& b) {
    return memcmp(a.s, b.s, sizeof a.s) == 0;
}

static std::string probe(Position& pos, int ncalls) {
    Book book(false);
    book.initBook();
    bool pgBook = !UciParams::bookFile->getStringPar().empty();
    std::vector<Book::BookEntry> ents;
    book.getBookEntries(pos, ents);
    MoveList ml;
    legalMoves(pos, ml);
    std::ostringstream os;
    os << "R cands=";
    bool allLegal = true;
    long long sum = 0;
    for (size_t i = 0; i < ents.size(); i++) {
        if (i) os << ',';
        int w = book.getWeight(ents[i].count, pgBook);
        os << mv2s(ents[i].move) << ':' << ents[i].count << ':' << w;
        bool c = false;
        for (int mi = 0; mi < ml.size; mi++)
            if (ml[mi] == ents[i].move) { c = true; break; }
        if (!c) allLegal = false;
        sum += w;
    }
    os << ";calls=";
    for (int k = 0; k < ncalls; k++) {
        Random copy = Book::rndGen;
        Move m;
        m.setMove(Square(1), Square(2), 3, 4);       // must be overwritten by getBookMove
        book.getBookMove(pos, m);
        long long rnd = -1;
        if (!ents.empty() && allLegal && sum > 0 && sum <= (1LL << 30))
            rnd = copy.nextInt((int)sum);
        if (k) os << ',';
        os << rnd << ':' << mv2s(m) << ':' << (sameState(copy, Book::rndGen) ? 1 : 0);
    }
    if (allLegal && !ents.empty()) {
        // the engine's only call site of getAllBookMoves (ComputerPlayer) runs after a successful
        // getBookMove, i.e. when every candidate is legal
        std::string s = book.getAllBookMoves(pos);
        for (char& c : s) if (c == ' ') c = '_';
        os << ";all=" << s;
    }
    return os.str();
}

static std::string allMoves(Position& pos) {
    Book book(false);
    std::string s = book.getAllBookMoves(pos);
    for (char& c : s) if (c == ' ') c = '_';
    return "A " + s;
}

template <typename F>
static std::string inChild(F f, int seconds) {
    std::cout.flush();
    int fd[2];
    if (pipe(fd) != 0) return "ERR pipe";
    pid_t pid = fork();
    if (pid == 0) {
        close(fd[0]);
        alarm(seconds);
        std::string r = f();
        (void)!write(fd[1], r.data(), r.size());
        _exit(0);
    }
    close(fd[1]);
    std::string r; char buf[65536]; ssize_t n;
    while ((n = read(fd[0], buf, sizeof buf)) > 0) r.append(buf, n);
    close(fd[0]);
    int st = 0; waitpid(pid, &st, 0);
    if (WIFEXITED(st) && WEXITSTATUS(st) == 0) return r;
    std::ostringstream os;
    if (WIFSIGNALED(st) && WTERMSIG(st) == SIGALRM) os << "TIMEOUT";
    else if (WIFSIGNALED(st)) os << "ERR signal=" << WTERMSIG(st);
    else os << "ERR exit=" << WEXITSTATUS(st);
    return os.str();
}

int main() {
    std::string line;
    Position pos(TextIO::readFEN(TextIO::startPosFEN));
    {
        Book book(false);
        book.initBook();
    }
    while (std::getline(std::cin, line)) {
        std::istringstream is(line);
        std::string cmd; is >> cmd;
        if (cmd == "SEED") {
            unsigned long long s = 0; is >> s;
            Book::rndGen.setSeed(s);
        } else if (cmd == "FEN") {
            std::string fen; std::getline(is, fen);
            while (!fen.empty() && fen[0] == ' ') fen.erase(0, 1);
            try {
                pos = TextIO::readFEN(fen);
                std::cout << describe(pos) << '\n';
            } catch (const ChessError& e) {
                std::cout << "P ERR\n";
            }
        } else if (cmd == "WALK") {
            unsigned long long seed = 0; int plies = 0, bookpct = 0;
            is >> seed >> plies >> bookpct;
            Random r(seed);
            std::string saved = UciParams::bookFile->getStringPar();
            UciParams::bookFile->set("");
            pos = TextIO::readFEN(TextIO::startPosFEN);
            std::cout << describe(pos) << '\n';
            for (int p = 0; p < plies; p++) {
                MoveList ml;
                legalMoves(pos, ml);
                if (ml.size == 0) break;
                Move m;
                if ((int)(r.nextU64() % 100) < bookpct) {
                    Book book(false);
                    book.getBookMove(pos, m);
                }
                if (m.isEmpty())
                    m = ml[(int)(r.nextU64() % (U64)ml.size)];
                UndoInfo ui;
                pos.makeMove(m, ui);
                std::cout << describe(pos) << '\n';
            }
            UciParams::bookFile->set(saved);
        } else if (cmd == "FILE") {
            std::string path; is >> path;
            UciParams::bookFile->set(path == "-" ? std::string() : path);
        } else if (cmd == "PROBE") {
            int n = 0; std::string flag; int secs = 10; is >> n >> flag >> secs;
            if (flag == "!") {
                Position p2(pos);
                std::cout << inChild([&p2, n]() { return probe(p2, n); }, secs > 0 ? secs : 10) << '\n';
            } else {
                std::cout << probe(pos, n) << '\n';
            }
        } else if (cmd == "ALL") {
            std::string flag; is >> flag;
            if (flag == "!") {
                Position p2(pos);
                std::cout << inChild([&p2]() { fclose(stderr); return allMoves(p2); }, 10) << '\n';
            } else {
                std::cout << allMoves(pos) << '\n';
            }
        } else if (cmd == "GM") {
            int wtm = 1, e1 = 0, e8 = 0; is >> wtm >> e1 >> e8;
            Position p;
            p.setPiece(Square(E1), e1);
            p.setPiece(Square(E8), e8);
            p.setWhiteMove(wtm != 0);
            std::cout << "G";
            for (int mv = 0; mv < 65536; mv++) {
                Move m = PolyglotBook::getMove(p, (U16)mv);
                std::cout << ' ' << (m.from().asInt() * 64 + m.to().asInt()) * 16 + m.promoteTo();
            }
            std::cout << '\n';
        } else if (cmd == "CODEC") {
            unsigned long long h = 0; unsigned mv = 0, w = 0; is >> h >> mv >> w;
            PolyglotBook::PGEntry ent;
            PolyglotBook::serialize(h, (U16)mv, (U16)w, ent);
            U64 h2; U16 m2, w2;
            PolyglotBook::deSerialize(ent, h2, m2, w2);
            std::cout << "C";
            for (int i = 0; i < 16; i++) std::cout << ' ' << (int)ent.data[i];
            std::cout << " ; " << h2 << ' ' << m2 << ' ' << w2 << '\n';
        }
    }
    return 0;
}
