// Correspondence harness for C11 (draw recognition).  Line protocol on stdin, one answer line
// per request on stdout (flushed after every answer, so it can be driven interactively).
//
// Direct calls (hashes hexadecimal, the rest decimal):
//   R hmc h size firstNew n e0 .. e(n-1)   Search::canClaimDrawRep on a Position whose clock
//                                          and hash key are set to hmc / h      -> 0 | 1
//   F hmc                                  Search::canClaimDraw50               -> 0 | 1
//   P ply depth firstNew size n e.. | fen  Search::negaScout (full window) on the FEN position
//                                          with the given hash list; second call with an empty
//                                          list -> "r1 r2 inCheck nLegal hash hmc"
//   S nmoves m1 .. mk | fen                EngineControl::setupPosition
//                                          -> "size hmc | list | h0 z0 h1 z1 .. (steps, plain makeMove) | same with e.p. fix-up"
//   M fen                                  Game::insufficientMaterial after "setpos fen" -> 0|1 state
// Game object (HumanPlayer x 2) and ComputerPlayer::canClaimDraw:
//   gnew | gsetpos fen | gplay uci | gcmd <raw command string>
//   gdraw rep|50|offer [uci]               "draw rep <SAN>" etc.
//   gstate                                 -> state pending haveOffer currentMove hmc inCheck nLegal hash | fen
//   gmoves                                 -> uci:hmcAfter ...
//   gafter uci                             -> hmc inCheck nLegal hash | fen | hash before e.p. fix-up
//   ghist                                  -> hashes of Game::getHistory
//   gclaim uci                             -> ComputerPlayer::canClaimDraw string (or "-")
#include <cstdio>
#include <cstdlib>
#include <iostream>
#include <sstream>
#include <string>
#include <vector>
#include <memory>
#include <algorithm>
#include <functional>
#include <map>
#include <set>
#include <thread>
#include <mutex>
#include <condition_variable>
#include <atomic>

#define private public
#define protected public
#include "position.hpp"
#include "search.hpp"
#include "game.hpp"
#include "computerPlayer.hpp"
#include "humanPlayer.hpp"
#include "enginecontrol.hpp"
#include "uciprotocol.hpp"
#undef private
#undef protected
#include "moveGen.hpp"
#include "textio.hpp"
#include "constants.hpp"
#include "treeLogger.hpp"
#include "history.hpp"
#include "killerTable.hpp"
#include "parallel.hpp"

static std::string hex(U64 v) {
    char buf[32];
    snprintf(buf, sizeof buf, "%llx", (unsigned long long)v);
    return buf;
}
static U64 unhex(const std::string& s) { return strtoull(s.c_str(), nullptr, 16); }
static std::string restOfLine(std::istringstream& is) {
    std::string r; std::getline(is, r);
    size_t a = r.find_first_not_of(' ');
    return a == std::string::npos ? std::string() : r.substr(a);
}

static int legalMoves(Position& pos, MoveList& moves) {
    MoveGen::pseudoLegalMoves(pos, moves);
    MoveGen::removeIllegal(pos, moves);
    return moves.size;
}

static bool findLegal(Position& pos, const std::string& uci, Move& out) {
    Move m = TextIO::uciStringToMove(uci);
    MoveList moves;
    legalMoves(pos, moves);
    for (int i = 0; i < moves.size; i++)
        if (moves[i].from() == m.from() && moves[i].to() == m.to() && moves[i].promoteTo() == m.promoteTo()) {
            out = moves[i];
            return true;
        }
    return false;
}

static std::string posInfo(Position pos) {
    MoveList moves;
    int n = legalMoves(pos, moves);
    std::ostringstream os;
    os << pos.getHalfMoveClock() << ' ' << (MoveGen::inCheck(pos) ? 1 : 0) << ' ' << n << ' '
       << hex(pos.zobristHash()) << " | " << TextIO::toFEN(pos);
    return os.str();
}


// ---------------------------------------------------------------------------------------

struct SearchBox {
    TranspositionTable tt;
    Notifier notifier;
    ThreadCommunicator comm;
    KillerTable kt;
    History ht;
    std::unique_ptr<Evaluate::EvalHashTables> et;
    TreeLogger treeLog;
    SearchBox() : tt(1024), comm(nullptr, tt, notifier, false), et(Evaluate::getEvalHashTables()) {}
};

static std::string runPrefix(SearchBox& sb, const std::string& fen, int ply, int depth, int firstNew,
                             int size, const std::vector<U64>& entries) {
    Position pos = TextIO::readFEN(fen);
    std::vector<U64> list(entries);
    list.resize(std::max<size_t>(list.size(), size) + SearchConst::MAX_SEARCH_DEPTH * 2 + 8);
    int res[2];
    for (int pass = 0; pass < 2; pass++) {
        sb.tt.clear();
        sb.ht.init();
        sb.kt.clear();
        Search::SearchTables st(sb.comm.getCTT(), sb.kt, sb.ht, *sb.et);
        Search sc(pos, list, pass == 0 ? size : 0, st, sb.comm, sb.treeLog);
        sc.posHashFirstNew = pass == 0 ? firstNew : 0;
        sc.initSearchTreeInfo();
        sc.nodesToGo = 1000000;
        sc.timeLimit(-1, -1);
        bool inCheck = MoveGen::inCheck(sc.pos);
        using namespace SearchConst;
        res[pass] = sc.negaScout(false, -MATE0, MATE0, ply, depth, Square(-1), inCheck);
    }
    MoveList moves;
    int n = legalMoves(pos, moves);
    std::ostringstream os;
    os << res[0] << ' ' << res[1] << ' ' << (MoveGen::inCheck(pos) ? 1 : 0) << ' ' << n << ' '
       << hex(pos.zobristHash()) << ' ' << pos.getHalfMoveClock();
    return os.str();
}

int main() {
    std::ios::sync_with_stdio(false);
    // Game prints diagnostics on std::cout: keep the protocol on the real stdout only
    std::ostream realOut(std::cout.rdbuf());
    std::ostringstream sink;
    std::cout.rdbuf(sink.rdbuf());
    ComputerPlayer::initEngine();
    std::unique_ptr<Game> game;
    std::unique_ptr<ComputerPlayer> cp;
    std::unique_ptr<SearchBox> sbox;
    std::unique_ptr<EngineMainThread> emt;
    std::unique_ptr<SearchListener> listener;
    std::unique_ptr<EngineControl> ec;
    std::ostringstream engineOut;

    std::string line;
    while (std::getline(std::cin, line)) {
        if (line.empty())
            continue;
        std::istringstream is(line);
        std::string cmd;
        is >> cmd;
        std::ostringstream os;
        try {
        if (cmd == "R") {
            int hmc, size, firstNew, n;
            std::string hs;
            is >> hmc >> hs >> size >> firstNew >> n;
            std::vector<U64> list(n);
            for (int i = 0; i < n; i++) { std::string e; is >> e; list[i] = unhex(e); }
            Position pos;
            pos.setHalfMoveClock(hmc);
            pos.hashKey = unhex(hs);
            os << (Search::canClaimDrawRep(pos, list, size, firstNew) ? 1 : 0);
        } else if (cmd == "F") {
            int hmc; is >> hmc;
            Position pos;
            pos.setHalfMoveClock(hmc);
            os << (Search::canClaimDraw50(pos) ? 1 : 0);
        } else if (cmd == "P") {
            int ply, depth, firstNew, size, n;
            is >> ply >> depth >> firstNew >> size >> n;
            std::vector<U64> list(n);
            for (int i = 0; i < n; i++) { std::string e; is >> e; list[i] = unhex(e); }
            std::string bar; is >> bar;
            std::string fen = restOfLine(is);
            if (!sbox) sbox.reset(new SearchBox());
            os << runPrefix(*sbox, fen, ply, depth, firstNew, size, list);
        } else if (cmd == "S") {
            int k; is >> k;
            std::vector<std::string> ms(k);
            for (int i = 0; i < k; i++) is >> ms[i];
            std::string bar; is >> bar;
            std::string fen = restOfLine(is);
            if (!ec) {
                emt.reset(new EngineMainThread());
                listener.reset(new SearchListener(engineOut));
                ec.reset(new EngineControl(engineOut, *emt, *listener));
            }
            Position pos = TextIO::readFEN(fen);
            std::vector<Move> moves;
            std::ostringstream steps, stepsFixed;
            {
                Position p(pos), q(pos);     // p: plain makeMove; q: with e.p. fix-up after every move
                UndoInfo ui;
                for (int i = 0; i < k; i++) {
                    Move m;
                    if (!findLegal(p, ms[i], m)) { steps << " illegal:" << ms[i]; break; }
                    // zeroing = capture (incl. e.p.) or pawn move, decided from the board
                    int pc = p.getPiece(m.from());
                    bool zeroing = (p.getPiece(m.to()) != Piece::EMPTY) || pc == Piece::WPAWN || pc == Piece::BPAWN;
                    steps << ' ' << hex(p.zobristHash()) << ' ' << (zeroing ? 1 : 0);
                    stepsFixed << ' ' << hex(q.zobristHash()) << ' ' << (zeroing ? 1 : 0);
                    moves.push_back(m);
                    p.makeMove(m, ui);
                    q.makeMove(m, ui);
                    TextIO::fixupEPSquare(q);
                }
            }
            ec->setupPosition(pos, moves);
            os << ec->posHashListSize << ' ' << ec->pos.getHalfMoveClock() << " |";
            for (int i = 0; i < ec->posHashListSize; i++) os << ' ' << hex(ec->posHashList[i]);
            os << " |" << steps.str() << " |" << stepsFixed.str();
        } else if (cmd == "M") {
            std::string fen = restOfLine(is);
            Game g(std::unique_ptr<Player>(new HumanPlayer()), std::unique_ptr<Player>(new HumanPlayer()));
            g.processString("setpos " + fen);
            os << (g.insufficientMaterial() ? 1 : 0) << ' ' << (int)g.getGameState() << " | " << TextIO::toFEN(g.getPos());
        } else if (cmd == "gnew") {
            game.reset(new Game(std::unique_ptr<Player>(new HumanPlayer()), std::unique_ptr<Player>(new HumanPlayer())));
            os << "ok";
        } else if (cmd == "gsetpos") {
            std::string fen = restOfLine(is);
            os << (game->processString("setpos " + fen) ? 1 : 0);
        } else if (cmd == "gplay") {
            std::string uci; is >> uci;
            Position pos(game->getPos());
            Move m;
            if (!findLegal(pos, uci, m)) os << "illegal";
            else os << (game->processString(TextIO::moveToString(pos, m, false)) ? 1 : 0);
        } else if (cmd == "gcmd") {
            std::string rest = restOfLine(is);
            os << (game->processString(rest) ? 1 : 0);
        } else if (cmd == "gdraw") {
            std::string kind, uci; is >> kind >> uci;
            std::string s = "draw " + kind;
            bool okMove = true;
            if (!uci.empty()) {
                Position pos(game->getPos());
                Move m;
                if (!findLegal(pos, uci, m)) okMove = false;
                else s += " " + TextIO::moveToString(pos, m, false);
            } else if (kind == "offer")
                s += " ";
            if (!okMove) os << "illegal";
            else os << (game->processString(s) ? 1 : 0);
        } else if (cmd == "gstate") {
            Position pos(game->getPos());
            os << (int)game->getGameState() << ' ' << (game->pendingDrawOffer ? 1 : 0) << ' '
               << (game->haveDrawOffer() ? 1 : 0) << ' ' << game->currentMove << ' ' << posInfo(pos);
        } else if (cmd == "gmoves") {
            Position pos(game->getPos());
            MoveList moves;
            legalMoves(pos, moves);
            UndoInfo ui;
            for (int i = 0; i < moves.size; i++) {
                pos.makeMove(moves[i], ui);
                os << (i ? " " : "") << TextIO::moveToUCIString(moves[i]) << ':' << pos.getHalfMoveClock();
                pos.unMakeMove(moves[i], ui);
            }
        } else if (cmd == "gafter") {
            std::string uci; is >> uci;
            Position pos(game->getPos());
            Move m;
            if (!findLegal(pos, uci, m)) os << "illegal";
            else {
                UndoInfo ui;
                pos.makeMove(m, ui);
                U64 raw = pos.zobristHash();          // as Position::makeMove leaves it
                TextIO::fixupEPSquare(pos);
                os << posInfo(pos) << " | " << hex(raw);
            }
        } else if (cmd == "ghist") {
            std::vector<Position> hist;
            game->getHistory(hist);
            os << hist.size();
            for (const Position& p : hist) os << ' ' << hex(p.zobristHash());
        } else if (cmd == "gclaim") {
            std::string uci; is >> uci;
            Position pos(game->getPos());
            Move m;
            if (!findLegal(pos, uci, m)) os << "illegal";
            else {
                if (!cp) cp.reset(new ComputerPlayer());
                std::vector<Position> hist;
                game->getHistory(hist);
                std::vector<U64> list(SearchConst::MAX_SEARCH_DEPTH * 2 + hist.size());
                int size = 0;
                for (const Position& p : hist) list[size++] = p.zobristHash();
                std::string r = cp->canClaimDraw(pos, list, size, m);
                os << (r.empty() ? "-" : r);
            }
        } else {
            os << "bad-request";
        }
        } catch (const std::exception& ex) {
            os.str("");
            os << "EXC " << ex.what();
        }
        std::string out = os.str();
        for (char& c : out) if (c == '\n') c = ' ';
        realOut << out << '\n';
        realOut.flush();
        sink.str("");
    }
    if (ec) { ec.reset(); }
    std::cout.rdbuf(realOut.rdbuf());     // sink dies with main: do not leave std::cout pointing at it
    return 0;
}
