// Correspondence / finder harness for C15: drives the real RevMoveGen, Position, MoveGen, TextIO code.
//
//   rev_harness gen     stdin: "G <seed> <plies> <extra> <fen>"   random legal game from <fen>; every position P
//                       visited (always e.p.-fixed-up, as TextIO::readFEN and the walk itself guarantee) is
//                       emitted with the move played, with every special move available in P (castling, en passant,
//                       promotions, moves that lose castling rights, double pushes) and with <extra> more legal moves:
//                           "PAIR <class> <rawP> | <move>"    (class: C castling, E e.p. capture, P promotion, R right-losing,
//                                                              D double push, H other move with an e.p. square in P, N none)
//   rev_harness eval    stdin: "E <incl 0|1> <spec 0|1> <rawP> | <move>"
//                       Q = fixupEP(makeMove(P, m)); un-move list of Q from RevMoveGen::genMoves(Q, list, incl);
//                       one result line
//                           "R kind=.. n=.. req=.. found=.. restored=.. dup=.. bad=.. why=.. firstbad=.. exp=.. Q=<rawQ> | L=<list>"
//                       and, when <spec> is 1, one line "U <rawQ> | <unmove> | <rawPrev>" per listed un-move
//                       (<rawPrev> = the position the real Position::unMakeMove produces), closed by "END".
//   <raw>    = 64 board characters a1..h8 ('.' empty, KQRBNPkqrbnp) <w|b> <castleMask> <epSquare|-1>
//   <move>   = e2e4 / e7e8Q / e2e1q  (promotion: letter of the promoted piece, case = colour)
//   <unmove> = <move>:<capturedPiece>:<castleMask>:<epSquare>   (":hmc<k>" appended when the clock field is not 0)
//
// Fields of the R line (all decided by the real code, the extracted Spec re-decides a subset in props/c15.py):
//   req       completeness is required at (P, m): P has valid piece counts, its e.p. square survives fixupEPSquare, the
//             square behind it is empty, and
//             (incl, or P has no e.p. square, or m is the e.p. capture)
//   found     number of listed un-moves equal to (m, {captured piece, castle mask, e.p. square of P, 0})
//   restored  unMakeMove(Q, m, that undo info) == P with halfMoveClock 0 (Position::operator==, all hashes)
//   dup       the list contains the same (move, undo info) twice
//   bad       number of listed un-moves that are not consistent; why = reason of the first one:
//               hmc (clock field not 0), illegal (move not in MoveGen's legal list of the restored position),
//               back (makeMove + fixupEPSquare does not give Q back), invalid (restored position does not survive
//               toFEN/readFEN unchanged: king capture possible, castling flags or e.p. square dropped)
#include <algorithm>
#include <cstdint>
#include <cstdio>
#include <cstdlib>
#include <cstring>
#include <iostream>
#include <sstream>
#include <string>
#include <vector>
#include <set>
#define private public
#define protected public
#include "bitBoard.hpp"
#include "position.hpp"
#include "moveGen.hpp"
#include "textio.hpp"
#include "revmovegen.hpp"
#undef private
#undef protected

typedef unsigned long long u64;
static const char* pieceChars = ".KQRBNPkqrbnp";

struct Rng {
    u64 s;
    explicit Rng(u64 seed) : s(seed * 0x9E3779B97F4A7C15ULL + 0x1234567ULL) { next(); next(); }
    u64 next() { s ^= s >> 12; s ^= s << 25; s ^= s >> 27; return s * 0x2545F4914F6CDD1DULL; }
    int below(int n) { return (int)((next() >> 11) % (u64)n); }
    bool chance(int pct) { return below(100) < pct; }
};

static std::string rawOf(const Position& pos) {
    std::string s;
    for (int i = 0; i < 64; i++)
        s += pieceChars[pos.getPiece(Square(i))];
    std::ostringstream os;
    os << s << ' ' << (pos.isWhiteMove() ? 'w' : 'b') << ' ' << pos.getCastleMask() << ' '
       << (pos.getEpSquare().isValid() ? pos.getEpSquare().asInt() : -1);
    return os.str();
}

static bool parseRaw(const std::string& line, Position& pos) {
    std::istringstream is(line);
    std::string b, side; int cm, ep;
    if (!(is >> b >> side >> cm >> ep) || b.size() != 64)
        return false;
    pos = Position();
    for (int i = 0; i < 64; i++) {
        const char* p = strchr(pieceChars, b[i]);
        if (!p) return false;
        int pc = (int)(p - pieceChars);
        if (pc != Piece::EMPTY)
            pos.setPiece(Square(i), pc);
    }
    pos.setWhiteMove(side == "w");
    pos.setCastleMask(cm);
    pos.setEpSquare(Square(ep));
    return true;
}

static std::string mvStr(const Move& m) {
    std::string s;
    int f = m.from().asInt(), t = m.to().asInt();
    s += (char)('a' + (f & 7)); s += (char)('1' + (f >> 3));
    s += (char)('a' + (t & 7)); s += (char)('1' + (t >> 3));
    int p = m.promoteTo();
    if (p != Piece::EMPTY) {
        if (p > 0 && p < 13) s += pieceChars[p];
        else { s += '?'; s += std::to_string(p); }
    }
    return s;
}

static bool parseMove(const std::string& s, Move& m) {
    if (s.size() < 4) return false;
    int f = (s[0] - 'a') + 8 * (s[1] - '1'), t = (s[2] - 'a') + 8 * (s[3] - '1');
    if (f < 0 || f > 63 || t < 0 || t > 63) return false;
    int promo = Piece::EMPTY;
    if (s.size() >= 5) {
        const char* p = strchr(pieceChars, s[4]);
        if (!p) return false;
        promo = (int)(p - pieceChars);
    }
    m = Move(Square(f), Square(t), promo);
    return true;
}

static std::string umStr(const UnMove& um) {
    std::ostringstream os;
    os << mvStr(um.move) << ':' << um.ui.capturedPiece << ':' << um.ui.castleMask << ':' << um.ui.epSquare.asInt();
    if (um.ui.halfMoveClock != 0) os << ":hmc" << um.ui.halfMoveClock;
    return os.str();
}

// move generation runs on copies: MoveGen::isLegal and TextIO::fixupEPSquare use makeMoveB/unMakeMoveB,
// which scribble on the (dead) pieceTypeBB_[EMPTY] entry of the object they are given
static void legalMoves(const Position& pos0, MoveList& ml) {
    Position pos(pos0);
    MoveGen::pseudoLegalMoves(pos, ml);
    MoveGen::removeIllegal(pos, ml);
}

static bool containsMove(const MoveList& ml, const Move& m) {
    for (int i = 0; i < ml.size; i++)
        if (ml[i] == m) return true;
    return false;
}

// piece counts obtainable from the initial position (mailbox recount; the function in revmovegen.cpp is file-static)
static bool countsValid(const Position& pos) {
    int c[13] = {0};
    for (int i = 0; i < 64; i++) c[pos.getPiece(Square(i))]++;
    int w = c[Piece::WPAWN] + std::max(0, c[Piece::WKNIGHT] - 2) + std::max(0, c[Piece::WBISHOP] - 2) +
            std::max(0, c[Piece::WROOK] - 2) + std::max(0, c[Piece::WQUEEN] - 1);
    int b = c[Piece::BPAWN] + std::max(0, c[Piece::BKNIGHT] - 2) + std::max(0, c[Piece::BBISHOP] - 2) +
            std::max(0, c[Piece::BROOK] - 2) + std::max(0, c[Piece::BQUEEN] - 1);
    return w <= 8 && b <= 8;
}

static bool epStable(const Position& pos) {
    Position c(pos);
    TextIO::fixupEPSquare(c);
    return c.getEpSquare() == pos.getEpSquare();
}

// the pawn that made the double step came from the square behind the e.p. square: empty in every position
// reached by play (TextIO::readFEN does not look at that square; RevMoveGen::getEpMask does)
static bool epOriginEmpty(const Position& pos) {
    if (!pos.getEpSquare().isValid()) return true;
    int o = pos.getEpSquare().asInt() + (pos.isWhiteMove() ? 8 : -8);
    return o >= 0 && o < 64 && pos.getPiece(Square(o)) == Piece::EMPTY;
}

static bool isKing(int p) { return p == Piece::WKING || p == Piece::BKING; }
static bool isPawn(int p) { return p == Piece::WPAWN || p == Piece::BPAWN; }
static bool isRook(int p) { return p == Piece::WROOK || p == Piece::BROOK; }

// ---- classification of (P, m) ----
static std::string classify(const Position& P, const Move& m, const Position& Q, bool epSetByMake) {
    std::vector<std::string> k;
    int p = P.getPiece(m.from()), cap = P.getPiece(m.to());
    int f = m.from().asInt(), t = m.to().asInt();
    bool epCapture = isPawn(p) && P.getEpSquare().isValid() && m.to() == P.getEpSquare();
    static const char* names[] = {"", "king", "queen", "rook", "bishop", "knight", "pawn"};
    k.push_back(names[Piece::makeWhite(p)]);
    if (isKing(p) && abs(t - f) == 2) k.push_back(t > f ? "castleK" : "castleQ");
    else if (epCapture) k.push_back("epcapture");
    else if (m.promoteTo() != Piece::EMPTY) k.push_back(cap != Piece::EMPTY ? "promocapture" : "promo");
    else if (cap != Piece::EMPTY) k.push_back("capture");
    else if (isPawn(p) && abs(t - f) == 16)
        k.push_back(Q.getEpSquare().isValid() ? "doublepush_ep" : epSetByMake ? "doublepush_epdropped" : "doublepush");
    else k.push_back("quiet");
    int lost = P.getCastleMask() & ~Q.getCastleMask();
    if (lost) {
        if (isKing(p)) k.push_back(abs(t - f) == 2 ? "rights_lost_castling" : "rights_lost_kingmove");
        if (isRook(p) && (lost & (P.isWhiteMove() ? 3 : 12))) k.push_back("rights_lost_rookmove");
        if (lost & (P.isWhiteMove() ? 12 : 3)) k.push_back("rights_lost_rookcaptured");
    }
    if (P.getCastleMask()) k.push_back("P_has_rights");
    if (P.getEpSquare().isValid()) k.push_back("P_has_ep");
    std::string s;
    for (size_t i = 0; i < k.size(); i++) { if (i) s += '+'; s += k[i]; }
    return s;
}

static bool sameUi(const UndoInfo& a, const UndoInfo& b) { return a == b; }

// Q modulo the half-move clock (the un-move carries clock 0, so the re-made position's clock is 0 or 1)
static bool sameModuloClock(const Position& a, const Position& b) {
    return a.drawRuleEquals(b) && a.getFullMoveCounter() == b.getFullMoveCounter() &&
           a.zobristHash() == b.zobristHash() && a.pawnZobristHash() == b.pawnZobristHash() &&
           a.materialId() == b.materialId();
}

static bool survivesFen(const Position& p) {
    try {
        Position q = TextIO::readFEN(TextIO::toFEN(p));
        return q.drawRuleEquals(p);
    } catch (const ChessParseError&) {
        return false;
    }
}

static void evalLine(const std::string& line) {
    std::istringstream is(line);
    std::string tag; int incl, spec;
    is >> tag >> incl >> spec;
    std::string rest;
    std::getline(is, rest);
    size_t bar = rest.find('|');
    Position P; Move m;
    std::string mv;
    { std::istringstream ms(bar == std::string::npos ? "" : rest.substr(bar + 1)); ms >> mv; }
    if (bar == std::string::npos || !parseRaw(rest.substr(0, bar), P) || !parseMove(mv, m)) {
        std::cout << "X bad-input\n";
        return;
    }
    if (!survivesFen(P)) {           // P must be a position the FEN reader accepts unchanged (castle flags, e.p. square, kings)
        std::cout << "X invalid-P\n";
        return;
    }
    MoveList lg;
    legalMoves(P, lg);
    if (!containsMove(lg, m)) {
        std::cout << "X not-legal " << mvStr(m) << '\n';
        return;
    }
    const bool pcv = countsValid(P), pfix = epStable(P) && epOriginEmpty(P);
    const bool epCapture = isPawn(P.getPiece(m.from())) && P.getEpSquare().isValid() && m.to() == P.getEpSquare();
    Position Q(P);
    UndoInfo ui0;
    Q.makeMove(m, ui0);
    const bool epSetByMake = Q.getEpSquare().isValid();
    TextIO::fixupEPSquare(Q);
    Q.pieceTypeBB_[Piece::EMPTY] = 0;

    std::vector<UnMove> ums;
    RevMoveGen::genMoves(Q, ums, incl != 0);

    // completeness
    UndoInfo exp { ui0.capturedPiece, ui0.castleMask, ui0.epSquare, 0 };
    const bool req = pcv && pfix && (incl || !P.getEpSquare().isValid() || epCapture);
    int found = 0;
    for (const UnMove& um : ums)
        if (um.move == m && um.move.promoteTo() == m.promoteTo() && sameUi(um.ui, exp)) found++;
    Position back(Q);
    back.unMakeMove(m, exp);
    Position Pz(P);
    Pz.setHalfMoveClock(0);
    const bool restored = back == Pz;

    // duplicates
    std::set<std::string> seen;
    bool dup = false;
    std::vector<std::string> strs;
    for (const UnMove& um : ums) {
        strs.push_back(umStr(um));
        if (!seen.insert(strs.back()).second) dup = true;
    }

    // consistency
    int bad = 0; std::string why = "-", firstbad = "-";
    std::vector<std::string> prevRaw;
    for (size_t i = 0; i < ums.size(); i++) {
        const UnMove& um = ums[i];
        Position prev(Q);
        prev.unMakeMove(um.move, um.ui);
        if (spec) prevRaw.push_back(rawOf(prev));
        const char* w = nullptr;
        if (um.ui.halfMoveClock != 0) w = "hmc";
        if (!w) {
            MoveList l2;
            legalMoves(prev, l2);
            bool isLegal = false;
            for (int j = 0; j < l2.size; j++)
                if (l2[j] == um.move && l2[j].promoteTo() == um.move.promoteTo()) isLegal = true;
            if (!isLegal) w = "illegal";
        }
        if (!w) {
            Position again(prev);
            UndoInfo ui2;
            again.makeMove(um.move, ui2);
            TextIO::fixupEPSquare(again);
            if (!sameModuloClock(again, Q)) w = "back";
            else if (!(ui2.capturedPiece == um.ui.capturedPiece && ui2.castleMask == um.ui.castleMask && ui2.epSquare == um.ui.epSquare)) w = "back";
        }
        if (!w && !survivesFen(prev)) w = "invalid";
        if (w) {
            if (!bad) { why = w; firstbad = strs[i]; }
            bad++;
        }
    }

    std::cout << "R kind=" << classify(P, m, Q, epSetByMake) << " n=" << ums.size() << " req=" << (req ? 1 : 0)
              << " found=" << found << " restored=" << (restored ? 1 : 0) << " dup=" << (dup ? 1 : 0)
              << " bad=" << bad << " why=" << why << " firstbad=" << firstbad
              << " exp=" << exp.capturedPiece << ':' << exp.castleMask << ':' << exp.epSquare.asInt()
              << " Q=" << rawOf(Q) << " | L=";
    if (strs.empty()) std::cout << '-';
    for (size_t i = 0; i < strs.size(); i++) { if (i) std::cout << ','; std::cout << strs[i]; }
    std::cout << '\n';
    if (spec) {
        const std::string rq = rawOf(Q);
        for (size_t i = 0; i < strs.size(); i++)
            std::cout << "U " << rq << " | " << strs[i] << " | " << prevRaw[i] << '\n';
        std::cout << "END\n";
    }
}

// ---- game generation ----
// class of a move: C castling, E en-passant capture, P promotion, R move that loses a castling right,
// D double push, H any other move made while P has an e.p. square, N none of these
static char specialClass(const Position& P, const Move& m) {
    int p = P.getPiece(m.from());
    int f = m.from().asInt(), t = m.to().asInt();
    if (isKing(p) && abs(t - f) == 2) return 'C';
    if (isPawn(p) && P.getEpSquare().isValid() && m.to() == P.getEpSquare()) return 'E';
    if (m.promoteTo() != Piece::EMPTY) return 'P';
    int cm = P.getCastleMask();
    if (cm) {
        if (isKing(p) && (cm & (P.isWhiteMove() ? 3 : 12))) return 'R';
        static const int corners[4] = {0, 7, 56, 63};
        for (int i = 0; i < 4; i++)
            if ((cm & (1 << i)) && (f == corners[i] || t == corners[i])) return 'R';
    }
    if (isPawn(p) && abs(t - f) == 16) return 'D';
    if (P.getEpSquare().isValid()) return 'H';
    return 'N';
}
static bool isSpecial(const Position& P, const Move& m) { char c = specialClass(P, m); return c != 'N' && c != 'H'; }

static void genLine(const std::string& line) {
    std::istringstream is(line);
    std::string tag; u64 seed; int plies, extra;
    is >> tag >> seed >> plies >> extra;
    std::string fen;
    std::getline(is, fen);
    size_t a = fen.find_first_not_of(' ');
    fen = a == std::string::npos ? "" : fen.substr(a);
    Position pos;
    try {
        pos = TextIO::readFEN(fen);
    } catch (const ChessParseError& e) {
        std::cout << "REJECT " << e.what() << '\n';
        return;
    }
    Rng rng(seed);
    for (int ply = 0; ply < plies; ply++) {
        MoveList ml;
        legalMoves(pos, ml);
        if (ml.size == 0) break;
        std::vector<int> special, castle, ep, promo, dbl, capt;
        for (int i = 0; i < ml.size; i++) {
            const Move& m = ml[i];
            int p = pos.getPiece(m.from());
            if (isSpecial(pos, m)) special.push_back(i);
            if (isKing(p) && abs(m.to().asInt() - m.from().asInt()) == 2) castle.push_back(i);
            if (isPawn(p) && pos.getEpSquare().isValid() && m.to() == pos.getEpSquare()) ep.push_back(i);
            if (m.promoteTo() != Piece::EMPTY) promo.push_back(i);
            if (isPawn(p) && abs(m.to().asInt() - m.from().asInt()) == 16) dbl.push_back(i);
            if (pos.getPiece(m.to()) != Piece::EMPTY) capt.push_back(i);
        }
        int idx = -1;
        if (!castle.empty() && rng.chance(35)) idx = castle[rng.below(castle.size())];
        else if (!ep.empty() && rng.chance(50)) idx = ep[rng.below(ep.size())];
        else if (!promo.empty() && rng.chance(40)) idx = promo[rng.below(promo.size())];
        else if (!dbl.empty() && rng.chance(15)) idx = dbl[rng.below(dbl.size())];
        else if (!capt.empty() && rng.chance(15)) idx = capt[rng.below(capt.size())];
        if (idx < 0) idx = rng.below(ml.size);
        const std::string rp = rawOf(pos);
        std::set<int> emit;
        emit.insert(idx);
        // every special move when there are few, a sample otherwise
        if (special.size() <= 6) emit.insert(special.begin(), special.end());
        else for (int k = 0; k < 6; k++) emit.insert(special[rng.below(special.size())]);
        for (int k = 0; k < extra; k++) emit.insert(rng.below(ml.size));
        for (int i : emit)
            std::cout << "PAIR " << specialClass(pos, ml[i]) << ' ' << rp << " | " << mvStr(ml[i]) << '\n';
        UndoInfo ui;
        pos.makeMove(ml[idx], ui);
        TextIO::fixupEPSquare(pos);
        pos.pieceTypeBB_[Piece::EMPTY] = 0;
    }
    std::cout << "END\n";
}

int main(int argc, char** argv) {
    std::ios::sync_with_stdio(false);
    std::string mode = argc > 1 ? argv[1] : "";
    std::string line;
    while (std::getline(std::cin, line)) {
        if (line.empty()) continue;
        if (mode == "gen") genLine(line);
        else if (mode == "eval") evalLine(line);
        else { std::cerr << "usage: rev_harness gen|eval\n"; return 2; }
    }
    return 0;
}
