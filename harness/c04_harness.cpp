// Correspondence harness for C04 (and the leaf part of C13): calls the REAL leaf functions of
// the current /repo tree, and serves as position oracle (MoveGen) for the trace certificates.
// One request per stdin line, one answer per line (same protocol as drivers/c04_driver.ml for
// the S/G/W/C requests):
//   S s p1 p2          TTEntry::setScore(s,p1) -> "field getScore(p2)"
//   G field ply        TTEntry with that 16-bit score field -> getScore(ply)
//   W s                isWinScore isLoseScore, and what Search::notifyPV hands to the listener
//                      for a root move with that score: "mate N" or "none"
//   C ty ed sc a b d   TTEntry(type ty, depth ed, score sc) .isCutOff(a, b, 0, d)
//   A fen              oracle: "ic n (move fen_after)*"  in check?, legal moves (compressed
//                      code from+64*to+4096*promote) and the position after each
//   Q fen | n          exhaustive mate solver: "D m1 m2 .." least D in 1..n such that the side to
//                      move can force checkmate within D own moves (0 = none within n) and all
//                      first moves that do so
//   L fen | n          "D": least D in 0..n such that the side to move is checkmated within D
//                      opponent moves against every defence (-1 = not within n)
//   D fen | a b ply depth   directed node search: a fresh Search object on that position runs
//                      negaScout(a, b, ply, depth) (shared transposition table, full strength) and
//                      the returned score is printed; with hook H3 and TEXEL_VERIF_TRACE set the
//                      nodes are traced like in the engine
//   H fen | depth mode maxInject pollInterval
//                      search with an EMULATED helper thread (cooperative scheduling): a second
//                      Search object is attached to the main search through the engine's own
//                      parent/child ThreadCommunicator (startSearch / reportResult, shared table),
//                      like a WorkerThread; the helper finishes the current root-move job - and
//                      the main thread receives HelperThreadResult at its next poll - at moments
//                      chosen by the scheduler, one mode per class of transient per-ply state of
//                      the main thread: mode 0 = while a singular-extension verification search is
//                      in progress, mode 2 = while a null-move search or an ABDADA-exclusive child
//                      is in progress, mode 1 = at every k-th poll (k = 3 + deliveries so far * 7).
//                      At most maxInject deliveries.
//                      Answer: "inject=<n> best=<move> ; depth cp|mate value bound pv0 ; ..."
//   T                  clear the transposition table
//   M fen              exact distance to mate of a pawnless position of <= 4 men from the engine's
//                      own retrograde generator (TBGenerator<VectorStorage>, generated on first
//                      use per material class; certified exact by the C12 check):
//                      "mate n" | "mated n" | "draw" | "none"
//   R dtm ply hmc old  tbprobe.cpp rule50Margin on an entry whose evalScore field is old:
//                      "margin evalScoreAfter"                              (C13)
//   X eval dist        Evaluate::swindleScore(eval, dist)                  (C13)
#include <vector>
#include <string>
#include <iostream>
#include <sstream>
#include <memory>
#define private public
#define protected public
#include "transpositionTable.hpp"
#include "search.hpp"
#include "constants.hpp"
#include "position.hpp"
#include "moveGen.hpp"
#include "textio.hpp"
#include "evaluate.hpp"
#include "history.hpp"
#include "killerTable.hpp"
#include "clustertt.hpp"
#include "parallel.hpp"
#include "treeLogger.hpp"
#include "tbprobe.hpp"
#include "computerPlayer.hpp"
#include "tbgen.hpp"
#include "bitBoard.hpp"
#include <map>
#undef private
#undef protected

// rule50Margin is a static inline function of tbprobe.cpp: props/c04.py copies its source text
// (and updateEvScore's) from the current tree into a generated translation unit that is compiled
// with this harness (see c13_rule50_source in props/c04.py).
namespace c13gen { int callRule50Margin(int dtm, int ply, int hmc, int& evalScoreOut); }

// ---- exhaustive mate solver (independent of the search: MoveGen + make/unmake only) ----
static bool matedIn(Position& pos, int n);
static bool mateIn(Position& pos, int n) {       // side to move mates within n own moves, n >= 1
    MoveList moves;
    MoveGen::pseudoLegalMoves(pos, moves);
    MoveGen::removeIllegal(pos, moves);
    for (int i = 0; i < moves.size; i++) {
        UndoInfo ui;
        pos.makeMove(moves[i], ui);
        bool r = (n > 1 || MoveGen::inCheck(pos)) && matedIn(pos, n - 1);
        pos.unMakeMove(moves[i], ui);
        if (r) return true;
    }
    return false;
}
static bool matedIn(Position& pos, int n) {      // side to move is mated within n opponent moves
    MoveList moves;
    MoveGen::pseudoLegalMoves(pos, moves);
    MoveGen::removeIllegal(pos, moves);
    if (moves.size == 0)
        return MoveGen::inCheck(pos);
    if (n == 0)
        return false;
    for (int i = 0; i < moves.size; i++) {
        UndoInfo ui;
        pos.makeMove(moves[i], ui);
        bool r = mateIn(pos, n);
        pos.unMakeMove(moves[i], ui);
        if (!r) return false;
    }
    return true;
}

// ---- emulated helper thread (request H) ----
struct HClaim { int depth; int score; bool isMate, ub, lb; std::string pv0; };
struct HListener : public Search::Listener {
    std::vector<HClaim> claims;
    void notifyDepth(int) override {}
    void notifyCurrMove(const Move&, int) override {}
    void notifyPV(int depth, int sc, S64, S64, S64, bool mate, bool u, bool l,
                  const std::vector<Move>& pv, int, S64) override {
        claims.push_back(HClaim{depth, sc, mate, u, l, pv.empty() ? std::string("-") : TextIO::moveToUCIString(pv[0])});
    }
    void notifyStats(S64, S64, int, S64, S64) override {}
};
struct HJob { bool valid = false; int jobId = -1; SearchTreeInfo sti; int alpha = 0, beta = 0, depth = 0; };
struct HHandler : public Communicator::CommandHandler {
    HJob job;
    void startSearch(int jobId, const SearchTreeInfo& sti, int alpha, int beta, int depth) override {
        job.valid = true; job.jobId = jobId; job.sti = sti; job.alpha = alpha; job.beta = beta; job.depth = depth;
    }
    virtual ~HHandler() = default;
};
struct HHelper {
    Notifier notifier;
    ThreadCommunicator comm;
    KillerTable kt; History ht;
    std::unique_ptr<Evaluate::EvalHashTables> et;
    TreeLogger treeLog;
    HHandler handler;
    Position rootPos;
    int lastDone = -1;
    int nFinished = 0;
    HHelper(Communicator& parent, TranspositionTable& tt, const Position& root)
        : comm(&parent, tt, notifier, false), et(Evaluate::getEvalHashTables()), rootPos(root) {}
    /** Search the most recently assigned root-move job to completion and report its result. */
    bool finishCurrentJob() {
        comm.poll(handler);
        const HJob& job = handler.job;
        if (!job.valid || job.jobId == lastDone)
            return false;
        lastDone = job.jobId;
        Search::SearchTables st(comm.getCTT(), kt, ht, *et);
        Position pos(rootPos);
        std::vector<U64> hist(SearchConst::MAX_SEARCH_DEPTH * 4 + 16);
        hist[0] = pos.zobristHash();
        UndoInfo ui;
        pos.makeMove(job.sti.currentMove, ui);
        Search sc(pos, hist, 1, st, comm, treeLog);
        sc.setThreadNo(1);
        sc.initSearchTreeInfo();
        sc.setMinProbeDepth(SearchConst::MAX_SEARCH_DEPTH);
        sc.setSearchTreeInfo(0, job.sti, 0);
        int score = sc.negaScout(true, job.alpha, job.beta, 1, job.depth, Square(-1), MoveGen::inCheck(pos));
        comm.sendReportResult(job.jobId, score);
        nFinished++;
        return true;
    }
};
/** The main thread's stop handler doubles as the scheduler of the emulated helper. */
struct HScheduler : public Search::StopHandler {
    Search& sc; HHelper& helper; int mode, maxInject; long polls = 0;
    HScheduler(Search& s, HHelper& h, int m, int mi) : sc(s), helper(h), mode(m), maxInject(mi) {}
    bool shouldStop() override {
        polls++;
        if (helper.nFinished < maxInject) {
            bool now = false;
            if (mode == 0 || mode == 2) {
                for (int p = 1; p < 60 && !now; p++) {
                    const SearchTreeInfo& s = sc.searchTreeInfo[p];
                    if (mode == 0 ? !s.singularMove.isEmpty() : (!s.allowNullMove || s.abdadaExclusive))
                        now = true;
                }
            } else {
                now = (polls % (3 + helper.nFinished * 7)) == 0;
            }
            if (now)
                helper.finishCurrentJob();
        }
        return sc.shouldStop();
    }
};

struct CaptureListener : public Search::Listener {
    bool got = false; int score = 0; bool isMate = false, ub = false, lb = false;
    void notifyDepth(int) override {}
    void notifyCurrMove(const Move&, int) override {}
    void notifyPV(int, int sc, S64, S64, S64, bool mate, bool u, bool l,
                  const std::vector<Move>&, int, S64) override {
        got = true; score = sc; isMate = mate; ub = u; lb = l;
    }
    void notifyStats(S64, S64, int, S64, S64) override {}
};

int main() {
    ComputerPlayer::initEngine();   // piece values etc. (as texel.cpp main does)
    std::vector<U64> nullHist(SearchConst::MAX_SEARCH_DEPTH * 2);
    TranspositionTable tt(1 << 16);
    Notifier notifier;
    ThreadCommunicator comm(nullptr, tt, notifier, false);
    KillerTable kt;
    History ht;
    std::unique_ptr<Search> sc;
    std::unique_ptr<Evaluate::EvalHashTables> et;
    TreeLogger treeLog;
    Position startPos = TextIO::readFEN(TextIO::startPosFEN);
    CaptureListener cl;

    std::string line;
    while (std::getline(std::cin, line)) {
        std::istringstream is(line);
        std::string k; is >> k;
        if (k == "S") {
            int s, p1, p2; is >> s >> p1 >> p2;
            TranspositionTable::TTEntry e;
            e.setScore(s, p1);
            std::cout << e.getBits(16, 16) << ' ' << e.getScore(p2) << '\n';
        } else if (k == "G") {
            int f, ply; is >> f >> ply;
            TranspositionTable::TTEntry e;
            e.setBits(16, 16, (unsigned)f);
            std::cout << e.getScore(ply) << '\n';
        } else if (k == "W") {
            int s; is >> s;
            if (!sc) {
                et = Evaluate::getEvalHashTables();
                Search::SearchTables st(comm.getCTT(), kt, ht, *et);
                sc.reset(new Search(startPos, nullHist, 0, st, comm, treeLog));
                sc->setListener(cl);
            }
            Search::MoveInfo mi(Move(Square(12), Square(28), 0), 0);
            mi.depth = 1; mi.alpha = -SearchConst::MATE0 - 1000; mi.beta = SearchConst::MATE0 + 1000;
            mi.move.setScore(s);
            cl.got = false;
            sc->notifyPV(mi, -1);
            std::cout << (SearchConst::isWinScore(s) ? 1 : 0) << ' ' << (SearchConst::isLoseScore(s) ? 1 : 0) << ' ';
            if (cl.got && cl.isMate) std::cout << cl.score; else std::cout << "none";
            std::cout << '\n';
        } else if (k == "C") {
            int ty, ed, s, a, b, d; is >> ty >> ed >> s >> a >> b >> d;
            TranspositionTable::TTEntry e;
            e.setType(ty); e.setDepth(ed); e.setScore(s, 0);
            std::cout << (e.isCutOff(a, b, 0, d) ? 1 : 0) << '\n';
        } else if (k == "A") {
            std::string fen; std::getline(is, fen);
            fen.erase(0, fen.find_first_not_of(' '));
            try {
                Position pos = TextIO::readFEN(fen);
                MoveList moves;
                MoveGen::pseudoLegalMoves(pos, moves);
                MoveGen::removeIllegal(pos, moves);
                std::cout << (MoveGen::inCheck(pos) ? 1 : 0) << ' ' << moves.size;
                for (int i = 0; i < moves.size; i++) {
                    UndoInfo ui;
                    const Move& m = moves[i];
                    pos.makeMove(m, ui);
                    std::cout << " ; " << m.getCompressedMove() << ' ' << TextIO::toFEN(pos);
                    pos.unMakeMove(m, ui);
                }
                std::cout << '\n';
            } catch (const ChessParseError& e) {
                std::cout << "ERR " << e.what() << '\n';
            }
        } else if (k == "Q" || k == "L") {
            std::string rest; std::getline(is, rest);
            rest.erase(0, rest.find_first_not_of(' '));
            size_t bar = rest.find('|');
            try {
                Position pos = TextIO::readFEN(rest.substr(0, bar));
                int n = std::stoi(rest.substr(bar + 1));
                if (k == "Q") {
                    int D = 0;
                    for (int d = 1; d <= n && !D; d++)
                        if (mateIn(pos, d)) D = d;
                    std::cout << D;
                    if (D) {
                        MoveList moves;
                        MoveGen::pseudoLegalMoves(pos, moves);
                        MoveGen::removeIllegal(pos, moves);
                        for (int i = 0; i < moves.size; i++) {
                            UndoInfo ui;
                            pos.makeMove(moves[i], ui);
                            bool r = matedIn(pos, D - 1);
                            pos.unMakeMove(moves[i], ui);
                            if (r) std::cout << ' ' << TextIO::moveToUCIString(moves[i]);
                        }
                    }
                    std::cout << '\n';
                } else {
                    int D = -1;
                    for (int d = 0; d <= n && D < 0; d++)
                        if (matedIn(pos, d)) D = d;
                    std::cout << D << '\n';
                }
            } catch (const std::exception& e) {
                std::cout << "ERR " << e.what() << '\n';
            }
        } else if (k == "M") {
            std::string fen; std::getline(is, fen);
            fen.erase(0, fen.find_first_not_of(' '));
            try {
                Position pos = TextIO::readFEN(fen);
                PieceCount pc;
                pc.nwq = BitBoard::bitCount(pos.pieceTypeBB(Piece::WQUEEN));
                pc.nwr = BitBoard::bitCount(pos.pieceTypeBB(Piece::WROOK));
                pc.nwb = BitBoard::bitCount(pos.pieceTypeBB(Piece::WBISHOP));
                pc.nwn = BitBoard::bitCount(pos.pieceTypeBB(Piece::WKNIGHT));
                pc.nbq = BitBoard::bitCount(pos.pieceTypeBB(Piece::BQUEEN));
                pc.nbr = BitBoard::bitCount(pos.pieceTypeBB(Piece::BROOK));
                pc.nbb = BitBoard::bitCount(pos.pieceTypeBB(Piece::BBISHOP));
                pc.nbn = BitBoard::bitCount(pos.pieceTypeBB(Piece::BKNIGHT));
                bool pawns = (pos.pieceTypeBB(Piece::WPAWN) | pos.pieceTypeBB(Piece::BPAWN)) != 0;
                if (pawns || pc.nPieces() > 4 || pc.nPieces() < 3) {
                    std::cout << "none\n";
                } else {
                    static std::map<std::vector<int>, std::pair<std::unique_ptr<VectorStorage>, std::unique_ptr<TBGenerator<VectorStorage>>>> tbs;
                    std::vector<int> key = {pc.nwq, pc.nwr, pc.nwb, pc.nwn, pc.nbq, pc.nbr, pc.nbb, pc.nbn};
                    auto it = tbs.find(key);
                    if (it == tbs.end()) {
                        std::unique_ptr<VectorStorage> vs(new VectorStorage);
                        std::unique_ptr<TBGenerator<VectorStorage>> g(new TBGenerator<VectorStorage>(*vs, pc));
                        RelaxedShared<S64> maxT(-1);
                        bool ok = g->generate(maxT, false);
                        if (!ok) g.reset();
                        it = tbs.emplace(key, std::make_pair(std::move(vs), std::move(g))).first;
                    }
                    int score = 0;
                    if (!it->second.second || !it->second.second->probeDTM(pos, 0, score)) {
                        std::cout << "none\n";
                    } else if (score == 0) {
                        std::cout << "draw\n";
                    } else if (score > 0) {
                        std::cout << "mate " << (SearchConst::MATE0 - score) / 2 << '\n';
                    } else {
                        std::cout << "mated " << (SearchConst::MATE0 + score - 1) / 2 << '\n';
                    }
                }
            } catch (const std::exception& e) {
                std::cout << "ERR " << e.what() << '\n';
            }
        } else if (k == "D") {
            std::string rest; std::getline(is, rest);
            rest.erase(0, rest.find_first_not_of(' '));
            size_t bar = rest.find('|');
            try {
                Position pos = TextIO::readFEN(rest.substr(0, bar));
                std::istringstream ps(rest.substr(bar + 1));
                int a, b, ply, depth; ps >> a >> b >> ply >> depth;
                if (!et) et = Evaluate::getEvalHashTables();
                Search::SearchTables st(comm.getCTT(), kt, ht, *et);
                std::vector<U64> hist(SearchConst::MAX_SEARCH_DEPTH * 4 + 16);
                Search s2(pos, hist, 0, st, comm, treeLog);
                s2.initSearchTreeInfo();
                s2.setMinProbeDepth(SearchConst::MAX_SEARCH_DEPTH);   // as iterativeDeepening does without tablebases
                int score = s2.negaScout(true, a, b, ply, depth, Square(-1), MoveGen::inCheck(pos));
                std::cout << score << '\n';
            } catch (const std::exception& e) {
                std::cout << "ERR " << e.what() << '\n';
            }
        } else if (k == "H") {
            std::string rest; std::getline(is, rest);
            rest.erase(0, rest.find_first_not_of(' '));
            size_t bar = rest.find('|');
            try {
                Position root = TextIO::readFEN(rest.substr(0, bar));
                std::istringstream ps(rest.substr(bar + 1));
                int depth, mode, maxInject, pollInterval; ps >> depth >> mode >> maxInject >> pollInterval;
                Position pos(root);
                std::vector<U64> hist(SearchConst::MAX_SEARCH_DEPTH * 4 + 16);
                TranspositionTable tt2(1 << 18);
                Notifier notifier2;
                ThreadCommunicator comm2(nullptr, tt2, notifier2, false);
                KillerTable kt2; History ht2;
                auto et2 = Evaluate::getEvalHashTables();
                Search::SearchTables st(comm2.getCTT(), kt2, ht2, *et2);
                HHelper helper(comm2, tt2, root);
                Search sc2(pos, hist, 0, st, comm2, treeLog);
                HListener hl; sc2.setListener(hl);
                sc2.setStopHandler(std::unique_ptr<Search::StopHandler>(new HScheduler(sc2, helper, mode, maxInject)));
                sc2.nodesBetweenTimeCheck = pollInterval;
                MoveList moves;
                MoveGen::pseudoLegalMoves(pos, moves);
                MoveGen::removeIllegal(pos, moves);
                sc2.scoreMoveList(moves, 0);
                sc2.timeLimit(-1, -1);
                Move best = sc2.iterativeDeepening(moves, depth, -1, 1, false, SearchConst::MAX_SEARCH_DEPTH);
                std::cout << "inject=" << helper.nFinished << " best=" << TextIO::moveToUCIString(best);
                for (const HClaim& c : hl.claims)
                    std::cout << " ; " << c.depth << ' ' << (c.isMate ? "mate" : "cp") << ' ' << c.score << ' '
                              << (c.ub ? "upperbound" : c.lb ? "lowerbound" : "exact") << ' ' << c.pv0;
                std::cout << '\n';
            } catch (const std::exception& e) {
                std::cout << "ERR " << e.what() << '\n';
            }
        } else if (k == "T") {
            tt.clear();
            std::cout << "ok\n";
        } else if (k == "R") {
            int dtm, ply, hmc, ev = 0; is >> dtm >> ply >> hmc >> ev;
            int m = c13gen::callRule50Margin(dtm, ply, hmc, ev);
            std::cout << m << ' ' << ev << '\n';
        } else if (k == "X") {
            int ev, dist; is >> ev >> dist;
            std::cout << Evaluate::swindleScore(ev, dist) << '\n';
        } else if (!k.empty()) {
            std::cout << "ERR unknown request\n";
        }
        std::cout.flush();
    }
    return 0;
}
