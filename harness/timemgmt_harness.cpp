// Correspondence harness for C06 (time management).  Calls the real EngineControl
// (computeTimeLimit, startSearch/startPonder -> startThread, ponderHit, stopSearch) and the
// real Search::shouldStop; nothing is copied from the repo.  The engine main loop thread is
// never started, so startThread() only installs the limits in a freshly constructed Search.
//
//   F <fen>            set the position for the following A cases;  prints  F <white> <nLegal>
//   A buf ponderOpt white wtime btime winc binc movestogo depth nodes mate movetime infinite nMoves ponderCmd
//                      (white/nMoves are for the model; ignored here)  prints
//        A | min max esp maxDepth maxNodes | scMin scMax scEsp searchDepth one inf ponder
//          | ecMin ecMax scMin scMax scEsp inf | scMin scMax scEsp
//   P minT maxT esp hfbits needMore elapsed      prints  P <stop>   (Search::shouldStop)
#include <algorithm>
#include <atomic>
#include <chrono>
#include <climits>
#include <cmath>
#include <condition_variable>
#include <cstdint>
#include <cstdio>
#include <cstdlib>
#include <cstring>
#include <deque>
#include <fstream>
#include <functional>
#include <iostream>
#include <map>
#include <memory>
#include <mutex>
#include <random>
#include <regex>
#include <set>
#include <sstream>
#include <string>
#include <thread>
#include <unordered_map>
#include <unordered_set>
#include <vector>
#include <array>
#include <bitset>
#include <cassert>
#include <exception>
#include <iomanip>
#include <iosfwd>
#include <limits>
#include <list>
#include <queue>
#include <stdexcept>
#include <type_traits>
#include <utility>

#define private public
#define protected public
#include "enginecontrol.hpp"
#include "uciprotocol.hpp"
#include "search.hpp"
#include "searchparams.hpp"
#include "parameters.hpp"
#include "textio.hpp"
#include "computerPlayer.hpp"
#include "moveGen.hpp"
#include "cluster.hpp"
#include "timeUtil.hpp"
#undef private
#undef protected

static std::string scStr(const std::shared_ptr<Search>& sc) {
    std::ostringstream os;
    if (!sc) return "- - -";
    os << (S64)sc->minTimeMillis << ' ' << (S64)sc->maxTimeMillis << ' ' << (int)sc->earlyStopPercentage;
    return os.str();
}

int main(int argc, char* argv[]) {
    Cluster::instance().init(&argc, &argv);
    ComputerPlayer::initEngine();
    std::ostringstream sink;
    SearchListener listener(sink);
    EngineMainThread et;                       // main loop NOT started
    EngineControl ec(sink, et, listener);
    Parameters& pars = Parameters::instance();
    pars.set("Hash", "1");
    pars.set("Threads", "1");
    pars.set("OwnBook", "false");

    Position pos = TextIO::readFEN(TextIO::startPosFEN);
    std::vector<Move> noMoves;
    std::string line;
    while (std::getline(std::cin, line)) {
        if (line.empty()) continue;
        std::istringstream is(line);
        std::string k; is >> k;
        if (k == "F") {
            std::string fen; std::getline(is, fen);
            fen.erase(0, fen.find_first_not_of(" \t"));
            pos = TextIO::readFEN(fen);
            MoveList ml;
            MoveGen::pseudoLegalMoves(pos, ml);
            MoveGen::removeIllegal(pos, ml);
            std::cout << "F " << (pos.isWhiteMove() ? 1 : 0) << ' ' << ml.size << '\n';
        } else if (k == "A") {
            long buf, ponderOpt, white, wt, bt, wi, bi, mtg, depth, nodes, mate, movetime, inf, nMoves, ponderCmd;
            is >> buf >> ponderOpt >> white >> wt >> bt >> wi >> bi >> mtg >> depth >> nodes >> mate
               >> movetime >> inf >> nMoves >> ponderCmd;
            pars.set("BufferTime", std::to_string(buf));
            pars.set("Ponder", ponderOpt ? "true" : "false");
            SearchParams sPar(123456789);
            sPar.wTime = (int)wt; sPar.bTime = (int)bt; sPar.wInc = (int)wi; sPar.bInc = (int)bi;
            sPar.movesToGo = (int)mtg; sPar.depth = (int)depth; sPar.nodes = (int)nodes;
            sPar.mate = (int)mate; sPar.moveTime = (int)movetime; sPar.infinite = inf != 0;
            et.search = false;
            if (ponderCmd) ec.startPonder(pos, noMoves, sPar);
            else           ec.startSearch(pos, noMoves, sPar);
            std::ostringstream os;
            os << "A | " << ec.minTimeLimit << ' ' << ec.maxTimeLimit << ' ' << ec.earlyStopPercentage << ' '
               << ec.maxDepth << ' ' << ec.maxNodes
               << " | " << scStr(ec.sc) << ' ' << et.maxDepth << ' ' << (ec.onePossibleMove ? 1 : 0) << ' '
               << (ec.infinite ? 1 : 0) << ' ' << (ec.ponder ? 1 : 0);
            ec.ponderHit();
            os << " | " << ec.minTimeLimit << ' ' << ec.maxTimeLimit << ' ' << scStr(ec.sc) << ' '
               << (ec.infinite ? 1 : 0);
            et.search = false;                 // pretend the (never started) search has ended
            ec.stopSearch();
            os << " | " << scStr(ec.sc);
            std::cout << os.str() << '\n';
        } else if (k == "P") {
            long minT, maxT, esp, needMore, elapsed; std::string hfs;
            is >> minT >> maxT >> esp >> hfs >> needMore >> elapsed;
            uint64_t bits = std::strtoull(hfs.c_str(), nullptr, 16);
            double hf; std::memcpy(&hf, &bits, sizeof hf);
            if (!ec.sc) {
                SearchParams sPar(123456789); sPar.depth = 1;
                et.search = false;
                ec.startSearch(pos, noMoves, sPar);
                et.search = false;
            }
            Search& sc = *ec.sc;
            bool r = false;
            for (int tries = 0; tries < 100; tries++) {
                sc.minTimeMillis = minT; sc.maxTimeMillis = maxT; sc.earlyStopPercentage = (int)esp;
                sc.hardFactor = hf; sc.searchNeedMoreTime = needMore != 0;
                sc.maxNodes = -1; sc.maxNPS = 0;
                S64 t0 = currentTimeMillis();
                sc.tLastStats = t0;
                sc.tStart = t0 - elapsed;
                r = sc.shouldStop();
                S64 t1 = currentTimeMillis();
                if (t0 == t1) break;           // the clock did not tick during the call
            }
            std::cout << "P " << (r ? 1 : 0) << '\n';
        }
    }
    std::cout.flush();
    et.search = false;
    return 0;
}
