// Harness for C13 (with tablebase knowledge the engine reports exact results and keeps them).
//
// Mode "oracle DUMPDIR"  -- the SPECIFICATION side of the end-to-end finder.  Nothing of the engine
//   is used here: own FEN reader, own move generator for pawnless positions without castling,
//   distance-to-mate values read from the dumps written by harness/tbgen_harness.cpp (file
//   DUMPDIR/<CLASS>.vec.dump, the table of the real TBGenerator, certified by the extracted
//   checker of C12), and on top of them the exact game value UNDER THE 50-MOVE RULE:
//
//     W(p, h)   value of position p with half-move clock h for the side to move, where a draw
//               can be claimed as soon as the clock reaches 100 unless the side to move is
//               checkmated (what Search::canClaimDraw50 implements).
//       p checkmated                       -> L0
//       h >= 100, or DTM(p) = draw         -> D          (the rule only ever adds draws)
//       DTM(p) = W d / L d,  d + h <= 100  -> the same   (the DTM line finishes in time)
//       DTM(p) = W d otherwise             -> W (1 + min k) over moves to c with W(c, h') = L k, else D
//       DTM(p) = L d otherwise             -> D if some move reaches W(c, h') = D, else L (1 + max k)
//               h' = 0 after a capture, h + 1 otherwise.
//     computed lazily with a memo table (only positions whose DTM line does not fit are expanded).
//
//   request   O CLASS FEN [| m1 m2 .. | *]
//   answer    R <idx> <dtm> <w> <incheck> <n> ; <uci> <cap> <idx> <dtm> <w> ; ...  (idx = index in
//             the dump, for the certification of the used entries; children: values for
//             the side to move AFTER the move, clock already updated; <w> of a child only for the
//             listed moves, '-' otherwise)   |  ERR text
//   request   C CLASS FEN         number of legal moves: "C <n>"
//   request   D CLASS FEN         distance to mate only: "D <dtm>"
//   request   V CLASS FEN | m1 m2 ..   walk a line: "V <dtm> ; <uci> ok <dtm> <clock> <nmoves> ; ..." (or "<uci> illegal")
//   request   B CLASS n FEN       does the side to move mate (DTM-won) / is it mated (DTM-lost)
//                                 within n plies under the rule: "B 1" | "B 0" | "B ?"
//   values    <dtm>: W<k> (side to move mates in k plies)  L<k> (is mated in k plies)  D
//             I (illegal / not in the dump);  <w>: W L D without distance (the distance is the
//             DTM distance whenever k + clock <= 100), ? (expansion budget exceeded)
//
// Mode "probe"  -- the REAL code: TBProbe::tbProbe (on-demand branch) and the tablebase return
//   site of Search::negaScout, for the correspondence with coq/Search/TBRules.v.
//   request   G CLASS                      TranspositionTable::updateTB(root of CLASS): "ok"/"fail"
//             P ply alpha beta | FEN       TBProbe::tbProbe(pos, ply, alpha, beta, tt, ent):
//                                          "found type score evalScore" | "none"
//             Q ply | FEN                  TranspositionTable::probeDTM(pos, ply): "score" | "none"
//             N alpha beta ply depth | FEN a fresh Search runs negaScout(alpha,beta,ply,depth) with
//                                          minProbeDepth 1 on the shared table: "score"  ("skip" if
//                                          the hash table already holds an entry for the position)
//             E FEN                        static evaluation eval.evalPos() of the position
#include <algorithm>
#include <cstdio>
#include <cstdlib>
#include <cstring>
#include <iostream>
#include <map>
#include <memory>
#include <sstream>
#include <string>
#include <unordered_map>
#include <vector>
#include <fcntl.h>
#include <sys/mman.h>
#include <sys/stat.h>
#include <unistd.h>

#define private public
#define protected public
#include "transpositionTable.hpp"
#include "search.hpp"
#include "constants.hpp"
#include "position.hpp"
#include "moveGen.hpp"
#include "textio.hpp"
#include "evaluate.hpp"
#include "history.hpp"
#include "killerTable.hpp"
#include "clustertt.hpp"
#include "parallel.hpp"
#include "treeLogger.hpp"
#include "tbprobe.hpp"
#include "computerPlayer.hpp"
#include "tbgen.hpp"
#undef private
#undef protected

typedef long long i64;

// =============================================================================================
// oracle: independent rules + dump lookup + 50-move-rule value
// =============================================================================================
namespace oracle {

struct Val { char t; int k; };      // t in 'W','L','D','I','?'
static std::string show(Val v) {
    if (v.t == 'W' || v.t == 'L') return std::string(1, v.t) + std::to_string(v.k);
    return std::string(1, v.t);
}

struct Board {
    int n;              // men on the board (<= 4)
    char pc[4];         // piece letter: upper case white, lower case black
    int sq[4];          // its square, a1 = 0 .. h8 = 63
    bool wtm;
    int hmc;
    int at(int s) const { for (int i = 0; i < n; i++) if (sq[i] == s) return i; return -1; }
};

struct ClassDump {
    int id;                   // distinguishes the classes in the memo keys
    std::string name;
    std::vector<char> man;    // letters in class order, lower case for black
    int k;
    i64 n65;
    const int16_t* data;
};

static std::map<std::string, ClassDump> dumps;
static std::string dumpDir;

static const ClassDump* getDump(const std::string& cls) {
    auto it = dumps.find(cls);
    if (it != dumps.end()) return it->second.data ? &it->second : nullptr;
    ClassDump d; d.name = cls; d.data = nullptr; d.id = (int)dumps.size() + 1;
    bool white = true;
    for (size_t i = 0; i < cls.size(); i++) {
        if (i > 0 && cls[i] == 'K') white = false;
        d.man.push_back(white ? cls[i] : (char)std::tolower(cls[i]));
    }
    d.k = (int)cls.size();
    d.n65 = 1;
    for (int i = 0; i < d.k; i++) d.n65 *= 65;
    std::string path = dumpDir + "/" + cls + ".vec.dump";
    int fd = open(path.c_str(), O_RDONLY);
    if (fd >= 0) {
        struct stat st;
        if (fstat(fd, &st) == 0 && (i64)st.st_size == 4 * d.n65) {
            void* p = mmap(nullptr, (size_t)st.st_size, PROT_READ, MAP_PRIVATE, fd, 0);
            if (p != MAP_FAILED) d.data = (const int16_t*)p;
        }
        close(fd);
    }
    dumps[cls] = d;
    return dumps[cls].data ? &dumps[cls] : nullptr;
}

static bool parseFen(const std::string& fen, Board& b, std::string& err) {
    std::istringstream is(fen);
    std::string pl, stm, castle, ep; int hmc = 0, full = 1;
    if (!(is >> pl >> stm >> castle >> ep)) { err = "short fen"; return false; }
    is >> hmc >> full;
    b.n = 0;
    int r = 7, f = 0;
    for (char c : pl) {
        if (c == '/') { r--; f = 0; continue; }
        if (c >= '1' && c <= '8') { f += c - '0'; continue; }
        if (r < 0 || f > 7) { err = "bad placement"; return false; }
        if (!std::strchr("KQRBNkqrbn", c)) { err = "piece outside the oracle's domain"; return false; }
        if (b.n >= 4) { err = "more than four men"; return false; }
        b.pc[b.n] = c; b.sq[b.n] = r * 8 + f; b.n++; f++;
    }
    if (castle != "-") { err = "castling rights outside the oracle's domain"; return false; }
    b.wtm = stm == "w";
    b.hmc = hmc;
    return true;
}

static inline bool isWhite(char c) { return c >= 'A' && c <= 'Z'; }

static const int KN[8][2] = {{1,2},{2,1},{2,-1},{1,-2},{-1,-2},{-2,-1},{-2,1},{-1,2}};
static const int KG[8][2] = {{1,0},{1,1},{0,1},{-1,1},{-1,0},{-1,-1},{0,-1},{1,-1}};

// does the man i of b attack square s (other men block sliders)?
static bool manAttacks(const Board& b, int i, int s) {
    int from = b.sq[i];
    if (from == s) return false;
    int dr = s / 8 - from / 8, df = s % 8 - from % 8;
    int ar = dr < 0 ? -dr : dr, af = df < 0 ? -df : df;
    char u = (char)std::toupper(b.pc[i]);
    if (u == 'N') return (ar == 1 && af == 2) || (ar == 2 && af == 1);
    if (u == 'K') return ar <= 1 && af <= 1;
    bool straight = (dr == 0 || df == 0), diag = (ar == af);
    if (!straight && !diag) return false;
    if (u == 'R' && !straight) return false;
    if (u == 'B' && !diag) return false;
    int sr = (dr > 0) - (dr < 0), sf = (df > 0) - (df < 0);
    int r = from / 8 + sr, f = from % 8 + sf;
    while (r * 8 + f != s) {
        if (b.at(r * 8 + f) >= 0) return false;
        r += sr; f += sf;
    }
    return true;
}

// is square s attacked by a man of colour `white`?
static bool attacked(const Board& b, int s, bool white) {
    for (int i = 0; i < b.n; i++)
        if (isWhite(b.pc[i]) == white && manAttacks(b, i, s)) return true;
    return false;
}

static int kingSq(const Board& b, bool white) {
    for (int i = 0; i < b.n; i++) if (b.pc[i] == (white ? 'K' : 'k')) return b.sq[i];
    return -1;
}

struct Mv { int from, to; bool cap; };

static Board apply(const Board& b, const Mv& m) {
    Board n = b;
    int ci = m.cap ? b.at(m.to) : -1;
    int mi = b.at(m.from);
    n.sq[mi] = m.to;
    if (ci >= 0) {                      // remove the captured man
        n.pc[ci] = n.pc[n.n - 1]; n.sq[ci] = n.sq[n.n - 1]; n.n--;
    }
    n.wtm = !b.wtm;
    n.hmc = m.cap ? 0 : b.hmc + 1;
    return n;
}

static void legalMoves(const Board& b, std::vector<Mv>& out) {
    out.clear();
    for (int i = 0; i < b.n; i++) {
        char c = b.pc[i];
        if (isWhite(c) != b.wtm) continue;
        char u = (char)std::toupper(c);
        int s = b.sq[i], r = s / 8, f = s % 8;
        int tos[32], nt = 0;
        if (u == 'N' || u == 'K') {
            const int (*D)[2] = u == 'N' ? KN : KG;
            for (int j = 0; j < 8; j++) {
                int rr = r + D[j][0], ff = f + D[j][1];
                if (rr < 0 || rr > 7 || ff < 0 || ff > 7) continue;
                int t = b.at(rr * 8 + ff);
                if (t >= 0 && isWhite(b.pc[t]) == b.wtm) continue;
                tos[nt++] = rr * 8 + ff;
            }
        } else {
            for (int di = 0; di < 8; di++) {
                int dr = KG[di][0], df = KG[di][1];
                bool diag = dr != 0 && df != 0;
                if (u == 'R' && diag) continue;
                if (u == 'B' && !diag) continue;
                int rr = r + dr, ff = f + df;
                while (rr >= 0 && rr <= 7 && ff >= 0 && ff <= 7) {
                    int t = b.at(rr * 8 + ff);
                    if (t >= 0 && isWhite(b.pc[t]) == b.wtm) break;
                    tos[nt++] = rr * 8 + ff;
                    if (t >= 0) break;
                    rr += dr; ff += df;
                }
            }
        }
        for (int j = 0; j < nt; j++) {
            int t = b.at(tos[j]);
            if (t >= 0 && std::toupper(b.pc[t]) == 'K') continue;     // never happens from legal positions
            Mv m{s, tos[j], t >= 0};
            Board n = apply(b, m);
            int ks = kingSq(n, b.wtm);
            if (ks < 0 || attacked(n, ks, !b.wtm)) continue;
            out.push_back(m);
        }
    }
}

// dump index of a board whose material is a sub-multiset of the class; -1 if it is not
static i64 indexOf(const ClassDump& d, const Board& b) {
    bool used[4] = {false, false, false, false};
    i64 idx = 0;
    int placed = 0;
    for (int i = 0; i < d.k; i++) {
        int dig = 64, pick = -1;
        for (int j = 0; j < b.n; j++)          // identical men: lowest square first (canonical index)
            if (!used[j] && b.pc[j] == d.man[i] && b.sq[j] < dig) { dig = b.sq[j]; pick = j; }
        if (pick >= 0) { used[pick] = true; placed++; }
        idx = idx * 65 + dig;
    }
    if (placed != b.n) return -1;
    return idx + (b.wtm ? 0 : d.n65);
}

static Val dtmOf(const ClassDump& d, const Board& b) {
    i64 idx = indexOf(d, b);
    if (idx < 0) return Val{'I', 0};
    int v = d.data[idx];
    if (v == -32768 || v == -32767 || v >= 32000) return Val{'I', 0};
    if (v == 0) return Val{'D', 0};
    if (v > 0) return Val{'W', 32000 - v - 1};
    return Val{'L', 32000 - 1 + v};
}

static std::unordered_map<unsigned long long, char> memoWdl;
static std::unordered_map<unsigned long long, char> memoIn;
static i64 budget;

struct Child { Board b; Val dtm; };

static void children(const ClassDump& d, const Board& b, std::vector<Child>& out) {
    std::vector<Mv> ms;
    legalMoves(b, ms);
    out.clear();
    for (const Mv& m : ms) {
        Child c; c.b = apply(b, m); c.dtm = dtmOf(d, c.b);
        out.push_back(c);
    }
}

// value of (p, clock) under the 50-move rule without distance: 'W' 'L' 'D' ('?' = budget exceeded)
static char wdl(const ClassDump& d, const Board& b) {
    Val v = dtmOf(d, b);
    if (v.t == 'I') return 'I';
    if (v.t == 'L' && v.k == 0) return 'L';
    if (b.hmc >= 100) return 'D';
    if (v.t == 'D') return 'D';
    if (v.k + b.hmc <= 100) return v.t;
    unsigned long long key = ((unsigned long long)d.id << 40) | ((unsigned long long)indexOf(d, b) * 128ULL + (unsigned)b.hmc);
    auto it = memoWdl.find(key);
    if (it != memoWdl.end()) return it->second;
    if (--budget < 0) return '?';
    std::vector<Child> cs;
    children(d, b, cs);
    char res;
    bool unknown = false;
    if (v.t == 'W') {
        // most promising first: captures, then the shortest mates
        std::stable_sort(cs.begin(), cs.end(), [](const Child& x, const Child& y) {
            if ((x.b.hmc == 0) != (y.b.hmc == 0)) return x.b.hmc == 0;
            return x.dtm.k < y.dtm.k; });
        res = 'D';
        for (const Child& c : cs) {
            if (c.dtm.t != 'L') continue;
            char w = wdl(d, c.b);
            if (w == 'L') { res = 'W'; break; }
            if (w == '?') unknown = true;
        }
        if (res == 'D' && unknown) return '?';
    } else {
        // the defence most likely to reach the limit first: the longest mates
        std::stable_sort(cs.begin(), cs.end(), [](const Child& x, const Child& y) {
            if ((x.b.hmc == 0) != (y.b.hmc == 0)) return y.b.hmc == 0;
            return x.dtm.k > y.dtm.k; });
        res = 'L';
        for (const Child& c : cs) {
            char w = wdl(d, c.b);
            if (w == 'D' || w == 'L') { res = 'D'; break; }
            if (w == '?') unknown = true;
        }
        if (res == 'L' && unknown) return '?';
    }
    memoWdl[key] = res;
    return res;
}

// is the side to move of b (DTM-won: mates / DTM-lost: is mated) within n plies under the rule?
// '1' yes, '0' no, '?' budget.  n + clock is constant along a line without capture, so the memo
// of one query is keyed by (position, clock) only.
static char within(const ClassDump& d, const Board& b, int n) {
    Val v = dtmOf(d, b);
    if (v.t == 'I' || v.t == 'D') return '0';
    if (v.t == 'L' && v.k == 0) return '1';
    if (n <= 0 || b.hmc >= 100) return '0';
    if (v.k > n) return '0';      // with the rule neither a win nor a loss gets shorter (the rule only
                                  // removes lines of the winning side and adds draws)
    if (v.k + b.hmc <= 100) return v.k <= n ? '1' : '0';
    unsigned long long key = ((unsigned long long)d.id << 40) | ((unsigned long long)indexOf(d, b) * 128ULL + (unsigned)b.hmc);
    auto it = memoIn.find(key);
    if (it != memoIn.end()) return it->second;
    if (--budget < 0) return '?';
    std::vector<Child> cs;
    children(d, b, cs);
    char res;
    bool unknown = false;
    if (v.t == 'W') {
        std::stable_sort(cs.begin(), cs.end(), [](const Child& x, const Child& y) {
            if ((x.b.hmc == 0) != (y.b.hmc == 0)) return x.b.hmc == 0;
            return x.dtm.k < y.dtm.k; });
        res = '0';
        for (const Child& c : cs) {
            if (c.dtm.t != 'L') continue;
            char w;
            if (c.b.hmc == 0) {          // capture: a fresh clock, its own memo domain -> direct
                w = (c.dtm.k <= n - 1 && c.dtm.k <= 100) ? '1' : '0';
            } else w = within(d, c.b, n - 1);
            if (w == '1') { res = '1'; break; }
            if (w == '?') unknown = true;
        }
        if (res == '0' && unknown) return '?';
    } else {
        std::stable_sort(cs.begin(), cs.end(), [](const Child& x, const Child& y) {
            if ((x.b.hmc == 0) != (y.b.hmc == 0)) return y.b.hmc == 0;
            return x.dtm.k > y.dtm.k; });
        res = '1';
        for (const Child& c : cs) {
            char w;
            if (c.b.hmc == 0) {
                w = (c.dtm.t == 'W' && c.dtm.k <= n - 1 && c.dtm.k <= 100) ? '1' : '0';
            } else w = within(d, c.b, n - 1);
            if (w == '0') { res = '0'; break; }
            if (w == '?') unknown = true;
        }
        if (res == '1' && unknown) return '?';
    }
    memoIn[key] = res;
    return res;
}

static std::string sqName(int s) {
    std::string r; r += (char)('a' + s % 8); r += (char)('1' + s / 8); return r;
}

static int run(const std::string& dir) {
    dumpDir = dir;
    std::string line;
    while (std::getline(std::cin, line)) {
        std::istringstream is(line);
        std::string op, cls; is >> op >> cls;
        if (op.empty()) continue;
        int nArg = 0;
        if (op == "B") is >> nArg;
        std::string rest; std::getline(is, rest);
        std::string fen = rest, wanted;
        size_t bar = rest.find('|');
        if (bar != std::string::npos) { fen = rest.substr(0, bar); wanted = rest.substr(bar + 1) + " "; }
        fen.erase(0, fen.find_first_not_of(' '));
        const ClassDump* d = getDump(cls);
        Board b; std::string err;
        if (op != "O" && op != "B" && op != "C" && op != "D" && op != "V") { std::cout << "ERR unknown request\n"; std::cout.flush(); continue; }
        if (!d) { std::cout << "ERR no dump for class " << cls << "\n"; std::cout.flush(); continue; }
        if (!parseFen(fen, b, err)) { std::cout << "ERR " << err << "\n"; std::cout.flush(); continue; }
        if (kingSq(b, true) < 0 || kingSq(b, false) < 0 || indexOf(*d, b) < 0) {
            std::cout << "ERR position is not of class " << cls << "\n"; std::cout.flush(); continue;
        }
        if (op == "V") {            // walk a line of moves (after '|'): per ply "uci legal dtm clock"
            std::ostringstream os;
            os << "V " << show(dtmOf(*d, b));
            std::istringstream ms(wanted);
            std::string u;
            Board cur = b;
            while (ms >> u) {
                std::vector<Mv> lm;
                legalMoves(cur, lm);
                bool found = false;
                for (const Mv& m : lm)
                    if (sqName(m.from) + sqName(m.to) == u) { cur = apply(cur, m); found = true; break; }
                if (!found) { os << " ; " << u << " illegal"; break; }
                std::vector<Mv> nx;
                legalMoves(cur, nx);
                os << " ; " << u << " ok " << show(dtmOf(*d, cur)) << ' ' << cur.hmc << ' ' << nx.size();
            }
            std::cout << os.str() << "\n";
            std::cout.flush();
            continue;
        }
        if (op == "D") {            // distance to mate only
            bool ill = attacked(b, kingSq(b, !b.wtm), b.wtm);
            std::cout << "D " << (ill ? std::string("I") : show(dtmOf(*d, b))) << "\n";
            std::cout.flush();
            continue;
        }
        if (op == "C") {            // number of legal moves (planning: roots without moves are not searched)
            std::vector<Mv> ms0;
            legalMoves(b, ms0);
            std::cout << "C " << ms0.size() << "\n";
            std::cout.flush();
            continue;
        }
        if (memoWdl.size() > 8000000) memoWdl.clear();
        const char* be = std::getenv("C13_ORACLE_BUDGET");
        const i64 budget0 = be ? std::atoll(be) : 150000;
        budget = budget0;
        if (op == "B") {
            memoIn.clear();
            std::cout << "B " << within(*d, b, nArg) << "\n";
            std::cout.flush();
            continue;
        }
        std::vector<Mv> ms;
        legalMoves(b, ms);
        bool ic = attacked(b, kingSq(b, b.wtm), !b.wtm);
        bool illegal = attacked(b, kingSq(b, !b.wtm), b.wtm);
        if (illegal) { std::cout << "R " << indexOf(*d, b) << " I I " << (ic ? 1 : 0) << " 0\n"; std::cout.flush(); continue; }
        std::ostringstream os;
        os << "R " << indexOf(*d, b) << ' ' << show(dtmOf(*d, b)) << ' ' << wdl(*d, b) << ' ' << (ic ? 1 : 0) << ' ' << ms.size();
        for (const Mv& m : ms) {
            Board n = apply(b, m);
            std::string u = sqName(m.from) + sqName(m.to);
            os << " ; " << u << ' ' << (m.cap ? 1 : 0) << ' ' << indexOf(*d, n) << ' ' << show(dtmOf(*d, n)) << ' ';
            if (wanted.find(u + " ") != std::string::npos || wanted.find("* ") != std::string::npos) {
                budget = budget0;
                os << wdl(*d, n);
            } else os << '-';
        }
        std::cout << os.str() << "\n";
        std::cout.flush();
    }
    return 0;
}
}  // namespace oracle

// =============================================================================================
// probe: the real tbProbe / negaScout
// =============================================================================================
namespace probe {

struct NullListener : public Search::Listener {
    void notifyDepth(int) override {}
    void notifyCurrMove(const Move&, int) override {}
    void notifyPV(int, int, S64, S64, S64, bool, bool, bool, const std::vector<Move>&, int, S64) override {}
    void notifyStats(S64, S64, int, S64, S64) override {}
};

static Position rootOf(const std::string& cls) {
    Position pos;
    bool white = true;
    int nw = 0, nb = 0;
    for (size_t i = 0; i < cls.size(); i++) {
        if (i > 0 && cls[i] == 'K') white = false;
        int p;
        switch (cls[i]) {
        case 'K': p = white ? Piece::WKING : Piece::BKING; break;
        case 'Q': p = white ? Piece::WQUEEN : Piece::BQUEEN; break;
        case 'R': p = white ? Piece::WROOK : Piece::BROOK; break;
        case 'B': p = white ? Piece::WBISHOP : Piece::BBISHOP; break;
        default:  p = white ? Piece::WKNIGHT : Piece::BKNIGHT; break;
        }
        int sq;
        if (cls[i] == 'K') sq = white ? 0 : 63;
        else if (white) sq = 1 + nw++;
        else sq = 62 - nb++;
        pos.setPiece(Square(sq), p);
    }
    pos.setWhiteMove(true);
    return pos;
}

static int run() {
    ComputerPlayer::initEngine();
    TranspositionTable tt(1 << 20);            // 16 MB
    Notifier notifier;
    ThreadCommunicator comm(nullptr, tt, notifier, false);
    KillerTable kt; History ht;
    std::shared_ptr<Evaluate::EvalHashTables> et;
    TreeLogger treeLog;
    std::string line;
    while (std::getline(std::cin, line)) {
        std::istringstream is(line);
        std::string k; is >> k;
        if (k.empty()) continue;
        try {
            if (k == "G") {
                std::string cls; is >> cls;
                Position pos = rootOf(cls);
                RelaxedShared<S64> maxT(-1);
                bool ok = tt.updateTB(pos, maxT);
                std::cout << (ok ? "ok" : "fail") << '\n';
            } else if (k == "P" || k == "Q" || k == "N" || k == "E") {
                std::string rest; std::getline(is, rest);
                size_t bar = rest.find('|');
                std::string args = bar == std::string::npos ? "" : rest.substr(0, bar);
                std::string fen = bar == std::string::npos ? rest : rest.substr(bar + 1);
                fen.erase(0, fen.find_first_not_of(' '));
                Position pos = TextIO::readFEN(fen);
                std::istringstream as(args);
                if (k == "P") {
                    int ply, a, b; as >> ply >> a >> b;
                    TranspositionTable::TTEntry ent;
                    bool r = TBProbe::tbProbe(pos, ply, a, b, tt, ent);
                    if (!r) std::cout << "none\n";
                    else std::cout << "found " << ent.getType() << ' ' << ent.getScore(ply) << ' ' << ent.getEvalScore() << '\n';
                } else if (k == "Q") {
                    int ply; as >> ply;
                    int score = 0;
                    if (tt.probeDTM(pos, ply, score)) std::cout << score << '\n';
                    else std::cout << "none\n";
                } else if (k == "E") {
                    if (!et) et = Evaluate::getEvalHashTables();
                    Evaluate eval(*et);
                    eval.connectPosition(pos);
                    std::cout << eval.evalPos() << '\n';
                } else {
                    int a, b, ply, depth; as >> a >> b >> ply >> depth;
                    {   // a table entry of an earlier request could cut the node off before the probe
                        TranspositionTable::TTEntry e0;
                        tt.probe(pos.historyHash(), e0);
                        if (e0.getType() != TType::T_EMPTY) { std::cout << "skip\n"; std::cout.flush(); continue; }
                    }
                    if (!et) et = Evaluate::getEvalHashTables();
                    Search::SearchTables st(comm.getCTT(), kt, ht, *et);
                    std::vector<U64> hist(SearchConst::MAX_SEARCH_DEPTH * 4 + 16);
                    Search s2(pos, hist, 0, st, comm, treeLog);
                    s2.initSearchTreeInfo();
                    s2.setMinProbeDepth(1);      // as iterativeDeepening does once updateTB succeeded
                    int score = s2.negaScout(true, a, b, ply, depth, Square(-1), MoveGen::inCheck(pos));
                    std::cout << score << '\n';
                }
            } else if (k == "T") {
                tt.clear();
                std::cout << "ok\n";
            } else {
                std::cout << "ERR unknown request\n";
            }
        } catch (const std::exception& e) {
            std::cout << "ERR " << e.what() << '\n';
        }
        std::cout.flush();
    }
    return 0;
}
}  // namespace probe

int main(int argc, char** argv) {
    if (argc >= 3 && std::string(argv[1]) == "oracle") return oracle::run(argv[2]);
    if (argc >= 2 && std::string(argv[1]) == "probe") return probe::run();
    std::fprintf(stderr, "usage: c13_harness oracle DUMPDIR | probe\n");
    return 3;
}
