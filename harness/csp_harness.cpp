// Correspondence harness for C20: drives the real CspSolver with operation lists read from
// stdin and prints result, node count and returned values, one line per system.
//   SYS [!]        start a system ('!' = may trip an assert: run in a forked child)
//   V p lo hi | E v | O v | m v x | M v x | L v1 v2 c | G v1 v2 c | Q v1 v2 c
//   SOLVE
#include "cspsolver.hpp"
#include <cstdio>
#include <cstdlib>
#include <iostream>
#include <sstream>
#include <string>
#include <vector>
#include <unistd.h>
#include <sys/wait.h>

static std::string runSystem(const std::vector<std::string>& ops) {
    std::ostringstream nullLog;
    CspSolver csp(nullLog, true);
    for (const std::string& line : ops) {
        std::istringstream is(line);
        std::string k; is >> k;
        long a = 0, b = 0, c = 0; is >> a >> b >> c;
        if (k == "V") csp.addVariable(static_cast<CspSolver::PrefVal>(a), (int)b, (int)c);
        else if (k == "E") csp.makeEven((int)a);
        else if (k == "O") csp.makeOdd((int)a);
        else if (k == "m") csp.addMinVal((int)a, (int)b);
        else if (k == "M") csp.addMaxVal((int)a, (int)b);
        else if (k == "L") csp.addIneq((int)a, CspSolver::LE, (int)b, (int)c);
        else if (k == "G") csp.addIneq((int)a, CspSolver::GE, (int)b, (int)c);
        else if (k == "Q") csp.addEq((int)a, (int)b, (int)c);
    }
    std::vector<int> values;
    bool ok = csp.solve(values);
    std::ostringstream os;
    os << (ok ? 1 : 0) << ' ' << csp.getNumNodes();
    for (int v : values) os << ' ' << v;
    return os.str();
}

int main() {
    std::string line;
    std::vector<std::string> ops;
    bool risky = false;
    while (std::getline(std::cin, line)) {
        if (line.compare(0, 3, "SYS") == 0) {
            ops.clear();
            risky = line.find('!') != std::string::npos;
        } else if (line == "SOLVE") {
            if (!risky) {
                std::cout << runSystem(ops) << '\n';
            } else {
                std::cout.flush();
                int fd[2];
                if (pipe(fd) != 0) return 3;
                pid_t pid = fork();
                if (pid == 0) {
                    close(fd[0]);
                    fclose(stderr);
                    std::string r = runSystem(ops);
                    (void)!write(fd[1], r.data(), r.size());
                    _exit(0);
                }
                close(fd[1]);
                std::string r; char buf[4096]; ssize_t n;
                while ((n = read(fd[0], buf, sizeof buf)) > 0) r.append(buf, n);
                close(fd[0]);
                int st = 0; waitpid(pid, &st, 0);
                if (WIFEXITED(st) && WEXITSTATUS(st) == 0) std::cout << r << '\n';
                else std::cout << "ERR\n";
            }
        } else if (!line.empty()) {
            ops.push_back(line);
        }
    }
    return 0;
}
