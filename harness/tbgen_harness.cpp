// Correspondence harness for C12 (on-demand endgame tables).
//
// Everything is answered by the REAL code: TBGenerator<VectorStorage> (own memory) or
// TranspositionTable::updateTB / TranspositionTable::probeDTM (table stored inside the hash table).
//
// A material class is a string such as "KQK" or "KRKN": white men, then (from the second 'K')
// black men.  A placement gives one digit per man in that order: its square 0..63 (a1=0 .. h8=63)
// or 64 = the man is not on the board.  The dump index of (side, placement) is
//      idx = side * 65^k + d0 * 65^(k-1) + ... + d(k-1)          side 0 = white to move, 1 = black
// i.e. the dump is indexed by PLACEMENT, never by the engine's own table index, so the engine's
// symmetry canonisation and piece sorting are inside what is observed.
// Dump entry = int16 little endian:  -32768 placement is not a chess position (two men on one
// square or a king missing: cannot be handed to probeDTM);  -32767 probeDTM returned false;
// otherwise the score returned for ply = 0.  (Decoding of scores happens in Coq: Checker.v.)
//
// Modes
//   dump  CLASS vec|tt OUTFILE SEED     generate, [tt: hash traffic], probe every placement
//   scope CLASS vec|tt SEED N           probe N positions OUTSIDE the class / with castling rights
//   rules CLASS SEED N                  N random placements: legality, check and all legal successor
//                                       placements according to the engine's ordinary MoveGen (validates
//                                       the SPECIFICATION coq/TB/MiniChess.v, not the table generator)
//   script SEED                          op sequence on one TranspositionTable, ops on stdin:
//        U CLASS DELAY       updateTB(root of CLASS); DELAY >= 0 (microseconds) or pN (N permille of
//                            the duration of the last complete generation in this process): a second
//                            thread requests "stop" (maxTimeMillis := 0) that long after the call started
//        X                   updateTB with a 5-man root (not suitable for a table)
//        C                   clear()
//        H N                 N hash inserts + probes (ordinary hash traffic)
//        P CLASS STRIDE REF  probeDTM on every STRIDE-th placement of CLASS, compared with the
//                            reference dump file REF ("-" = none)
//        VG CLASS DELAY      own-memory back end: a TBGenerator<VectorStorage> with its own storage is
//                            generated (stop injected as for U); it is kept only if it completed
//        VP CLASS STRIDE REF like P, through the kept own-memory generator of CLASS
//      every U/X/C line also reports the material of the generator installed afterwards (gen=...)
#define TEXEL_VERIF_HARNESS 1
#include <atomic>
#include <chrono>
#include <cstdio>
#include <cstdlib>
#include <cstring>
#include <iostream>
#include <sstream>
#include <string>
#include <thread>
#include <vector>

#define private public
#define protected public
#include "tbgen.hpp"
#include "transpositionTable.hpp"
#undef private
#undef protected
#include "position.hpp"
#include "piece.hpp"
#include "move.hpp"
#include "constants.hpp"
#include "textio.hpp"
#include "moveGen.hpp"
#include "undoInfo.hpp"
#include <algorithm>
#include <map>

typedef long long i64;

struct Cls {
    std::string name;
    std::vector<int> piece;     // Piece::Type per man, class order
    PieceCount pc;
    int k;
    i64 n65;                    // 65^k
};

static int pieceOf(char c, bool white) {
    switch (c) {
    case 'K': return white ? Piece::WKING : Piece::BKING;
    case 'Q': return white ? Piece::WQUEEN : Piece::BQUEEN;
    case 'R': return white ? Piece::WROOK : Piece::BROOK;
    case 'B': return white ? Piece::WBISHOP : Piece::BBISHOP;
    case 'N': return white ? Piece::WKNIGHT : Piece::BKNIGHT;
    }
    std::fprintf(stderr, "bad class letter %c\n", c);
    std::exit(3);
}

static Cls parseClass(const std::string& s) {
    Cls c; c.name = s;
    std::memset(&c.pc, 0, sizeof c.pc);
    if (s.empty() || s[0] != 'K') { std::fprintf(stderr, "bad class %s\n", s.c_str()); std::exit(3); }
    bool white = true;
    for (size_t i = 0; i < s.size(); i++) {
        if (i > 0 && s[i] == 'K') {
            if (!white) { std::fprintf(stderr, "bad class %s\n", s.c_str()); std::exit(3); }
            white = false;
        }
        c.piece.push_back(pieceOf(s[i], white));
        switch (s[i]) {
        case 'Q': (white ? c.pc.nwq : c.pc.nbq)++; break;
        case 'R': (white ? c.pc.nwr : c.pc.nbr)++; break;
        case 'B': (white ? c.pc.nwb : c.pc.nbb)++; break;
        case 'N': (white ? c.pc.nwn : c.pc.nbn)++; break;
        }
    }
    if (white) { std::fprintf(stderr, "bad class %s (no black king)\n", s.c_str()); std::exit(3); }
    c.k = (int)c.piece.size();
    c.n65 = 1;
    for (int i = 0; i < c.k; i++) c.n65 *= 65;
    return c;
}

// Places the men of a placement on a Position object (reused between calls).
struct Placer {
    Position pos;
    std::vector<int> onBoard;   // squares currently holding a man
    // returns false if the placement is not a chess position
    bool place(const Cls& c, const int* d, bool wtm) {
        for (int sq : onBoard) pos.setPiece(Square(sq), Piece::EMPTY);
        onBoard.clear();
        U64 occ = 0;
        for (int i = 0; i < c.k; i++) {
            if (d[i] == 64) {
                if (c.piece[i] == Piece::WKING || c.piece[i] == Piece::BKING) return false;
                continue;
            }
            if (occ & (1ULL << d[i])) return false;
            occ |= 1ULL << d[i];
        }
        for (int i = 0; i < c.k; i++) {
            if (d[i] == 64) continue;
            pos.setPiece(Square(d[i]), c.piece[i]);
            onBoard.push_back(d[i]);
        }
        pos.setWhiteMove(wtm);
        return true;
    }
};

static void digitsOf(const Cls& c, i64 r, int* d) {
    for (int i = c.k - 1; i >= 0; i--) { d[i] = (int)(r % 65); r /= 65; }
}

struct Rng {
    U64 s;
    explicit Rng(U64 seed) : s(seed * 0x9E3779B97F4A7C15ULL + 0x1234567ULL) {}
    U64 next() { s ^= s << 13; s ^= s >> 7; s ^= s << 17; return s * 0x2545F4914F6CDD1DULL; }
    int below(int n) { return (int)(next() % (U64)n); }
};

static double nowMs() {
    using namespace std::chrono;
    return duration<double, std::milli>(steady_clock::now().time_since_epoch()).count();
}

// a legal root position of the class: Ka1 + white men b1,c1 ; Kh8 + black men g8,f8 ; white to move
static void rootDigits(const Cls& c, int* d) {
    int nw = 0, nb = 0;
    bool white = true;
    for (int i = 0; i < c.k; i++) {
        if (c.piece[i] == Piece::WKING) d[i] = 0;
        else if (c.piece[i] == Piece::BKING) { d[i] = 63; white = false; }
        else if (white) d[i] = 1 + nw++;
        else d[i] = 62 - nb++;
    }
}

static void hashTraffic(TranspositionTable& tt, Rng& rng, i64 n) {
    for (i64 i = 0; i < n; i++) {
        U64 key = rng.next();
        Move m(Square(rng.below(64)), Square(rng.below(64)), Piece::EMPTY);
        m.setScore((int)(rng.next() % 64001) - 32000);
        tt.insert(key, m, 1 + rng.below(3), rng.below(40), rng.below(60), (int)(rng.next() % 20001) - 10000);
        TranspositionTable::TTEntry ent;
        tt.probe(rng.next(), ent);
    }
}

struct Prober {
    TBGenerator<VectorStorage>* vec;
    TranspositionTable* tt;
    bool probe(const Position& pos, int ply, int& score) const {
        return vec ? vec->probeDTM(pos, ply, score) : tt->probeDTM(pos, ply, score);
    }
};

static const i64 TT_ENTRIES = 1 << 20;     // 16 MB: room for the 5 MB table region + 2 MB

static int modeDump(int argc, char** argv) {
    if (argc < 6) return 3;
    Cls c = parseClass(argv[2]);
    std::string backend = argv[3];
    const char* outFile = argv[4];
    Rng rng((U64)std::atoll(argv[5]));

    VectorStorage vs;
    std::unique_ptr<TBGenerator<VectorStorage>> vgen;
    std::unique_ptr<TranspositionTable> tt;
    Prober pr; pr.vec = nullptr; pr.tt = nullptr;
    Placer pl;
    int d[8];
    double t0 = nowMs();
    bool ok;
    if (backend == "vec") {
        vgen.reset(new TBGenerator<VectorStorage>(vs, c.pc));
        RelaxedShared<S64> maxT(-1);
        ok = vgen->generate(maxT, false);
        pr.vec = vgen.get();
    } else {
        tt.reset(new TranspositionTable(TT_ENTRIES));
        hashTraffic(*tt, rng, 3000000);          // the future table region holds hash entries
        rootDigits(c, d);
        pl.place(c, d, true);
        RelaxedShared<S64> maxT(-1);
        ok = tt->updateTB(pl.pos, maxT);
        hashTraffic(*tt, rng, 3000000);          // ordinary hash traffic after installation
        pr.tt = tt.get();
    }
    double t1 = nowMs();
    std::printf("GEN ok=%d ms=%.0f\n", ok ? 1 : 0, t1 - t0);
    if (!ok) return 4;

    std::vector<int16_t> out((size_t)(2 * c.n65));
    i64 nRep = 0, nFound = 0;
    U64 sampleEvery = 997;
    for (int side = 0; side < 2; side++) {
        for (i64 r = 0; r < c.n65; r++) {
            digitsOf(c, r, d);
            i64 idx = side * c.n65 + r;
            if (!pl.place(c, d, side == 0)) { out[idx] = -32768; continue; }
            nRep++;
            int score = 12345;
            bool found = pr.probe(pl.pos, 0, score);
            if (!found) { out[idx] = -32767; }
            else { out[idx] = (int16_t)score; nFound++; }
            if (rng.next() % sampleEvery == 0) {     // same position at another ply
                int ply = 1 + rng.below(300);
                int s2 = 12345;
                bool f2 = pr.probe(pl.pos, ply, s2);
                std::printf("PLY %lld %d %d %d\n", idx, ply, f2 ? 1 : 0, f2 ? s2 : 0);
            }
        }
    }
    double t2 = nowMs();
    FILE* f = std::fopen(outFile, "wb");
    if (!f) return 5;
    std::fwrite(out.data(), 2, out.size(), f);
    std::fclose(f);
    std::printf("DONE entries=%lld representable=%lld found=%lld probe_ms=%.0f\n",
                2 * c.n65, nRep, nFound, t2 - t1);
    return 0;
}

// positions the table must NOT answer: other material, castling rights
static int modeScope(int argc, char** argv) {
    if (argc < 6) return 3;
    Cls c = parseClass(argv[2]);
    std::string backend = argv[3];
    Rng rng((U64)std::atoll(argv[4]));
    int n = std::atoi(argv[5]);
    VectorStorage vs;
    std::unique_ptr<TBGenerator<VectorStorage>> vgen;
    std::unique_ptr<TranspositionTable> tt;
    Prober pr; pr.vec = nullptr; pr.tt = nullptr;
    Placer pl;
    int d[8];
    RelaxedShared<S64> maxT(-1);
    if (backend == "vec") {
        vgen.reset(new TBGenerator<VectorStorage>(vs, c.pc));
        if (!vgen->generate(maxT, false)) return 4;
        pr.vec = vgen.get();
    } else {
        tt.reset(new TranspositionTable(TT_ENTRIES));
        rootDigits(c, d); pl.place(c, d, true);
        if (!tt->updateTB(pl.pos, maxT)) return 4;
        pr.tt = tt.get();
    }
    const int extras[] = { Piece::WQUEEN, Piece::WROOK, Piece::WBISHOP, Piece::WKNIGHT, Piece::WPAWN,
                           Piece::BQUEEN, Piece::BROOK, Piece::BBISHOP, Piece::BKNIGHT, Piece::BPAWN };
    int done = 0, bad = 0;
    int kinds[4] = {0, 0, 0, 0};
    while (done < n) {
        for (int i = 0; i < c.k; i++) d[i] = rng.below(64);
        if (!pl.place(c, d, rng.below(2) == 0)) continue;
        Position pos(pl.pos);
        int kind = rng.below(4);
        std::string what;
        if (kind == 0) {                       // one more man
            int sq = rng.below(64);
            if (pos.getPiece(Square(sq)) != Piece::EMPTY) continue;
            int p = extras[rng.below(10)];
            if ((p == Piece::WPAWN || p == Piece::BPAWN) && (sq < 8 || sq >= 56)) continue;
            pos.setPiece(Square(sq), p);
            what = "extra";
        } else if (kind == 1) {                // one man exchanged for a man the class does not have
            if (c.k < 3) continue;
            int i = rng.below(c.k);
            if (c.piece[i] == Piece::WKING || c.piece[i] == Piece::BKING) continue;
            int p = extras[rng.below(10)];
            if ((p == Piece::WPAWN || p == Piece::BPAWN) && (d[i] < 8 || d[i] >= 56)) continue;
            if (p == c.piece[i]) continue;     // any other man leaves every sub-material of the class
            pos.setPiece(Square(d[i]), p);
            what = "swapped";
        } else if (kind == 2) {                // castling right flagged
            pos.setCastleMask(1 << rng.below(4));
            what = "castle";
        } else {                               // colours exchanged (a different class unless symmetric)
            bool symmetric = (c.pc.nwq == c.pc.nbq && c.pc.nwr == c.pc.nbr && c.pc.nwb == c.pc.nbb && c.pc.nwn == c.pc.nbn);
            if (symmetric) continue;
            Position q;
            for (int i = 0; i < c.k; i++) {
                int p = c.piece[i];
                int p2 = Piece::isWhite(p) ? Piece::makeBlack(p) : Piece::makeWhite(p);
                q.setPiece(Square(d[i]), p2);
            }
            q.setWhiteMove(pos.isWhiteMove());
            pos = q;
            what = "recoloured";
        }
        int score = 0;
        bool found = pr.probe(pos, 0, score);
        kinds[kind]++;
        done++;
        if (found) {
            bad++;
            std::printf("SCOPEBAD %s %s score=%d\n", what.c_str(), TextIO::toFEN(pos).c_str(), score);
        }
    }
    std::printf("SCOPE n=%d bad=%d extra=%d swapped=%d castle=%d recoloured=%d\n", done, bad,
                kinds[0], kinds[1], kinds[2], kinds[3]);
    return 0;
}

// the chess rules of the checker's specification (coq/TB/MiniChess.v) against the engine's
// ordinary move generator: legality of the placement, check, every legal successor position
static int modeRules(int argc, char** argv) {
    if (argc < 5) return 3;
    Cls c = parseClass(argv[2]);
    Rng rng((U64)std::atoll(argv[3]));
    int n = std::atoi(argv[4]);
    Placer pl;
    int d[8];
    for (int it = 0; it < n; ) {
        for (int i = 0; i < c.k; i++) {
            bool king = c.piece[i] == Piece::WKING || c.piece[i] == Piece::BKING;
            d[i] = (!king && rng.below(12) == 0) ? 64 : rng.below(64);
        }
        bool wtm = rng.below(2) == 0;
        if (!pl.place(c, d, wtm)) continue;
        it++;
        i64 idx = 0;
        for (int i = 0; i < c.k; i++) idx = idx * 65 + d[i];
        if (!wtm) idx += c.n65;
        Position pos(pl.pos);
        if (MoveGen::canTakeKing(pos)) { std::printf("RULES %lld illegal\n", idx); continue; }
        MoveList ml;
        MoveGen::pseudoLegalMoves(pos, ml);
        MoveGen::removeIllegal(pos, ml);
        // successor placements, as sorted dump indices
        std::vector<i64> succ;
        for (int m = 0; m < ml.size; m++) {
            UndoInfo ui;
            const Move& mv = ml[m];
            int e[8];
            for (int i = 0; i < c.k; i++) e[i] = d[i];
            int from = mv.from().asInt(), to = mv.to().asInt();
            for (int i = 0; i < c.k; i++) if (e[i] == to) e[i] = 64;       // captured
            for (int i = 0; i < c.k; i++) if (d[i] == from) e[i] = to;
            i64 s = 0;
            for (int i = 0; i < c.k; i++) s = s * 65 + e[i];
            if (wtm) s += c.n65;                                          // other side to move
            succ.push_back(s);
            (void)ui;
        }
        std::sort(succ.begin(), succ.end());
        std::printf("RULES %lld %d", idx, MoveGen::inCheck(pos) ? 1 : 0);
        for (i64 s : succ) std::printf(" %lld", s);
        std::printf("\n");
    }
    return 0;
}

static std::vector<int16_t> loadDump(const std::string& path, i64 expect) {
    std::vector<int16_t> v;
    FILE* f = std::fopen(path.c_str(), "rb");
    if (!f) { std::fprintf(stderr, "cannot open %s\n", path.c_str()); std::exit(5); }
    v.resize((size_t)expect);
    size_t got = std::fread(v.data(), 2, v.size(), f);
    std::fclose(f);
    if ((i64)got != expect) { std::fprintf(stderr, "short dump %s\n", path.c_str()); std::exit(5); }
    return v;
}

// material of the installed generator: "q.r.b.n.Q.R.B.N" (white, then black counts) or "-"
static std::string genSig(const TranspositionTable& tt) {
    if (!tt.tbGen) return "-";
    const PieceCount& pc = tt.tbGen->pieceCount;
    char buf[64];
    std::snprintf(buf, sizeof buf, "%d.%d.%d.%d.%d.%d.%d.%d", pc.nwq, pc.nwr, pc.nwb, pc.nwn, pc.nbq, pc.nbr, pc.nbb, pc.nbn);
    return buf;
}

struct VecGen {
    VectorStorage storage;
    std::unique_ptr<TBGenerator<VectorStorage>> gen;
};

static int modeScript(int argc, char** argv) {
    if (argc < 3) return 3;
    Rng rng((U64)std::atoll(argv[2]));
    TranspositionTable tt(TT_ENTRIES);
    hashTraffic(tt, rng, 1000000);
    Placer pl;
    int d[8];
    double lastFullMs = 1000.0, lastVecMs = 1000.0;
    std::map<std::string, std::unique_ptr<VecGen>> vecGens;
    std::string line;
    while (std::getline(std::cin, line)) {
        std::istringstream is(line);
        std::string op; is >> op;
        if (op == "U") {
            std::string cn, ds; is >> cn >> ds;
            i64 delayUs;
            if (!ds.empty() && ds[0] == 'p')        // permille of the last complete generation's time
                delayUs = (i64)(std::atof(ds.c_str() + 1) * lastFullMs);   // ms * permille = us
            else
                delayUs = std::atoll(ds.c_str());
            Cls c = parseClass(cn);
            rootDigits(c, d);
            pl.place(c, d, true);
            int s0 = 0;
            bool pre = tt.probeDTM(pl.pos, 0, s0);
            RelaxedShared<S64> maxT(-1);            // infinite search ...
            std::atomic<bool> go(false), done(false);
            std::thread stopper;
            if (delayUs >= 0) {
                stopper = std::thread([&]() {       // ... until the user says "stop"
                    while (!go.load()) { }
                    double t0 = nowMs();
                    while (!done.load() && (nowMs() - t0) * 1000.0 < (double)delayUs) { }
                    maxT = 0;
                });
            }
            double t0 = nowMs();
            go.store(true);
            bool ret = tt.updateTB(pl.pos, maxT);
            double t1 = nowMs();
            done.store(true);
            if (stopper.joinable()) stopper.join();
            if (ret && !pre) lastFullMs = t1 - t0;
            std::printf("U pre=%d ret=%d installed=%d gen=%s ms=%.1f stop_us=%lld\n", pre ? 1 : 0, ret ? 1 : 0,
                        tt.tbGen ? 1 : 0, genSig(tt).c_str(), t1 - t0, delayUs);
        } else if (op == "X") {
            Position pos;
            pos.setPiece(Square(0), Piece::WKING); pos.setPiece(Square(63), Piece::BKING);
            pos.setPiece(Square(1), Piece::WROOK); pos.setPiece(Square(2), Piece::WROOK);
            pos.setPiece(Square(62), Piece::BROOK);
            RelaxedShared<S64> maxT(-1);
            bool ret = tt.updateTB(pos, maxT);
            std::printf("X ret=%d installed=%d gen=%s\n", ret ? 1 : 0, tt.tbGen ? 1 : 0, genSig(tt).c_str());
        } else if (op == "C") {
            tt.clear();
            std::printf("C installed=%d gen=%s\n", tt.tbGen ? 1 : 0, genSig(tt).c_str());
        } else if (op == "H") {
            i64 n; is >> n;
            hashTraffic(tt, rng, n);
            std::printf("H\n");
        } else if (op == "P" || op == "VP") {
            std::string cn, ref; i64 stride; is >> cn >> stride >> ref;
            Cls c = parseClass(cn);
            Prober pr; pr.vec = nullptr; pr.tt = nullptr;
            if (op == "P") pr.tt = &tt;
            else {
                auto it = vecGens.find(cn);
                if (it == vecGens.end()) { std::printf("VP any=0 probed=0 found=0 wrong=0 first=-1:0:0 missing=1\n"); std::fflush(stdout); continue; }
                pr.vec = it->second->gen.get();
            }
            std::vector<int16_t> refDump;
            if (ref != "-") refDump = loadDump(ref, 2 * c.n65);
            i64 nProbed = 0, nFound = 0, nWrong = 0, firstWrong = -1;
            int fwScore = 0, fwRef = 0;
            i64 start = (i64)(rng.next() % (U64)stride);
            for (i64 idx = start; idx < 2 * c.n65; idx += stride) {
                digitsOf(c, idx % c.n65, d);
                if (!pl.place(c, d, idx < c.n65)) continue;
                nProbed++;
                int score = 0;
                bool found = pr.probe(pl.pos, 0, score);
                if (!found) continue;
                nFound++;
                if (!refDump.empty()) {
                    int r = refDump[idx];
                    if (r != score) {       // found although illegal, or a different value
                        nWrong++;
                        if (firstWrong < 0) { firstWrong = idx; fwScore = score; fwRef = r; }
                    }
                }
            }
            std::printf("%s any=%d probed=%lld found=%lld wrong=%lld first=%lld:%d:%d\n", op.c_str(), nFound > 0 ? 1 : 0,
                        nProbed, nFound, nWrong, firstWrong, fwScore, fwRef);
        } else if (op == "VG") {
            // own-memory back end: a generator with its own VectorStorage; kept only if complete
            std::string cn, ds; is >> cn >> ds;
            Cls c = parseClass(cn);
            i64 delayUs = (!ds.empty() && ds[0] == 'p') ? (i64)(std::atof(ds.c_str() + 1) * lastVecMs) : std::atoll(ds.c_str());
            std::unique_ptr<VecGen> vg(new VecGen);
            vg->gen.reset(new TBGenerator<VectorStorage>(vg->storage, c.pc));
            RelaxedShared<S64> maxT(-1);
            std::atomic<bool> go(false), done(false);
            std::thread stopper;
            if (delayUs >= 0) {
                stopper = std::thread([&]() {
                    while (!go.load()) { }
                    double t0 = nowMs();
                    while (!done.load() && (nowMs() - t0) * 1000.0 < (double)delayUs) { }
                    maxT = 0;
                });
            }
            double t0 = nowMs();
            go.store(true);
            bool ret = vg->gen->generate(maxT, false);
            double t1 = nowMs();
            done.store(true);
            if (stopper.joinable()) stopper.join();
            if (ret) { lastVecMs = t1 - t0; vecGens[cn] = std::move(vg); }
            std::printf("VG ret=%d ms=%.1f stop_us=%lld\n", ret ? 1 : 0, t1 - t0, delayUs);
        } else if (!op.empty()) {
            std::fprintf(stderr, "bad op %s\n", op.c_str());
            return 3;
        }
        std::fflush(stdout);
    }
    return 0;
}

int main(int argc, char** argv) {
    if (argc < 2) return 3;
    std::string mode = argv[1];
    if (mode == "dump") return modeDump(argc, argv);
    if (mode == "scope") return modeScope(argc, argv);
    if (mode == "script") return modeScript(argc, argv);
    if (mode == "rules") return modeRules(argc, argv);
    return 3;
}
