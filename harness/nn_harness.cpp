// Correspondence / finder harness for C07 (first-layer accumulator stack, evalPos symmetry,
// evaluation cache).  Drives the REAL Position + Evaluate + NNEvaluator built from the current
// tree with a synthetic net embedded through gNNDataData.
//
//   nn_harness dumpw <file>       weight1 and bias1 of the embedded net as little-endian int16
//   nn_harness hist [derived]     scripts on stdin (see below) -> op stream + real state lines
//   nn_harness cache              evaluation-cache scripts on stdin
//   nn_harness kern <seed> <n> [f] unit-level comparison of scaleClipPack / addSubWeights / matMul
//   nn_harness mknet sweep <seed> <out>   synthetic net sweeping every clamp / wrap boundary
//   --net <file>                  (hist, cache, dumpw) use this net file instead of the embedded one
//
// hist script (all random choices are made by the caller; numbers are reduced modulo here):
//   H <contempt> <fen>   new history: fresh EvalHashTables/Evaluate connected to a new Position
//   M r                  make legal move number r mod n          U  take back the last frame
//   N                    null-move edit exactly as search.cpp     E  nn->eval(), compared with a
//   X sq piece           Position::setPiece edit (own frame)         freshly constructed evaluator
//   A                    snapshot the position                    B  assign the snapshot back
//   Y                    assign through a temporary copy          Z  serialize + deSerialize
//   R                    disconnect + reconnect the evaluator     L  MoveGen::removeIllegal on the
//   Q                    Evaluate::evalPos + symmetry/fresh queries  connected position (hook mode)
// Output: "OP ..." lines = the accumulator op stream (input of the extracted model), each state
// dump request "OP D <wtm>" is followed by the real state "R ...".  With the H4 hook compiled in
// (C07_HAVE_H4) the op stream is what nneval.cpp reports; otherwise (or with `derived`) it is
// derived from the harness' own knowledge of what Position::makeMove etc. notify.
#include <algorithm>
#include <cstdint>
#include <cstdio>
#include <cstdlib>
#include <cstring>
#include <fstream>
#include <iostream>
#include <memory>
#include <sstream>
#include <string>
#include <vector>
#include <array>
#include <atomic>
#include <bitset>
#include <cassert>
#include <chrono>
#include <climits>
#include <cmath>
#include <condition_variable>
#include <deque>
#include <functional>
#include <future>
#include <iomanip>
#include <iterator>
#include <limits>
#include <list>
#include <map>
#include <mutex>
#include <numeric>
#include <queue>
#include <random>
#include <set>
#include <stdexcept>
#include <thread>
#include <tuple>
#include <type_traits>
#include <unordered_map>
#include <unordered_set>
#include <utility>
#define private public
#define protected public
#include "position.hpp"
#include "evaluate.hpp"
#include "nneval.hpp"
#include "nntypes.hpp"
#include "moveGen.hpp"
#include "textio.hpp"
#include "posutil.hpp"
#include "parameters.hpp"
#include "computerPlayer.hpp"
#include "search.hpp"
#include "history.hpp"
#include "killerTable.hpp"
#include "parallel.hpp"
#include "treeLogger.hpp"
#include "transpositionTable.hpp"
#include "vectorop.hpp"
#include "random.hpp"
extern "C" {
#include "Lzma86Enc.h"
#include "Lzma86Dec.h"
}
#undef private
#undef protected

static bool derivedMode = true;
static std::ostringstream mainOut;      // op stream + state lines of the scripted history
static std::ostringstream searchOut;    // ... of real searches (G), emitted as histories of their own
static std::ostringstream* outP = &mainOut;
#define out (*outP)

static void flushOut() { std::cout << mainOut.str(); mainOut.str(""); mainOut.clear(); }
static void flushSearchOut() { std::cout << searchOut.str(); searchOut.str(""); searchOut.clear(); }

// ---------------------------------------------------------------------------------------------
static uint64_t hashLanes(const S16* v, int n) {
    uint64_t h = 7;
    for (int i = 0; i < n; i++)
        h = (h * 1000003ULL + (uint64_t)(uint16_t)v[i]) & ((1ULL << 40) - 1);
    return h;
}
static uint64_t hashBytes(const S8* v, int n) {
    uint64_t h = 7;
    for (int i = 0; i < n; i++)
        h = (h * 1000003ULL + (uint64_t)(uint8_t)v[i]) & ((1ULL << 40) - 1);
    return h;
}

static void boardStr(const Position* p, std::ostream& os) {
    for (int sq = 0; sq < 64; sq++)
        os << ' ' << (p ? p->getPiece(Square(sq)) : 0);
}

static void posInputs(const Position& p, std::ostream& os) {
    os << ' ' << p.getKingSq(true).asInt() << ' ' << p.getKingSq(false).asInt();
    std::vector<int> v;
    U64 squares = p.occupiedBB() & ~p.pieceTypeBB(Piece::WKING, Piece::BKING);
    while (squares) {
        Square sq = BitBoard::extractSquare(squares);
        v.push_back(p.getPiece(sq)); v.push_back(sq.asInt());
    }
    os << ' ' << v.size() / 2;
    for (int x : v) os << ' ' << x;
}

/** observable state of the top level of the real evaluator */
static void realState(const NNEvaluator& nn, bool withClipped, std::ostream& os) {
    os << "R " << nn.stack.stackTop;
    for (int c = 0; c < 2; c++) {
        const NNEvaluator::FirstLayerState& s = nn.stack.flState[nn.stack.stackTop][c];
        os << " | " << s.kingSqComputed.asInt() << " [";
        for (int i = 0; i < s.toAddLen; i++) os << (i ? "," : "") << s.toAdd[i];
        os << "] [";
        for (int i = 0; i < s.toSubLen; i++) os << (i ? "," : "") << s.toSub[i];
        os << "] ";
        if (s.kingSqComputed.isValid()) os << hashLanes(&s.l1Out.data[0], NetData::n1); else os << "-";
    }
    os << " | ";
    if (withClipped) os << hashBytes(&nn.l1OutClipped.data[0], 2 * NetData::n1); else os << "-";
}

/** saturation classes of what the last eval() fed through the clamps: first-layer accumulators
 *  (value >> l1Shift: <0, 0..127, 128..255, >255) and the layer-2/3 pre-activations (>>6: <0,
 *  0..127, >127) of the head that was used */
#pragma push_macro("out")
#undef out
static void classLine(const NNEvaluator& nn, const Position& pos, std::ostream& os) {
    long a[4] = {0, 0, 0, 0}, l2[3] = {0, 0, 0}, l3[3] = {0, 0, 0};
    for (int c = 0; c < 2; c++) {
        const NNEvaluator::FirstLayerState& s = nn.stack.flState[nn.stack.stackTop][c];
        for (int i = 0; i < NetData::n1; i++) {
            int v = s.l1Out(i) >> NetData::l1Shift;
            a[v < 0 ? 0 : v <= 127 ? 1 : v <= 255 ? 2 : 3]++;
        }
    }
    int hi = NetData::getHeadNo(pos.nPieces());
    for (int i = 0; i < NetData::n2; i++) { int v = nn.out[hi].layer2.linOutput(i) >> 6; l2[v < 0 ? 0 : v <= 127 ? 1 : 2]++; }
    for (int i = 0; i < NetData::n3; i++) { int v = nn.out[hi].layer3.linOutput(i) >> 6; l3[v < 0 ? 0 : v <= 127 ? 1 : 2]++; }
    os << "T C " << a[0] << ' ' << a[1] << ' ' << a[2] << ' ' << a[3] << ' ' << l2[0] << ' ' << l2[1] << ' ' << l2[2]
       << ' ' << l3[0] << ' ' << l3[1] << ' ' << l3[2] << '\n';
}
#pragma pop_macro("out")

// ---------------------------------------------------------------------------------------------
struct Frame { int kind; Move m; UndoInfo ui; int ep; int hmc; int sq, oldP, newP; };

struct Hist {
    std::unique_ptr<Evaluate::EvalHashTables> et;
    std::unique_ptr<Evaluate> ev;
    std::unique_ptr<Position> pos;
    std::vector<Frame> frames;
    std::unique_ptr<Position> snap; size_t snapDepth = 0; bool haveSnap = false;
    int contempt = 0;
    NNEvaluator* nn() { return et->nnEval.get(); }
};
static Hist* H = nullptr;

// ---- H4 hook --------------------------------------------------------------------------------
static void legalMoves(const Position& pos, MoveList& ml) {
    Position tmp(pos);                        // not connected: no notifications
    MoveGen::pseudoLegalMoves(tmp, ml);
    MoveGen::removeIllegal(tmp, ml);
}

static int hookDepth = 0;
static const NNEvaluator* tracked = nullptr;
static bool lastWasEval = false;

static void dumpLine(bool clipped) {
    out << "OP D " << (H->pos->isWhiteMove() ? 1 : 0) << (clipped ? " 1" : " 0") << '\n';
    realState(*H->nn(), clipped, out);
    out << '\n';
}

#ifdef C07_HAVE_H4
static bool searchMode = false;
static long searchEvals = 0, searchDiffs = 0;
static std::shared_ptr<NNEvaluator> searchFresh;
static std::unique_ptr<Position> searchFreshPos;

/** every evaluation the real search performs: accumulators against a from-scratch computation */
static void compareWithFresh(const NNEvaluator* nn) {
    const Position* p = nn->posP;
    if (!p) return;
    if (!searchFresh) {
        searchFreshPos.reset(new Position(*p));
        searchFresh = NNEvaluator::create(nn->netData);
        searchFresh->connectPosition(searchFreshPos.get());
    }
    *searchFreshPos = *p;                       // operator= -> forceFullEval of the fresh evaluator
    searchFresh->computeL1WB();
    searchEvals++;
    bool same = true;
    for (int c = 0; c < 2; c++)
        same = same && memcmp(&nn->stack.flState[nn->stack.stackTop][c].l1Out,
                              &searchFresh->stack.flState[searchFresh->stack.stackTop][c].l1Out, sizeof(S16) * NetData::n1) == 0;
    if (!same) {
        searchDiffs++;
        out << "T E 0 0 FRESHDIFF " << TextIO::toFEN(*p) << '\n';
    }
}

static void hookFn(const NNEvaluator* nn, int op, int phase, int a, int b, int c) {
    if (nn != tracked || derivedMode) return;
    if (phase == 0) {
        if (hookDepth++ > 0) return;               // nested call (computeL1WB inside pushState, ...)
        const Position* p = nn->posP;
        switch (op) {
        case 0: out << "OP P"; posInputs(*p, out); out << '\n'; break;
        case 2: out << "OP S " << a << ' ' << b << ' ' << c << '\n'; break;
        case 4: out << "OP C"; posInputs(*p, out); out << '\n'; break;
        default: break;                            // pop / force: board is read at exit
        }
    } else {
        if (--hookDepth > 0) return;
        const Position* p = nn->posP;
        if (op == 1) { out << "OP O"; boardStr(p, out); out << '\n'; }
        if (op == 3) { out << "OP F 1"; boardStr(p, out); out << '\n'; }
        out << "OP D " << ((p && p->isWhiteMove()) ? 1 : 0) << " 0\n";
        realState(*nn, false, out);
        out << '\n';
        if (searchMode && op == 4) compareWithFresh(nn);
    }
}

struct SearchBox {
    TranspositionTable tt;
    Notifier notifier;
    ThreadCommunicator comm;
    KillerTable kt;
    History ht;
    std::unique_ptr<Evaluate::EvalHashTables> et;
    TreeLogger treeLog;
    SearchBox() : tt(256 * 1024), comm(nullptr, tt, notifier, false), et(Evaluate::getEvalHashTables()) {}
};

/** a real search (iterativeDeepening, one thread) from position p; its evaluator's op stream is
 *  recorded as a history of its own */
static void runSearch(const Position& p, int depth, int maxNodes, int contempt) {
    static std::unique_ptr<SearchBox> sb;
    sb.reset(new SearchBox);
    MoveList moves; legalMoves(p, moves);
    const NNEvaluator* prevTracked = tracked;
    int prevDepth = hookDepth;
    outP = &searchOut;
    out << "OP N"; boardStr(&p, out); out << '\n';
    out << "T G " << depth << ' ' << maxNodes << ' ' << TextIO::toFEN(p) << '\n';
    tracked = sb->et->nnEval.get(); hookDepth = 0; searchMode = true; searchEvals = searchDiffs = 0;
    S64 nodes = 0;
    {
        std::vector<U64> list(SearchConst::MAX_SEARCH_DEPTH * 2 + 8);
        Search::SearchTables st(sb->comm.getCTT(), sb->kt, sb->ht, *sb->et);
        Search sc(p, list, 0, st, sb->comm, sb->treeLog);
        sc.setWhiteContempt(contempt);
        sc.timeLimit(-1, -1);
        sc.iterativeDeepening(moves, depth, maxNodes);
        nodes = sc.getTotalNodes();
    }                                            // ~Search -> ~Position -> disconnect (forceFullEval)
    out << "T S " << nodes << ' ' << searchEvals << ' ' << searchDiffs << '\n';
    searchMode = false; tracked = prevTracked; hookDepth = prevDepth;
    outP = &mainOut;
}
#endif

// ---- derived op stream ----------------------------------------------------------------------
static void dPush() { if (derivedMode) { out << "OP P"; posInputs(*H->pos, out); out << '\n'; } }
static void dSet(int sq, int o, int n) { if (derivedMode) out << "OP S " << sq << ' ' << o << ' ' << n << '\n'; }
static void dPop() { if (derivedMode) { out << "OP O"; boardStr(H->pos.get(), out); out << '\n'; } }
static void dForce() { if (derivedMode) { out << "OP F 1"; boardStr(H->pos.get(), out); out << '\n'; } }
static void dCompute() { if (derivedMode) { out << "OP C"; posInputs(*H->pos, out); out << '\n'; } }
static void dDump(bool clipped = false) { if (derivedMode) dumpLine(clipped); }

/** what Position::makeMove notifies, in its order (position.cpp) */
static void derivedMakeMove(const Position& pos, const Move& m) {
    if (!derivedMode) return;
    dPush();
    int p = pos.getPiece(m.from());
    int capP = pos.getPiece(m.to());
    int from = m.from().asInt(), to = m.to().asInt();
    if (capP != Piece::EMPTY || p == Piece::WPAWN || p == Piece::BPAWN) {
        if (p == Piece::WPAWN && m.to() == pos.getEpSquare() && to != from + 16)
            dSet(to - 8, pos.getPiece(Square(to - 8)), Piece::EMPTY);
        else if (p == Piece::BPAWN && m.to() == pos.getEpSquare() && to != from - 16)
            dSet(to + 8, pos.getPiece(Square(to + 8)), Piece::EMPTY);
        dSet(from, p, Piece::EMPTY);
        dSet(to, capP, m.promoteTo() != Piece::EMPTY ? m.promoteTo() : p);
    } else {
        if (p == Piece::WKING || p == Piece::BKING) {
            if (to == from + 2) { int r = pos.getPiece(Square(from + 3)); dSet(from + 3, r, Piece::EMPTY); dSet(from + 1, Piece::EMPTY, r); }
            else if (to == from - 2) { int r = pos.getPiece(Square(from - 4)); dSet(from - 4, r, Piece::EMPTY); dSet(from - 1, Piece::EMPTY, r); }
        }
        dSet(from, p, Piece::EMPTY);
        dSet(to, Piece::EMPTY, p);
    }
}

// ---------------------------------------------------------------------------------------------
static std::shared_ptr<NNEvaluator> freshNN(const NetData& net, const Position& p, std::unique_ptr<Position>& holder) {
    holder.reset(new Position(p));
    std::shared_ptr<NNEvaluator> nn = NNEvaluator::create(net);
    nn->connectPosition(holder.get());
    return nn;
}

static int freshEvalPos(const Position& p, int contempt) {
    std::unique_ptr<Evaluate::EvalHashTables> et2 = Evaluate::getEvalHashTables();
    Evaluate ev2(*et2);
    Position p2(p);
    ev2.connectPosition(p2);
    ev2.setWhiteContempt(contempt);
    int v = ev2.evalPos();
    et2->nnEval->connectPosition(nullptr);
    return v;
}

static void newHistory(int contempt, const std::string& fen) {
    if (H) {
        tracked = nullptr;
        H->nn()->connectPosition(nullptr);
        delete H;
    }
    flushOut();
    flushSearchOut();
    H = new Hist;
    H->contempt = contempt;
    H->et = Evaluate::getEvalHashTables();
    H->ev.reset(new Evaluate(*H->et));
    H->pos.reset(new Position(TextIO::readFEN(fen)));
    out << "OP N";
    boardStr(H->pos.get(), out);
    out << '\n';
    H->ev->setWhiteContempt(contempt);
    tracked = H->nn();
    hookDepth = 0;
    H->ev->connectPosition(*H->pos);         // forceFullEval
    if (derivedMode) { dForce(); dDump(); }
}

static int nonKingCount(const Position& p) {
    return BitBoard::bitCount(p.occupiedBB() & ~p.pieceTypeBB(Piece::WKING, Piece::BKING));
}

static void runHist() {
    std::string line;
    while (std::getline(std::cin, line)) {
        if (line.empty()) continue;
        std::istringstream is(line);
        std::string cmd; is >> cmd;
        if (cmd == "H") {
            int c; is >> c; std::string fen; std::getline(is, fen);
            size_t b = fen.find_first_not_of(' ');
            newHistory(c, b == std::string::npos ? TextIO::startPosFEN : fen.substr(b));
            out << "T H\n";
            continue;
        }
        if (!H) continue;
        Position& pos = *H->pos;
        NNEvaluator& nn = *H->nn();
        if (cmd == "M") {
            long r; is >> r;
            MoveList ml; legalMoves(pos, ml);
            if (ml.size == 0 || nn.stack.stackTop >= NNEvaluator::maxStackSize - 8) { out << "T M skip\n"; continue; }
            // canonical order so that the choice does not depend on generator order
            std::vector<Move> mv; for (int i = 0; i < ml.size; i++) mv.push_back(ml[i]);
            std::sort(mv.begin(), mv.end(), [](const Move& a, const Move& b) {
                return a.getCompressedMove() < b.getCompressedMove(); });
            auto kindOf = [&pos](const Move& m) -> std::string {
                int p = pos.getPiece(m.from());
                std::string kind = "quiet";
                if (pos.getPiece(m.to()) != Piece::EMPTY) kind = m.promoteTo() ? "promcapture" : "capture";
                else if (m.promoteTo()) kind = "promotion";
                else if ((p == Piece::WPAWN || p == Piece::BPAWN) && m.to() == pos.getEpSquare()) kind = "ep";
                else if ((p == Piece::WKING || p == Piece::BKING) && std::abs(m.to().asInt() - m.from().asInt()) == 2) kind = "castle";
                else if (p == Piece::WKING || p == Piece::BKING) kind = "kingmove";
                if ((p == Piece::WKING || p == Piece::BKING) && pos.getPiece(m.to()) != Piece::EMPTY) kind = "kingcapture";
                return kind;
            };
            std::string want; is >> want;             // optional preferred kind
            if (!want.empty()) {
                std::vector<Move> sel;
                for (const Move& m : mv) if (kindOf(m) == want) sel.push_back(m);
                if (!sel.empty()) mv = sel;
            }
            Move m = mv[(size_t)(r % (long)mv.size())];
            Frame f; f.kind = 0; f.m = m;
            std::string kind = kindOf(m);
            derivedMakeMove(pos, m);
            pos.makeMove(m, f.ui);
            H->frames.push_back(f);
            dDump();
            out << "T M " << TextIO::moveToUCIString(m) << ' ' << kind << '\n';
        } else if (cmd == "U") {
            if (H->frames.empty()) { out << "T U skip\n"; continue; }
            Frame f = H->frames.back(); H->frames.pop_back();
            if (f.kind == 0) {
                pos.unMakeMove(f.m, f.ui);
                dPop(); dDump();
                out << "T U move" << (nn.stack.stackTop == 0 ? "" : "") << '\n';
            } else if (f.kind == 1) {
                pos.setEpSquare(Square(f.ep));
                pos.setWhiteMove(!pos.isWhiteMove());
                pos.setHalfMoveClock(f.hmc);
                dDump();
                out << "T U null\n";
            } else {
                dSet(f.sq, f.newP, f.oldP);
                pos.setPiece(Square(f.sq), f.oldP);
                dDump();
                out << "T U edit\n";
            }
            if (H->haveSnap && H->frames.size() < H->snapDepth) H->haveSnap = false;
        } else if (cmd == "N") {
            if (MoveGen::inCheck(pos)) { out << "T N skip\n"; continue; }
            Frame f; f.kind = 1; f.ep = pos.getEpSquare().asInt(); f.hmc = pos.getHalfMoveClock();
            pos.setWhiteMove(!pos.isWhiteMove());
            pos.setEpSquare(Square(-1));
            pos.setHalfMoveClock(0);
            H->frames.push_back(f);
            dDump();
            out << "T N\n";
        } else if (cmd == "X") {
            int sq, piece; is >> sq >> piece;
            sq = ((sq % 64) + 64) % 64; piece = ((piece % 13) + 13) % 13;
            int oldP = pos.getPiece(Square(sq));
            bool ok = oldP != Piece::WKING && oldP != Piece::BKING && piece != Piece::WKING && piece != Piece::BKING && piece != oldP;
            if (sq == 0 || sq == 7 || sq == 56 || sq == 63 || pos.getEpSquare().isValid()) ok = false;
            if (ok && (piece == Piece::WPAWN || piece == Piece::BPAWN) && (sq < 8 || sq >= 56)) ok = false;
            if (ok && oldP == Piece::EMPTY && nonKingCount(pos) >= 30) ok = false;
            if (ok) {
                Position t(pos); t.setPiece(Square(sq), piece);
                if (MoveGen::canTakeKing(t)) ok = false;
            }
            if (!ok) { out << "T X skip\n"; continue; }
            Frame f; f.kind = 2; f.sq = sq; f.oldP = oldP; f.newP = piece;
            dSet(sq, oldP, piece);
            pos.setPiece(Square(sq), piece);
            H->frames.push_back(f);
            dDump();
            out << "T X\n";
        } else if (cmd == "E") {
            dCompute();
            int v = nn.eval();
            if (derivedMode) dDump(true);
            else dumpLine(true);
            std::unique_ptr<Position> holder;
            std::shared_ptr<NNEvaluator> fr = freshNN(nn.netData, pos, holder);
            int v2 = fr->eval();
            bool same = v == v2;
            for (int c = 0; c < 2 && same; c++)
                same = memcmp(&nn.stack.flState[nn.stack.stackTop][c].l1Out, &fr->stack.flState[0][c].l1Out, sizeof(S16) * NetData::n1) == 0;
            same = same && memcmp(&nn.l1OutClipped, &fr->l1OutClipped, 2 * NetData::n1) == 0;
            fr->connectPosition(nullptr);
            out << "T E " << v << ' ' << v2 << (same ? " same" : " FRESHDIFF") << ' ' << TextIO::toFEN(pos) << '\n';
            classLine(nn, pos, out);
        } else if (cmd == "A") {
            H->snap.reset(new Position(pos)); H->snapDepth = H->frames.size(); H->haveSnap = true;
            out << "T A\n";
        } else if (cmd == "B") {
            if (!H->haveSnap) { out << "T B skip\n"; continue; }
            pos = *H->snap;                          // Position::operator= -> forceFullEval
            H->frames.resize(H->snapDepth);
            dForce(); dDump();
            out << "T B\n";
        } else if (cmd == "Y") {
            Position tmp(pos);
            pos = tmp;
            dForce(); dDump();
            out << "T Y\n";
        } else if (cmd == "Z") {
            Position::SerializeData d; pos.serialize(d);
            pos.deSerialize(d);
            dForce(); dDump();
            out << "T Z\n";
        } else if (cmd == "R") {
            tracked = nullptr;
            nn.connectPosition(nullptr);
            tracked = &nn; hookDepth = 0;
            H->ev->connectPosition(pos);
            dForce(); dDump();
            out << "T R\n";
        } else if (cmd == "L") {
            if (derivedMode || nn.stack.stackTop >= NNEvaluator::maxStackSize - 8) { out << "T L skip\n"; continue; }
            MoveList ml; MoveGen::pseudoLegalMoves(pos, ml);
            MoveGen::removeIllegal(pos, ml);         // makes/unmakes moves on the connected position
            out << "T L " << ml.size << '\n';
        } else if (cmd == "G") {
            int depth = 3, maxNodes = 2000; is >> depth >> maxNodes;
#ifdef C07_HAVE_H4
            Position kt(pos);
            if (!derivedMode && !MoveGen::canTakeKing(kt)) {
                runSearch(pos, depth, maxNodes, H->contempt);
                out << "T G\n";
                continue;
            }
#endif
            out << "T G skip\n";
        } else if (cmd == "Q") {
            // evalPos through the long-lived Evaluate (cache + incremental state) versus a fresh one,
            // the colour-swapped and (without castling rights) the mirrored position
            // did evalPos go through nn.eval() (cache miss)?  eval() rewrites all of l1OutClipped with
            // values >= 0, so a negative sentinel survives exactly on a cache hit
            nn.l1OutClipped(0) = -128;
            std::ostringstream pre;
            pre << "OP C"; posInputs(pos, pre); pre << '\n';
            int v = H->ev->evalPos();
            bool hit = nn.l1OutClipped(0) == -128;
            if (!hit) { if (derivedMode) out << pre.str(); dumpLine(true); }
            int vf = freshEvalPos(pos, H->contempt);
            Position sw = PosUtil::swapColors(pos);
            int vs = freshEvalPos(sw, -H->contempt);
            std::string mir = "-";
            if (pos.getCastleMask() == 0) {
                Position mx = PosUtil::mirrorX(pos);
                mir = std::to_string(freshEvalPos(mx, H->contempt));
            }
            out << "T Q " << v << ' ' << vf << ' ' << vs << ' ' << mir << ' ' << (hit ? "hit" : "miss")
                << ' ' << (H->ev->mhd && H->ev->mhd->endGame ? "eg" : "mg") << ' ' << TextIO::toFEN(pos) << '\n';
            if (!hit) classLine(nn, pos, out);
        }
        if (mainOut.tellp() > (1 << 16)) flushOut();
    }
    flushOut();
    flushSearchOut();
}

// ---- evaluation cache ------------------------------------------------------------------------
//   T            new tables (new EvalHashTables + Evaluate)
//   P <fen>      connect this position
//   C <c>        Evaluate::setWhiteContempt(c)
//   V            evalPos -> prints: key returned fresh(same contempt, new tables)
static void runCache() {
    std::unique_ptr<Evaluate::EvalHashTables> et;
    std::unique_ptr<Evaluate> ev;
    std::unique_ptr<Position> pos;
    int contempt = 0;
    std::string line;
    while (std::getline(std::cin, line)) {
        std::istringstream is(line);
        std::string cmd; is >> cmd;
        if (cmd == "T") {
            if (et) et->nnEval->connectPosition(nullptr);
            ev.reset(); et = Evaluate::getEvalHashTables(); ev.reset(new Evaluate(*et)); contempt = 0;
            if (pos) ev->connectPosition(*pos);
            std::cout << "T\n";
        } else if (cmd == "P") {
            std::string fen; std::getline(is, fen);
            size_t b = fen.find_first_not_of(' ');
            if (et) et->nnEval->connectPosition(nullptr);
            pos.reset(new Position(TextIO::readFEN(fen.substr(b))));
            if (ev) ev->connectPosition(*pos);
            std::cout << "P\n";
        } else if (cmd == "C") {
            is >> contempt;
            if (ev) ev->setWhiteContempt(contempt);
            std::cout << "C " << contempt << '\n';
        } else if (cmd == "V") {
            if (!ev || !pos) { std::cout << "V skip\n"; continue; }
            U64 key = pos->historyHash();
            int v = ev->evalPos();
            int vf = freshEvalPos(*pos, contempt);
            std::cout << "V " << key << ' ' << v << ' ' << vf << '\n';
        }
    }
}

// ---- synthetic nets -----------------------------------------------------------------------------
/** Replace the contents of the process-wide NetData (Evaluate::EvalHashTables::initNetData keeps
 *  one static instance that every evaluator references) by a net file written by NetData::save +
 *  Lzma86_Encode.  NetData::load also runs this build variant's prepareMatMul. */
static void loadNetFile(const std::string& path) {
    std::ifstream is(path, std::ios::binary);
    std::string compr((std::istreambuf_iterator<char>(is)), std::istreambuf_iterator<char>());
    std::unique_ptr<Evaluate::EvalHashTables> et = Evaluate::getEvalHashTables();
    NetData& net = const_cast<NetData&>(et->nnEval->netData);
    size_t unCompressedSize = net.computeSize();
    std::vector<unsigned char> unCompr(unCompressedSize);
    size_t comprSize = compr.size();
    int res = Lzma86_Decode(unCompr.data(), &unCompressedSize, (const unsigned char*)compr.data(), &comprSize);
    if (res != SZ_OK) { std::cerr << "cannot decompress " << path << std::endl; exit(3); }
    std::stringstream ss(std::string((char*)unCompr.data(), unCompressedSize));
    net.load(ss);
}

/** kind "sweep": first-layer weights whose magnitude differs per neuron (4 .. 32767), so that over
 *  ordinary positions the accumulators cover negative values, the linear range, (127,255] and
 *  >255 after the shift, reach the S16 extremes and wrap around; layer 2-4 weights scaled per
 *  output unit so that their pre-activations straddle both clamp bounds. */
static int makeNet(const std::string& kind, U64 seed, const std::string& outFile) {
    if (kind != "sweep") { std::cerr << "unknown kind" << std::endl; return 2; }
    std::shared_ptr<NetData> netP = NetData::create();
    NetData& net = *netP;
    Random rnd(seed * 104729 + 71);
    auto r = [&](int lo, int hi) { return lo + (int)(rnd.nextU64() % (U64)(hi - lo + 1)); };
    static const int scale1[8] = {4, 30, 130, 260, 900, 4000, 15000, 32767};
    const int n1 = NetData::n1;
    for (int f = 0; f < NetData::inFeatures; f++)
        for (int u = 0; u < n1; u++) {
            int sc = scale1[(u * 7 + u / 8) % 8];
            net.weight1(f, u) = (S16)r(-sc, sc);
        }
    for (int u = 0; u < n1; u++) {
        int sc = scale1[(u * 7 + u / 8) % 8];
        net.bias1(u) = (S16)clamp(r(-4 * sc, 4 * sc) + (u % 3 == 0 ? 512 : 0), -32768, 32767);
    }
    static const int scaleL[4] = {2, 8, 32, 127};
    for (int h = 0; h < NetData::nHeads; h++) {
        NetData::Head& hd = net.head[h];
        memset(&hd, 0, sizeof(hd));
        for (int i = 0; i < NetData::n2; i++) {
            int sc = scaleL[i % 4];
            for (int j = 0; j < 2 * n1; j++) hd.lin2.weight(i, j) = (S8)(r(0, 3) == 0 ? 0 : r(-sc, sc));
            hd.lin2.bias(i) = r(-6000, 9000);
        }
        for (int i = 0; i < NetData::n3; i++) {
            int sc = scaleL[(i + h) % 4];
            for (int j = 0; j < NetData::n2; j++) hd.lin3.weight(i, j) = (S8)r(-sc, sc);
            hd.lin3.bias(i) = r(-3000, 6000);
        }
        for (int j = 0; j < NetData::n3; j++) hd.lin4.weight(0, j) = (S8)r(-127, 127);
        hd.lin4.bias(0) = r(-20000, 20000);
    }
    std::stringstream ss;
    net.save(ss);
    std::string data = ss.str();
    size_t outSize = data.size();
    std::vector<unsigned char> compr(outSize);
    int res = Lzma86_Encode(compr.data(), &outSize, (unsigned char*)&data[0], data.size(), 5, 16 * 1024 * 1024, SZ_FILTER_NO);
    if (res != SZ_OK) { std::cerr << "compress failed" << std::endl; return 1; }
    std::ofstream os(outFile, std::ios::binary);
    os.write((const char*)compr.data(), outSize);
    return os.good() ? 0 : 1;
}

// ---- unit-level kernel comparison --------------------------------------------------------------
// The three kernels of vectorop.hpp that a build variant replaces, called directly (this file is
// compiled with the variant's flags) on boundary + random vectors, each against a scalar reference
// written here from the documented meaning (not from the generic branch of vectorop.hpp):
//   scaleClipPack : out = clamp(floor(x / 4), 0, 127)           (spec proved in Coq: scaleClipSpec)
//   addSubWeights : lane-wise sum of rows modulo 2^16
//   matMul        : result += W * in  on S8 x [0,127] inputs with 32-bit sums
// Output lines are identical in every correct variant; KREFDIFF marks a kernel result that differs
// from the scalar reference; KI lines carry inputs for the extracted Coq model.
static U64 krs = 1;
static U64 krnd() { krs ^= krs << 13; krs ^= krs >> 7; krs ^= krs << 17; return krs * 0x2545F4914F6CDD1DULL >> 11; }
static int krange(int lo, int hi) { return lo + (int)(krnd() % (U64)(hi - lo + 1)); }

struct alignas(64) KernBufs {
    alignas(64) Vector<S16, NetData::n1> acc;
    alignas(64) S8 clipped[NetData::n1];
    alignas(64) Matrix<S16, 64, NetData::n1> w16m;
    alignas(64) Matrix<S8, NetData::n2, 2 * NetData::n1> w2, w2p;
    alignas(64) Matrix<S8, NetData::n3, NetData::n2> w3, w3p;
    alignas(64) Matrix<S8, 1, NetData::n3> w4, w4p;
    alignas(64) Vector<S8, 2 * NetData::n1> in2;
    alignas(64) Vector<S8, NetData::n2> in3;
    alignas(64) Vector<S32, NetData::n2> res2;
    alignas(64) Vector<S32, NetData::n3> res3;
    alignas(64) Vector<S32, 1> res4;
};

template <bool sparse, int nIn, int nOut>
static void kernMatMul(const char* name, int ci, Matrix<S8,nOut,nIn>& w, Matrix<S8,nOut,nIn>& wp,
                       Vector<S8,nIn>& in, Vector<S32,nOut>& res, long* cls, long& refdiff) {
    int sc = (int[]){1, 3, 16, 64, 127, 128}[krange(0, 5)];
    for (int i = 0; i < nOut; i++)
        for (int j = 0; j < nIn; j++)
            w(i, j) = (S8)(sc == 128 ? (krnd() & 1 ? 127 : -128) : krange(-sc, sc));
    int mode = krange(0, 4);   // density / magnitude of the activations
    for (int j = 0; j < nIn; j++) {
        int v;
        switch (mode) {
        case 0: v = 127; break;
        case 1: v = (j / 4) % 5 == 0 ? krange(0, 127) : 0; break;          // mostly zero 4-byte blocks
        case 2: v = krange(0, 3) ? 0 : krange(1, 127); break;
        case 3: v = (int[]){0, 1, 126, 127}[krange(0, 3)]; break;
        default: v = krange(0, 127);
        }
        in(j) = (S8)v;
    }
    std::vector<S64> ref(nOut);
    for (int i = 0; i < nOut; i++) {
        int b = (int[]){0, 64 * 127, 64 * 128 - 1, 64 * 128, -1, -64, 1 << 30}[krange(0, 6)];
        if (krange(0, 1)) b = krange(-300000, 300000);
        res(i) = b;
        S64 sum = b;
        for (int j = 0; j < nIn; j++) sum += (S64)w(i, j) * in(j);
        ref[i] = (S32)(U32)(U64)sum;
    }
    wp = w;
    prepareMatMul(wp);                               // this variant's weight layout
    matMul<sparse>(res, wp, in);
    U64 h = 7;
    for (int i = 0; i < nOut; i++) {
        h = (h * 1000003ULL + (U32)res(i)) & ((1ULL << 40) - 1);
        if (res(i) != (S32)ref[i]) { refdiff++; std::cout << "KREFDIFF " << name << ' ' << ci << " unit " << i << " got " << res(i) << " expected " << ref[i] << '\n'; }
        S64 v = ref[i] >> 6;
        cls[v < 0 ? 0 : v == 0 ? 1 : v < 127 ? 2 : v == 127 ? 3 : 4]++;
    }
    std::cout << "K " << name << ' ' << ci << ' ' << h << '\n';
}

static int runKern(U64 seed, int ncases, const std::string& wfile) {
    krs = seed * 2654435761ULL + 12345;
    for (int i = 0; i < 5; i++) krnd();
    KernBufs* B = (KernBufs*)AlignedAllocator<KernBufs>().allocate(1);
    new (B) KernBufs;
    static const int bnd[] = {-32768, -32767, -32766, -1028, -1024, -516, -513, -512, -511, -8, -5, -4, -3, -2, -1, 0, 1, 2, 3, 4, 5, 7, 8,
                              503, 504, 507, 508, 509, 510, 511, 512, 513, 515, 516, 519, 520, 1016, 1019, 1020, 1023, 1024, 1025, 1027, 1028,
                              2047, 2048, 16383, 16384, 32764, 32765, 32766, 32767};
    const int nb = sizeof(bnd) / sizeof(bnd[0]);
    long scp[4] = {0, 0, 0, 0}, scpExt = 0, scpEdge = 0, asw[2] = {0, 0}, refdiff = 0;
    long m2[5] = {0}, m3[5] = {0}, m4[5] = {0};
    // rows for addSubWeights: boundary rows and random rows of every magnitude
    for (int f = 0; f < 64; f++)
        for (int u = 0; u < NetData::n1; u++) {
            int v;
            if (f < 8) v = (int[]){32767, -32768, 1, -1, 0, 16384, -16384, 255}[f];
            else if (f < 24) v = bnd[krange(0, nb - 1)];
            else v = krange(-(1 << (f % 16)), (1 << (f % 16)) - 1 + (f % 16 == 15 ? 0 : 0));
            B->w16m(f, u) = (S16)clamp(v, -32768, 32767);
        }
    if (!wfile.empty()) {
        std::ofstream os(wfile, std::ios::binary);
        os.write((const char*)&B->w16m.data[0], sizeof(B->w16m.data));
        std::vector<S16> zero(NetData::n1, 0);
        os.write((const char*)zero.data(), zero.size() * sizeof(S16));
    }
    for (int ci = 0; ci < ncases; ci++) {
        // --- scaleClipPack
        int t = ci % 4;
        for (int i = 0; i < NetData::n1; i++) {
            int v;
            if (t == 0) v = bnd[(i + ci * 7) % nb];
            else if (t == 1) v = krange(-32768, 32767);
            else if (t == 2) v = clamp(bnd[krange(0, nb - 1)] + krange(-6, 6), -32768, 32767);
            else v = krange(-700, 1300);
            B->acc(i) = (S16)v;
        }
        scaleClipPack<NetData::l1Shift>(B->clipped, B->acc);
        for (int i = 0; i < NetData::n1; i++) {
            int x = B->acc(i);
            int q = (x >= 0) ? x / 4 : -((-x + 3) / 4);              // floor(x / 4)
            int want = q < 0 ? 0 : q > 127 ? 127 : q;
            scp[q < 0 ? 0 : q <= 127 ? 1 : q <= 255 ? 2 : 3]++;
            if (x == 32767 || x == -32768) scpExt++;
            if (x == -1 || x == 0 || x == 3 || x == 4 || x == 507 || x == 508 || x == 511 || x == 512 || x == 1023 || x == 1024) scpEdge++;
            if (B->clipped[i] != want) {
                refdiff++;
                std::cout << "KREFDIFF scp " << ci << " lane " << i << " l1Out " << x << " got " << (int)B->clipped[i] << " expected " << want << '\n';
            }
        }
        std::cout << "K scp " << ci << ' ' << hashBytes(B->clipped, NetData::n1) << '\n';
        if (ci < 12) {
            std::cout << "KI scp " << ci;
            for (int i = 0; i < NetData::n1; i++) std::cout << ' ' << (int)(uint16_t)B->acc(i);
            std::cout << '\n';
        }
        // --- addSubWeights
        int adds[32], subs[32];
        int na = ci % 5 == 0 ? 32 : krange(0, 32), ns = ci % 7 == 0 ? 32 : krange(0, 8);
        for (int i = 0; i < na; i++) adds[i] = krange(0, 63);
        for (int i = 0; i < ns; i++) subs[i] = krange(0, 63);
        std::vector<S64> exact(NetData::n1);
        std::vector<int> start(NetData::n1);
        for (int i = 0; i < NetData::n1; i++) {
            int v = (ci % 3 == 0) ? bnd[krange(0, nb - 1)] : krange(-32768, 32767);
            B->acc(i) = (S16)v; start[i] = (uint16_t)(S16)v; exact[i] = v;
        }
        for (int k = 0; k < na; k++) for (int i = 0; i < NetData::n1; i++) exact[i] += B->w16m(adds[k], i);
        for (int k = 0; k < ns; k++) for (int i = 0; i < NetData::n1; i++) exact[i] -= B->w16m(subs[k], i);
        addSubWeights(B->acc, B->w16m, adds, na, subs, ns);
        for (int i = 0; i < NetData::n1; i++) {
            int want = (int)(S16)(uint16_t)(exact[i] & 0xffff);
            asw[(exact[i] < -32768 || exact[i] > 32767) ? 1 : 0]++;
            if (B->acc(i) != want) {
                refdiff++;
                std::cout << "KREFDIFF asw " << ci << " lane " << i << " got " << B->acc(i) << " expected " << want << '\n';
            }
        }
        std::cout << "K asw " << ci << ' ' << hashLanes(&B->acc.data[0], NetData::n1) << '\n';
        if (ci < 12) {
            std::cout << "KI asw " << ci;
            for (int i = 0; i < NetData::n1; i++) std::cout << ' ' << start[i];
            std::cout << " ;";
            for (int i = 0; i < na; i++) std::cout << ' ' << adds[i];
            std::cout << " ;";
            for (int i = 0; i < ns; i++) std::cout << ' ' << subs[i];
            std::cout << '\n';
        }
        // --- matMul in the three shapes the network uses
        kernMatMul<true>("mm2", ci, B->w2, B->w2p, B->in2, B->res2, m2, refdiff);
        kernMatMul<false>("mm3", ci, B->w3, B->w3p, B->in3, B->res3, m3, refdiff);
        kernMatMul<false>("mm4", ci, B->w4, B->w4p, B->in3, B->res4, m4, refdiff);
    }
    std::cout << "KS scp_neg " << scp[0] << " scp_0_127 " << scp[1] << " scp_128_255 " << scp[2] << " scp_gt255 " << scp[3]
              << " scp_s16_extremes " << scpExt << " scp_at_clamp_edges " << scpEdge
              << " asw_in_range " << asw[0] << " asw_wrapped " << asw[1];
    const char* nm[3] = {"mm2", "mm3", "mm4"}; long* mm[3] = {m2, m3, m4};
    for (int k = 0; k < 3; k++)
        std::cout << ' ' << nm[k] << "_neg " << mm[k][0] << ' ' << nm[k] << "_eq0 " << mm[k][1] << ' ' << nm[k] << "_mid " << mm[k][2]
                  << ' ' << nm[k] << "_eq127 " << mm[k][3] << ' ' << nm[k] << "_gt127 " << mm[k][4];
    std::cout << " refdiff " << refdiff << '\n';
    return 0;
}

int main(int argc, char** argv) {
    std::ios::sync_with_stdio(false);
    ComputerPlayer::initEngine();              // parameter listeners: piece values etc.
    std::string mode = argc > 1 ? argv[1] : "";
    if (mode == "mknet") return makeNet(argv[2], std::stoull(argv[3]), argv[4]);
    if (mode == "kern") return runKern(std::stoull(argv[2]), atoi(argv[3]), argc > 4 ? argv[4] : "");
    {   // --net <file>: use this net instead of the embedded one
        std::vector<char*> rest;
        for (int i = 0; i < argc; i++) {
            if (std::string(argv[i]) == "--net" && i + 1 < argc) { loadNetFile(argv[i + 1]); i++; }
            else rest.push_back(argv[i]);
        }
        argc = (int)rest.size();
        for (int i = 0; i < argc; i++) argv[i] = rest[i];
    }
    if (mode == "dumpw") {
        std::unique_ptr<Evaluate::EvalHashTables> et = Evaluate::getEvalHashTables();
        const NetData& net = et->nnEval->netData;
        std::ofstream os(argv[2], std::ios::binary);
        os.write((const char*)&net.weight1.data[0], sizeof(net.weight1.data));
        os.write((const char*)&net.bias1.data[0], sizeof(net.bias1.data));
        std::cout << NetData::inFeatures << ' ' << NetData::n1 << std::endl;
        return os.good() ? 0 : 1;
    }
    if (mode == "hist") {
        derivedMode = true;
#ifdef C07_HAVE_H4
        derivedMode = argc > 2 && std::string(argv[2]) == "derived";
        nnVerifOpHook = hookFn;
#endif
        std::cout << "MODE " << (derivedMode ? "derived" : "hook") << '\n';
        runHist();
        return 0;
    }
    if (mode == "cache") { runCache(); return 0; }
    std::cerr << "usage: nn_harness [--net f] dumpw <file> | hist [derived] | cache | kern seed n [wfile] | mknet sweep seed out" << std::endl;
    return 2;
}
