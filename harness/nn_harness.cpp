// Correspondence / finder harness for C07 (first-layer accumulator stack, evalPos symmetry,
// evaluation cache).  Drives the REAL Position + Evaluate + NNEvaluator built from the current
// tree with a synthetic net embedded through gNNDataData.
//
//   nn_harness dumpw <file>       weight1 and bias1 of the embedded net as little-endian int16
//   nn_harness hist [derived]     scripts on stdin (see below) -> op stream + real state lines
//   nn_harness cache              evaluation-cache scripts on stdin
//
// hist script (all random choices are made by the caller; numbers are reduced modulo here):
//   H <contempt> <fen>   new history: fresh EvalHashTables/Evaluate connected to a new Position
//   M r                  make legal move number r mod n          U  take back the last frame
//   N                    null-move edit exactly as search.cpp     E  nn->eval(), compared with a
//   X sq piece           Position::setPiece edit (own frame)         freshly constructed evaluator
//   A                    snapshot the position                    B  assign the snapshot back
//   Y                    assign through a temporary copy          Z  serialize + deSerialize
//   R                    disconnect + reconnect the evaluator     L  MoveGen::removeIllegal on the
//   Q                    Evaluate::evalPos + symmetry/fresh queries  connected position (hook mode)
// Output: "OP ..." lines = the accumulator op stream (input of the extracted model), each state
// dump request "OP D <wtm>" is followed by the real state "R ...".  With the H4 hook compiled in
// (C07_HAVE_H4) the op stream is what nneval.cpp reports; otherwise (or with `derived`) it is
// derived from the harness' own knowledge of what Position::makeMove etc. notify.
#include <algorithm>
#include <cstdint>
#include <cstdio>
#include <cstdlib>
#include <cstring>
#include <fstream>
#include <iostream>
#include <memory>
#include <sstream>
#include <string>
#include <vector>
#include <array>
#include <atomic>
#include <bitset>
#include <cassert>
#include <chrono>
#include <climits>
#include <cmath>
#include <condition_variable>
#include <deque>
#include <functional>
#include <future>
#include <iomanip>
#include <iterator>
#include <limits>
#include <list>
#include <map>
#include <mutex>
#include <numeric>
#include <queue>
#include <random>
#include <set>
#include <stdexcept>
#include <thread>
#include <tuple>
#include <type_traits>
#include <unordered_map>
#include <unordered_set>
#include <utility>
#define private public
#define protected public
#include "position.hpp"
#include "evaluate.hpp"
#include "nneval.hpp"
#include "nntypes.hpp"
#include "moveGen.hpp"
#include "textio.hpp"
#include "posutil.hpp"
#include "parameters.hpp"
#include "computerPlayer.hpp"
#include "search.hpp"
#include "history.hpp"
#include "killerTable.hpp"
#include "parallel.hpp"
#include "treeLogger.hpp"
#include "transpositionTable.hpp"
#undef private
#undef protected

static bool derivedMode = true;
static std::ostringstream mainOut;      // op stream + state lines of the scripted history
static std::ostringstream searchOut;    // ... of real searches (G), emitted as histories of their own
static std::ostringstream* outP = &mainOut;
#define out (*outP)

static void flushOut() { std::cout << mainOut.str(); mainOut.str(""); mainOut.clear(); }
static void flushSearchOut() { std::cout << searchOut.str(); searchOut.str(""); searchOut.clear(); }

// ---------------------------------------------------------------------------------------------
static uint64_t hashLanes(const S16* v, int n) {
    uint64_t h = 7;
    for (int i = 0; i < n; i++)
        h = (h * 1000003ULL + (uint64_t)(uint16_t)v[i]) & ((1ULL << 40) - 1);
    return h;
}
static uint64_t hashBytes(const S8* v, int n) {
    uint64_t h = 7;
    for (int i = 0; i < n; i++)
        h = (h * 1000003ULL + (uint64_t)(uint8_t)v[i]) & ((1ULL << 40) - 1);
    return h;
}

static void boardStr(const Position* p, std::ostream& os) {
    for (int sq = 0; sq < 64; sq++)
        os << ' ' << (p ? p->getPiece(Square(sq)) : 0);
}

static void posInputs(const Position& p, std::ostream& os) {
    os << ' ' << p.getKingSq(true).asInt() << ' ' << p.getKingSq(false).asInt();
    std::vector<int> v;
    U64 squares = p.occupiedBB() & ~p.pieceTypeBB(Piece::WKING, Piece::BKING);
    while (squares) {
        Square sq = BitBoard::extractSquare(squares);
        v.push_back(p.getPiece(sq)); v.push_back(sq.asInt());
    }
    os << ' ' << v.size() / 2;
    for (int x : v) os << ' ' << x;
}

/** observable state of the top level of the real evaluator */
static void realState(const NNEvaluator& nn, bool withClipped, std::ostream& os) {
    os << "R " << nn.stack.stackTop;
    for (int c = 0; c < 2; c++) {
        const NNEvaluator::FirstLayerState& s = nn.stack.flState[nn.stack.stackTop][c];
        os << " | " << s.kingSqComputed.asInt() << " [";
        for (int i = 0; i < s.toAddLen; i++) os << (i ? "," : "") << s.toAdd[i];
        os << "] [";
        for (int i = 0; i < s.toSubLen; i++) os << (i ? "," : "") << s.toSub[i];
        os << "] ";
        if (s.kingSqComputed.isValid()) os << hashLanes(&s.l1Out.data[0], NetData::n1); else os << "-";
    }
    os << " | ";
    if (withClipped) os << hashBytes(&nn.l1OutClipped.data[0], 2 * NetData::n1); else os << "-";
}

// ---------------------------------------------------------------------------------------------
struct Frame { int kind; Move m; UndoInfo ui; int ep; int hmc; int sq, oldP, newP; };

struct Hist {
    std::unique_ptr<Evaluate::EvalHashTables> et;
    std::unique_ptr<Evaluate> ev;
    std::unique_ptr<Position> pos;
    std::vector<Frame> frames;
    std::unique_ptr<Position> snap; size_t snapDepth = 0; bool haveSnap = false;
    int contempt = 0;
    NNEvaluator* nn() { return et->nnEval.get(); }
};
static Hist* H = nullptr;

// ---- H4 hook --------------------------------------------------------------------------------
static void legalMoves(const Position& pos, MoveList& ml) {
    Position tmp(pos);                        // not connected: no notifications
    MoveGen::pseudoLegalMoves(tmp, ml);
    MoveGen::removeIllegal(tmp, ml);
}

static int hookDepth = 0;
static const NNEvaluator* tracked = nullptr;
static bool lastWasEval = false;

static void dumpLine(bool clipped) {
    out << "OP D " << (H->pos->isWhiteMove() ? 1 : 0) << (clipped ? " 1" : " 0") << '\n';
    realState(*H->nn(), clipped, out);
    out << '\n';
}

#ifdef C07_HAVE_H4
static bool searchMode = false;
static long searchEvals = 0, searchDiffs = 0;
static std::shared_ptr<NNEvaluator> searchFresh;
static std::unique_ptr<Position> searchFreshPos;

/** every evaluation the real search performs: accumulators against a from-scratch computation */
static void compareWithFresh(const NNEvaluator* nn) {
    const Position* p = nn->posP;
    if (!p) return;
    if (!searchFresh) {
        searchFreshPos.reset(new Position(*p));
        searchFresh = NNEvaluator::create(nn->netData);
        searchFresh->connectPosition(searchFreshPos.get());
    }
    *searchFreshPos = *p;                       // operator= -> forceFullEval of the fresh evaluator
    searchFresh->computeL1WB();
    searchEvals++;
    bool same = true;
    for (int c = 0; c < 2; c++)
        same = same && memcmp(&nn->stack.flState[nn->stack.stackTop][c].l1Out,
                              &searchFresh->stack.flState[searchFresh->stack.stackTop][c].l1Out, sizeof(S16) * NetData::n1) == 0;
    if (!same) {
        searchDiffs++;
        out << "T E 0 0 FRESHDIFF " << TextIO::toFEN(*p) << '\n';
    }
}

static void hookFn(const NNEvaluator* nn, int op, int phase, int a, int b, int c) {
    if (nn != tracked || derivedMode) return;
    if (phase == 0) {
        if (hookDepth++ > 0) return;               // nested call (computeL1WB inside pushState, ...)
        const Position* p = nn->posP;
        switch (op) {
        case 0: out << "OP P"; posInputs(*p, out); out << '\n'; break;
        case 2: out << "OP S " << a << ' ' << b << ' ' << c << '\n'; break;
        case 4: out << "OP C"; posInputs(*p, out); out << '\n'; break;
        default: break;                            // pop / force: board is read at exit
        }
    } else {
        if (--hookDepth > 0) return;
        const Position* p = nn->posP;
        if (op == 1) { out << "OP O"; boardStr(p, out); out << '\n'; }
        if (op == 3) { out << "OP F 1"; boardStr(p, out); out << '\n'; }
        out << "OP D " << ((p && p->isWhiteMove()) ? 1 : 0) << " 0\n";
        realState(*nn, false, out);
        out << '\n';
        if (searchMode && op == 4) compareWithFresh(nn);
    }
}

struct SearchBox {
    TranspositionTable tt;
    Notifier notifier;
    ThreadCommunicator comm;
    KillerTable kt;
    History ht;
    std::unique_ptr<Evaluate::EvalHashTables> et;
    TreeLogger treeLog;
    SearchBox() : tt(256 * 1024), comm(nullptr, tt, notifier, false), et(Evaluate::getEvalHashTables()) {}
};

/** a real search (iterativeDeepening, one thread) from position p; its evaluator's op stream is
 *  recorded as a history of its own */
static void runSearch(const Position& p, int depth, int maxNodes, int contempt) {
    static std::unique_ptr<SearchBox> sb;
    sb.reset(new SearchBox);
    MoveList moves; legalMoves(p, moves);
    const NNEvaluator* prevTracked = tracked;
    int prevDepth = hookDepth;
    outP = &searchOut;
    out << "OP N"; boardStr(&p, out); out << '\n';
    out << "T G " << depth << ' ' << maxNodes << ' ' << TextIO::toFEN(p) << '\n';
    tracked = sb->et->nnEval.get(); hookDepth = 0; searchMode = true; searchEvals = searchDiffs = 0;
    S64 nodes = 0;
    {
        std::vector<U64> list(SearchConst::MAX_SEARCH_DEPTH * 2 + 8);
        Search::SearchTables st(sb->comm.getCTT(), sb->kt, sb->ht, *sb->et);
        Search sc(p, list, 0, st, sb->comm, sb->treeLog);
        sc.setWhiteContempt(contempt);
        sc.timeLimit(-1, -1);
        sc.iterativeDeepening(moves, depth, maxNodes);
        nodes = sc.getTotalNodes();
    }                                            // ~Search -> ~Position -> disconnect (forceFullEval)
    out << "T S " << nodes << ' ' << searchEvals << ' ' << searchDiffs << '\n';
    searchMode = false; tracked = prevTracked; hookDepth = prevDepth;
    outP = &mainOut;
}
#endif

// ---- derived op stream ----------------------------------------------------------------------
static void dPush() { if (derivedMode) { out << "OP P"; posInputs(*H->pos, out); out << '\n'; } }
static void dSet(int sq, int o, int n) { if (derivedMode) out << "OP S " << sq << ' ' << o << ' ' << n << '\n'; }
static void dPop() { if (derivedMode) { out << "OP O"; boardStr(H->pos.get(), out); out << '\n'; } }
static void dForce() { if (derivedMode) { out << "OP F 1"; boardStr(H->pos.get(), out); out << '\n'; } }
static void dCompute() { if (derivedMode) { out << "OP C"; posInputs(*H->pos, out); out << '\n'; } }
static void dDump(bool clipped = false) { if (derivedMode) dumpLine(clipped); }

/** what Position::makeMove notifies, in its order (position.cpp) */
static void derivedMakeMove(const Position& pos, const Move& m) {
    if (!derivedMode) return;
    dPush();
    int p = pos.getPiece(m.from());
    int capP = pos.getPiece(m.to());
    int from = m.from().asInt(), to = m.to().asInt();
    if (capP != Piece::EMPTY || p == Piece::WPAWN || p == Piece::BPAWN) {
        if (p == Piece::WPAWN && m.to() == pos.getEpSquare() && to != from + 16)
            dSet(to - 8, pos.getPiece(Square(to - 8)), Piece::EMPTY);
        else if (p == Piece::BPAWN && m.to() == pos.getEpSquare() && to != from - 16)
            dSet(to + 8, pos.getPiece(Square(to + 8)), Piece::EMPTY);
        dSet(from, p, Piece::EMPTY);
        dSet(to, capP, m.promoteTo() != Piece::EMPTY ? m.promoteTo() : p);
    } else {
        if (p == Piece::WKING || p == Piece::BKING) {
            if (to == from + 2) { int r = pos.getPiece(Square(from + 3)); dSet(from + 3, r, Piece::EMPTY); dSet(from + 1, Piece::EMPTY, r); }
            else if (to == from - 2) { int r = pos.getPiece(Square(from - 4)); dSet(from - 4, r, Piece::EMPTY); dSet(from - 1, Piece::EMPTY, r); }
        }
        dSet(from, p, Piece::EMPTY);
        dSet(to, Piece::EMPTY, p);
    }
}

// ---------------------------------------------------------------------------------------------
static std::shared_ptr<NNEvaluator> freshNN(const NetData& net, const Position& p, std::unique_ptr<Position>& holder) {
    holder.reset(new Position(p));
    std::shared_ptr<NNEvaluator> nn = NNEvaluator::create(net);
    nn->connectPosition(holder.get());
    return nn;
}

static int freshEvalPos(const Position& p, int contempt) {
    std::unique_ptr<Evaluate::EvalHashTables> et2 = Evaluate::getEvalHashTables();
    Evaluate ev2(*et2);
    Position p2(p);
    ev2.connectPosition(p2);
    ev2.setWhiteContempt(contempt);
    int v = ev2.evalPos();
    et2->nnEval->connectPosition(nullptr);
    return v;
}

static void newHistory(int contempt, const std::string& fen) {
    if (H) {
        tracked = nullptr;
        H->nn()->connectPosition(nullptr);
        delete H;
    }
    flushOut();
    flushSearchOut();
    H = new Hist;
    H->contempt = contempt;
    H->et = Evaluate::getEvalHashTables();
    H->ev.reset(new Evaluate(*H->et));
    H->pos.reset(new Position(TextIO::readFEN(fen)));
    out << "OP N";
    boardStr(H->pos.get(), out);
    out << '\n';
    H->ev->setWhiteContempt(contempt);
    tracked = H->nn();
    hookDepth = 0;
    H->ev->connectPosition(*H->pos);         // forceFullEval
    if (derivedMode) { dForce(); dDump(); }
}

static int nonKingCount(const Position& p) {
    return BitBoard::bitCount(p.occupiedBB() & ~p.pieceTypeBB(Piece::WKING, Piece::BKING));
}

static void runHist() {
    std::string line;
    while (std::getline(std::cin, line)) {
        if (line.empty()) continue;
        std::istringstream is(line);
        std::string cmd; is >> cmd;
        if (cmd == "H") {
            int c; is >> c; std::string fen; std::getline(is, fen);
            size_t b = fen.find_first_not_of(' ');
            newHistory(c, b == std::string::npos ? TextIO::startPosFEN : fen.substr(b));
            out << "T H\n";
            continue;
        }
        if (!H) continue;
        Position& pos = *H->pos;
        NNEvaluator& nn = *H->nn();
        if (cmd == "M") {
            long r; is >> r;
            MoveList ml; legalMoves(pos, ml);
            if (ml.size == 0 || nn.stack.stackTop >= NNEvaluator::maxStackSize - 8) { out << "T M skip\n"; continue; }
            // canonical order so that the choice does not depend on generator order
            std::vector<Move> mv; for (int i = 0; i < ml.size; i++) mv.push_back(ml[i]);
            std::sort(mv.begin(), mv.end(), [](const Move& a, const Move& b) {
                return a.getCompressedMove() < b.getCompressedMove(); });
            auto kindOf = [&pos](const Move& m) -> std::string {
                int p = pos.getPiece(m.from());
                std::string kind = "quiet";
                if (pos.getPiece(m.to()) != Piece::EMPTY) kind = m.promoteTo() ? "promcapture" : "capture";
                else if (m.promoteTo()) kind = "promotion";
                else if ((p == Piece::WPAWN || p == Piece::BPAWN) && m.to() == pos.getEpSquare()) kind = "ep";
                else if ((p == Piece::WKING || p == Piece::BKING) && std::abs(m.to().asInt() - m.from().asInt()) == 2) kind = "castle";
                else if (p == Piece::WKING || p == Piece::BKING) kind = "kingmove";
                if ((p == Piece::WKING || p == Piece::BKING) && pos.getPiece(m.to()) != Piece::EMPTY) kind = "kingcapture";
                return kind;
            };
            std::string want; is >> want;             // optional preferred kind
            if (!want.empty()) {
                std::vector<Move> sel;
                for (const Move& m : mv) if (kindOf(m) == want) sel.push_back(m);
                if (!sel.empty()) mv = sel;
            }
            Move m = mv[(size_t)(r % (long)mv.size())];
            Frame f; f.kind = 0; f.m = m;
            std::string kind = kindOf(m);
            derivedMakeMove(pos, m);
            pos.makeMove(m, f.ui);
            H->frames.push_back(f);
            dDump();
            out << "T M " << TextIO::moveToUCIString(m) << ' ' << kind << '\n';
        } else if (cmd == "U") {
            if (H->frames.empty()) { out << "T U skip\n"; continue; }
            Frame f = H->frames.back(); H->frames.pop_back();
            if (f.kind == 0) {
                pos.unMakeMove(f.m, f.ui);
                dPop(); dDump();
                out << "T U move" << (nn.stack.stackTop == 0 ? "" : "") << '\n';
            } else if (f.kind == 1) {
                pos.setEpSquare(Square(f.ep));
                pos.setWhiteMove(!pos.isWhiteMove());
                pos.setHalfMoveClock(f.hmc);
                dDump();
                out << "T U null\n";
            } else {
                dSet(f.sq, f.newP, f.oldP);
                pos.setPiece(Square(f.sq), f.oldP);
                dDump();
                out << "T U edit\n";
            }
            if (H->haveSnap && H->frames.size() < H->snapDepth) H->haveSnap = false;
        } else if (cmd == "N") {
            if (MoveGen::inCheck(pos)) { out << "T N skip\n"; continue; }
            Frame f; f.kind = 1; f.ep = pos.getEpSquare().asInt(); f.hmc = pos.getHalfMoveClock();
            pos.setWhiteMove(!pos.isWhiteMove());
            pos.setEpSquare(Square(-1));
            pos.setHalfMoveClock(0);
            H->frames.push_back(f);
            dDump();
            out << "T N\n";
        } else if (cmd == "X") {
            int sq, piece; is >> sq >> piece;
            sq = ((sq % 64) + 64) % 64; piece = ((piece % 13) + 13) % 13;
            int oldP = pos.getPiece(Square(sq));
            bool ok = oldP != Piece::WKING && oldP != Piece::BKING && piece != Piece::WKING && piece != Piece::BKING && piece != oldP;
            if (sq == 0 || sq == 7 || sq == 56 || sq == 63 || pos.getEpSquare().isValid()) ok = false;
            if (ok && (piece == Piece::WPAWN || piece == Piece::BPAWN) && (sq < 8 || sq >= 56)) ok = false;
            if (ok && oldP == Piece::EMPTY && nonKingCount(pos) >= 30) ok = false;
            if (ok) {
                Position t(pos); t.setPiece(Square(sq), piece);
                if (MoveGen::canTakeKing(t)) ok = false;
            }
            if (!ok) { out << "T X skip\n"; continue; }
            Frame f; f.kind = 2; f.sq = sq; f.oldP = oldP; f.newP = piece;
            dSet(sq, oldP, piece);
            pos.setPiece(Square(sq), piece);
            H->frames.push_back(f);
            dDump();
            out << "T X\n";
        } else if (cmd == "E") {
            dCompute();
            int v = nn.eval();
            if (derivedMode) dDump(true);
            else dumpLine(true);
            std::unique_ptr<Position> holder;
            std::shared_ptr<NNEvaluator> fr = freshNN(nn.netData, pos, holder);
            int v2 = fr->eval();
            bool same = v == v2;
            for (int c = 0; c < 2 && same; c++)
                same = memcmp(&nn.stack.flState[nn.stack.stackTop][c].l1Out, &fr->stack.flState[0][c].l1Out, sizeof(S16) * NetData::n1) == 0;
            same = same && memcmp(&nn.l1OutClipped, &fr->l1OutClipped, 2 * NetData::n1) == 0;
            fr->connectPosition(nullptr);
            out << "T E " << v << ' ' << v2 << (same ? " same" : " FRESHDIFF") << ' ' << TextIO::toFEN(pos) << '\n';
        } else if (cmd == "A") {
            H->snap.reset(new Position(pos)); H->snapDepth = H->frames.size(); H->haveSnap = true;
            out << "T A\n";
        } else if (cmd == "B") {
            if (!H->haveSnap) { out << "T B skip\n"; continue; }
            pos = *H->snap;                          // Position::operator= -> forceFullEval
            H->frames.resize(H->snapDepth);
            dForce(); dDump();
            out << "T B\n";
        } else if (cmd == "Y") {
            Position tmp(pos);
            pos = tmp;
            dForce(); dDump();
            out << "T Y\n";
        } else if (cmd == "Z") {
            Position::SerializeData d; pos.serialize(d);
            pos.deSerialize(d);
            dForce(); dDump();
            out << "T Z\n";
        } else if (cmd == "R") {
            tracked = nullptr;
            nn.connectPosition(nullptr);
            tracked = &nn; hookDepth = 0;
            H->ev->connectPosition(pos);
            dForce(); dDump();
            out << "T R\n";
        } else if (cmd == "L") {
            if (derivedMode || nn.stack.stackTop >= NNEvaluator::maxStackSize - 8) { out << "T L skip\n"; continue; }
            MoveList ml; MoveGen::pseudoLegalMoves(pos, ml);
            MoveGen::removeIllegal(pos, ml);         // makes/unmakes moves on the connected position
            out << "T L " << ml.size << '\n';
        } else if (cmd == "G") {
            int depth = 3, maxNodes = 2000; is >> depth >> maxNodes;
#ifdef C07_HAVE_H4
            Position kt(pos);
            if (!derivedMode && !MoveGen::canTakeKing(kt)) {
                runSearch(pos, depth, maxNodes, H->contempt);
                out << "T G\n";
                continue;
            }
#endif
            out << "T G skip\n";
        } else if (cmd == "Q") {
            // evalPos through the long-lived Evaluate (cache + incremental state) versus a fresh one,
            // the colour-swapped and (without castling rights) the mirrored position
            // did evalPos go through nn.eval() (cache miss)?  eval() rewrites all of l1OutClipped with
            // values >= 0, so a negative sentinel survives exactly on a cache hit
            nn.l1OutClipped(0) = -128;
            std::ostringstream pre;
            pre << "OP C"; posInputs(pos, pre); pre << '\n';
            int v = H->ev->evalPos();
            bool hit = nn.l1OutClipped(0) == -128;
            if (!hit) { if (derivedMode) out << pre.str(); dumpLine(true); }
            int vf = freshEvalPos(pos, H->contempt);
            Position sw = PosUtil::swapColors(pos);
            int vs = freshEvalPos(sw, -H->contempt);
            std::string mir = "-";
            if (pos.getCastleMask() == 0) {
                Position mx = PosUtil::mirrorX(pos);
                mir = std::to_string(freshEvalPos(mx, H->contempt));
            }
            out << "T Q " << v << ' ' << vf << ' ' << vs << ' ' << mir << ' ' << (hit ? "hit" : "miss")
                << ' ' << (H->ev->mhd && H->ev->mhd->endGame ? "eg" : "mg") << ' ' << TextIO::toFEN(pos) << '\n';
        }
        if (mainOut.tellp() > (1 << 16)) flushOut();
    }
    flushOut();
    flushSearchOut();
}

// ---- evaluation cache ------------------------------------------------------------------------
//   T            new tables (new EvalHashTables + Evaluate)
//   P <fen>      connect this position
//   C <c>        Evaluate::setWhiteContempt(c)
//   V            evalPos -> prints: key returned fresh(same contempt, new tables)
static void runCache() {
    std::unique_ptr<Evaluate::EvalHashTables> et;
    std::unique_ptr<Evaluate> ev;
    std::unique_ptr<Position> pos;
    int contempt = 0;
    std::string line;
    while (std::getline(std::cin, line)) {
        std::istringstream is(line);
        std::string cmd; is >> cmd;
        if (cmd == "T") {
            if (et) et->nnEval->connectPosition(nullptr);
            ev.reset(); et = Evaluate::getEvalHashTables(); ev.reset(new Evaluate(*et)); contempt = 0;
            if (pos) ev->connectPosition(*pos);
            std::cout << "T\n";
        } else if (cmd == "P") {
            std::string fen; std::getline(is, fen);
            size_t b = fen.find_first_not_of(' ');
            if (et) et->nnEval->connectPosition(nullptr);
            pos.reset(new Position(TextIO::readFEN(fen.substr(b))));
            if (ev) ev->connectPosition(*pos);
            std::cout << "P\n";
        } else if (cmd == "C") {
            is >> contempt;
            if (ev) ev->setWhiteContempt(contempt);
            std::cout << "C " << contempt << '\n';
        } else if (cmd == "V") {
            if (!ev || !pos) { std::cout << "V skip\n"; continue; }
            U64 key = pos->historyHash();
            int v = ev->evalPos();
            int vf = freshEvalPos(*pos, contempt);
            std::cout << "V " << key << ' ' << v << ' ' << vf << '\n';
        }
    }
}

int main(int argc, char** argv) {
    std::ios::sync_with_stdio(false);
    ComputerPlayer::initEngine();              // parameter listeners: piece values etc.
    std::string mode = argc > 1 ? argv[1] : "";
    if (mode == "dumpw") {
        std::unique_ptr<Evaluate::EvalHashTables> et = Evaluate::getEvalHashTables();
        const NetData& net = et->nnEval->netData;
        std::ofstream os(argv[2], std::ios::binary);
        os.write((const char*)&net.weight1.data[0], sizeof(net.weight1.data));
        os.write((const char*)&net.bias1.data[0], sizeof(net.bias1.data));
        std::cout << NetData::inFeatures << ' ' << NetData::n1 << std::endl;
        return os.good() ? 0 : 1;
    }
    if (mode == "hist") {
        derivedMode = true;
#ifdef C07_HAVE_H4
        derivedMode = argc > 2 && std::string(argv[2]) == "derived";
        nnVerifOpHook = hookFn;
#endif
        std::cout << "MODE " << (derivedMode ? "derived" : "hook") << '\n';
        runHist();
        return 0;
    }
    if (mode == "cache") { runCache(); return 0; }
    std::cerr << "usage: nn_harness dumpw <file> | hist [derived] | cache" << std::endl;
    return 2;
}
