// Correspondence / finder harness for C17 (move, position and game text formats).
//
// stdin commands, one per line (all byte strings are hex encoded, "-" = empty string):
//   WALK <seed> <plies> <fenhex>     random legal game from the FEN; one POS block per visited position
//   POS <fenhex>                     readFEN + all legal moves (real MoveGen) in the three text forms + parse-backs
//   STM <fenhex> <hex> <hex> ...     TextIO::stringToMove(readFEN(fen), s) for every string
//   UCM <hex> <hex> ...              TextIO::uciStringToMove(s) for every string
//   FEN <hex>                        TextIO::readFEN on an arbitrary byte string
//   UCI <hex> <hex> ...              one UCI session: every line through the real UCIProtocol::handleCommand
//                                    (lines whose first token is isready/setoption/go need the engine object and are
//                                    skipped here; they are driven through the real binary by the check)
//   PGNRT <seed> <size> <fenhex>     random game tree (variations, comments, NAGs): write, parse with PgnReader, compare
//   PGNTS <seed> <size> <fenhex>     random game tree: GameTree::getGameTreeString (the repo's own writer), parse, compare
//   PGNTXT <seed> <size> <fenhex>    only print the PGN text of such a tree ("X <hex>"), as a base for mutation
//   SCAN <hex>                       PgnScanner::nextToken until END on arbitrary bytes: "K <type>:<hex text> ..." (modelled)
//   PGN <hex>                        PgnReader on arbitrary bytes (must return or throw ChessParseError)
//
// stdout: lines starting with a lower-case keyword are operations (fed verbatim to the OCaml driver of
// the model), lines starting with an upper-case letter are observations the model must reproduce byte
// for byte, except 'T', 'A', 'G' and 'X' lines (PGN checks: implementation only, no model).
//   pos <fenhex>     -> "E <code>"  |  "P <state>" , "R <readFEN(toFEN(p)) == p> <toFEN hex>" , "M <uci>:<short>:<long>:<ps>:<pl>:<pu>:<n|c<replies>> ..." (sorted by uci; "M -")
//   stm <fenhex> ..  -> "E <code>"  |  "S f.t.p f.t.p ..."
//   ucm ..           -> "V f.t.p ..."
//   fen <hex>        -> "E <code>"  |  "P <state>"
//   uci ..           -> "U <state> | <moves>" once per line of the session
#include <cstdio>
#include <cstdlib>
#include <cstring>
#include <iostream>
#include <sstream>
#include <string>
#include <vector>
#include <algorithm>
#include <array>
#include <atomic>
#include <chrono>
#include <condition_variable>
#include <deque>
#include <fstream>
#include <functional>
#include <iomanip>
#include <limits>
#include <map>
#include <memory>
#include <mutex>
#include <random>
#include <set>
#include <thread>
#include <type_traits>
#include <unordered_map>
#include <unordered_set>
#include <utility>
#include <cassert>
#include <cmath>
#include <climits>
#include <cstdint>
#define private public
#define protected public
#include "position.hpp"
#include "textio.hpp"
#include "moveGen.hpp"
#include "computerPlayer.hpp"
#include "gametree.hpp"
#include "enginecontrol.hpp"
#include "uciprotocol.hpp"
#undef private
#undef protected

typedef unsigned long long u64;

struct Rng {
    u64 s;
    explicit Rng(u64 seed) : s(seed * 0x9E3779B97F4A7C15ULL + 0x1234567ULL) { next(); next(); }
    u64 next() { s ^= s >> 12; s ^= s << 25; s ^= s >> 27; return s * 0x2545F4914F6CDD1DULL; }
    int below(int n) { return (int)((next() >> 11) % (u64)n); }
    bool chance(int pct) { return below(100) < pct; }
};

static std::string toHexStr(const std::string& s) {
    if (s.empty()) return "-";
    std::string r; char b[4];
    for (unsigned char c : s) { snprintf(b, sizeof b, "%02x", c); r += b; }
    return r;
}
static std::string fromHexStr(const std::string& h) {
    std::string r;
    if (h == "-") return r;
    for (size_t i = 0; i + 1 < h.size(); i += 2) r += (char)strtol(h.substr(i, 2).c_str(), nullptr, 16);
    return r;
}

static int errCode(const std::string& msg) {
    static const char* names[] = {"Too many rows", "Invalid piece", "Too many columns", "Pawn on first/last rank",
        "Invalid side", "Invalid castling flags", "Invalid en passant square", "White must have exactly one king",
        "Black must have exactly one king", "King capture possible"};
    for (int i = 0; i < 10; i++) if (msg == names[i]) return i;
    return 99;
}

static std::string state(const Position& pos) {
    std::ostringstream os;
    for (int sq = 0; sq < 64; sq++) os << ".KQRBNPkqrbnp"[pos.getPiece(Square(sq))];
    os << ' ' << (pos.isWhiteMove() ? 'w' : 'b') << ' ' << pos.getCastleMask() << ' ' << pos.getEpSquare().asInt()
       << ' ' << pos.getHalfMoveClock() << ' ' << pos.getFullMoveCounter();
    return os.str();
}

static std::string mvNum(const Move& m) {
    std::ostringstream os;
    os << m.from().asInt() << '.' << m.to().asInt() << '.' << m.promoteTo();
    return os.str();
}

static void legalMoves(const Position& pos0, std::vector<Move>& out) {
    Position pos(pos0);           // MoveGen::isLegal scribbles on pieceTypeBB_[EMPTY] of its argument
    MoveList ml;
    MoveGen::pseudoLegalMoves(pos, ml);
    MoveGen::removeIllegal(pos, ml);
    out.clear();
    for (int i = 0; i < ml.size; i++) out.push_back(ml[i]);
}

// ---------------------------------------------------------------- POS
static void doPos(std::ostream& out, const std::string& fen) {
    out << "pos " << toHexStr(fen) << '\n';
    Position pos;
    try {
        pos = TextIO::readFEN(fen);
    } catch (const ChessParseError& e) {
        out << "E " << errCode(e.what()) << '\n';
        return;
    }
    out << "P " << state(pos) << '\n';
    {   // specification-level round trip: readFEN(toFEN(pos)) is pos
        std::string f2 = TextIO::toFEN(pos);
        int same = 0;
        try { Position q = TextIO::readFEN(f2); same = state(q) == state(pos) ? 1 : 0; } catch (const ChessParseError&) { same = 0; }
        out << "R " << same << ' ' << toHexStr(f2) << '\n';
    }
    std::vector<Move> ml;
    legalMoves(pos, ml);
    std::vector<std::string> items;
    for (const Move& m : ml) {
        std::string uci = TextIO::moveToUCIString(m);
        std::string sh = TextIO::moveToString(pos, m, false);
        std::string lo = TextIO::moveToString(pos, m, true);
        Position p1(pos), p2(pos);
        Move ps = TextIO::stringToMove(p1, sh);
        Move pl = TextIO::stringToMove(p2, lo);
        Move pu = TextIO::uciStringToMove(uci);
        // the facts the check / mate suffix stands for, from make + MoveGen: "n" no check, "c<replies>" check
        std::string ck = "n";
        {
            Position p3(pos);
            UndoInfo ui;
            p3.makeMove(m, ui);
            if (MoveGen::inCheck(p3)) {
                std::vector<Move> replies;
                legalMoves(p3, replies);
                ck = "c" + std::to_string(replies.size());
            }
        }
        items.push_back(uci + ":" + sh + ":" + lo + ":" + mvNum(ps) + ":" + mvNum(pl) + ":" + mvNum(pu) + ":" + ck);
    }
    std::sort(items.begin(), items.end());
    out << "M";
    if (items.empty()) out << " -";
    for (const std::string& s : items) out << ' ' << s;
    out << '\n';
}

static void walk(std::ostream& out, u64 seed, int plies, const std::string& fen) {
    Rng rng(seed);
    Position pos;
    try { pos = TextIO::readFEN(fen); } catch (const ChessParseError&) { doPos(out, fen); return; }
    for (int ply = 0; ply <= plies; ply++) {
        doPos(out, TextIO::toFEN(pos));
        std::vector<Move> ml;
        legalMoves(pos, ml);
        if (ml.empty() || pos.getHalfMoveClock() >= 100) break;
        // bias: promotions, captures and castling are preferred now and then
        Move m = ml[rng.below((int)ml.size())];
        if (rng.chance(35)) {
            std::vector<Move> pref;
            for (const Move& c : ml) {
                int p = pos.getPiece(c.from());
                bool castle = (p == Piece::WKING || p == Piece::BKING) && abs(c.to().asInt() - c.from().asInt()) == 2;
                bool pawn7 = (p == Piece::WPAWN && c.from().getY() >= 4) || (p == Piece::BPAWN && c.from().getY() <= 3);
                if (c.promoteTo() != Piece::EMPTY || castle || pawn7 || (pos.getPiece(c.to()) != Piece::EMPTY && rng.chance(50)))
                    pref.push_back(c);
            }
            if (!pref.empty()) m = pref[rng.below((int)pref.size())];
        }
        UndoInfo ui;
        pos.makeMove(m, ui);
    }
}

// ---------------------------------------------------------------- PGN trees
struct TNode {
    Move move;
    int nag = 0;
    std::string pre, post;
    std::vector<TNode> children;
};

static std::string rndComment(Rng& rng) {
    static const char alpha[] = "abcdefghijklmnopqrstuvwxyzABCDEFGHIJKLMNOPQRSTUVWXYZ0123456789 .,;:!?()[]$\"'-+=*/\\#<>_\n\t";
    int n = 1 + rng.below(rng.chance(10) ? 200 : 24);
    std::string s;
    for (int i = 0; i < n; i++) s += alpha[rng.below((int)sizeof(alpha) - 1)];
    return s;
}

struct TreeStats { int nodes = 0, vars = 0, comments = 0, nags = 0, depth = 0; };

// build a line of up to len moves below node `n` from position pos; variations are added at random
static void buildLine(Rng& rng, Position pos, TNode& n, int len, int budgetVar, bool comments, TreeStats& st, int depth, bool firstOfLine) {
    TNode* cur = &n;
    st.depth = std::max(st.depth, depth);
    for (int i = 0; i < len; i++) {
        std::vector<Move> ml;
        legalMoves(pos, ml);
        if (ml.empty()) return;
        int nVar = (budgetVar > 0 && rng.chance(30)) ? 1 + rng.below(std::min(3, (int)ml.size())) : 1;
        nVar = std::min(nVar, (int)ml.size());
        // distinct moves for main move and variations
        std::vector<Move> pick;
        while ((int)pick.size() < nVar) {
            Move m = ml[rng.below((int)ml.size())];
            bool dup = false;
            for (const Move& q : pick) dup = dup || (q == m);
            if (!dup) pick.push_back(m);
        }
        cur->children.resize(pick.size());
        for (size_t k = 0; k < pick.size(); k++) {
            TNode& c = cur->children[k];
            c.move = pick[k];
            st.nodes++;
            if (comments) {
                if (rng.chance(25)) { c.nag = rng.chance(50) ? 1 + rng.below(6) : 1 + rng.below(250); st.nags++; }
                if (rng.chance(25)) { c.post = rndComment(rng); st.comments++; }
                // a comment before a move is only attributed to that move at the start of a line
                if ((k > 0 || firstOfLine) && rng.chance(30)) { c.pre = rndComment(rng); st.comments++; }
            }
        }
        for (size_t k = 1; k < pick.size(); k++) {
            st.vars++;
            Position p2(pos);
            UndoInfo ui;
            p2.makeMove(pick[k], ui);
            buildLine(rng, p2, cur->children[k], rng.below(5), budgetVar - 1, comments, st, depth + 1, false);
        }
        UndoInfo ui;
        pos.makeMove(pick[0], ui);
        // cur->children may not be resized any more: take the address now
        cur = &cur->children[0];
        firstOfLine = false;
    }
}

static std::string escComment(const std::string& s) {
    std::string r;
    for (char c : s) if (c != '}' && c != '%') r += c;      // '}' ends a brace comment; '%' after a newline is the PGN escape
    return r;
}

// ---- the harness's own PGN writer (the repo has no writer for comments/NAGs) ----
// The tree is first turned into a TOKEN list; the printer then chooses, per token boundary and from the
// seeded generator, whether the two tokens are glued or separated (blank, tab, line break, CR LF, several).
// Gluing is allowed wherever the PGN token grammar allows it, i.e. everywhere except
//   symbol|integer followed by symbol|integer   (they would merge:  "e4 e5", "e4 2", "1 e4")
//   NAG followed by a token starting with a digit ("$1 2." , "$1 1-0")
// so every push-back / look-ahead site of PgnScanner::nextToken is exercised:
//   (S1) the character ending a NAG is pushed back:     $1)  $1(  $1{  $1;  $1$2  $1Nf3  $1*  $1<eof>
//   (S2) the character ending a symbol/integer is pushed back:  e4)  e4(  e4{  e4;  e4$1  e4*  1.  Event"x"  e4<eof>
//   (S3) getTokenChar delivers the pushed-back character first (the glued token is the next token)
//   (S4) end of input is turned into one '\n' (a token at the very end of the text, no trailing blank)
//   (S5) '{'...'}' and ';'...EOL comments and '"' strings end on their own delimiter (no push-back): }x  "]
enum PK { K_LBRACKET, K_RBRACKET, K_TAGNAME, K_STRING, K_INT, K_PERIOD, K_MOVE, K_NAG, K_LPAREN, K_RPAREN,
          K_BRACE, K_LINE, K_RESULT, K_ASTERISK, K_NKINDS };
static const char* pkName[] = {"lbracket", "rbracket", "tagname", "string", "int", "period", "move", "nag", "lparen", "rparen",
                               "brace", "linecomment", "result", "asterisk"};
struct PTok { int kind; std::string text; };

static bool symbolLike(int k) { return k == K_MOVE || k == K_INT || k == K_RESULT || k == K_TAGNAME; }
static bool needSep(const PTok& a, const PTok& b) {
    if (symbolLike(a.kind) && symbolLike(b.kind)) return true;
    if (a.kind == K_NAG && !b.text.empty() && isdigit((unsigned char)b.text[0])) return true;
    return false;
}

static void emitComment(std::vector<PTok>& out, Rng& rng, const std::string& raw, bool allowLine) {
    std::string t = escComment(raw);
    if (t.empty()) return;
    // the parser concatenates consecutive comments: some are written in two pieces, some as rest-of-line comments
    if (t.size() >= 2 && rng.chance(35)) {
        size_t k = 1 + rng.below((int)t.size() - 1);
        out.push_back({K_BRACE, "{" + t.substr(0, k) + "}"});
        out.push_back({K_BRACE, "{" + t.substr(k) + "}"});
    } else if (allowLine && t.find('\n') == std::string::npos && t.find('\r') == std::string::npos && rng.chance(30)) {
        out.push_back({K_LINE, ";" + t + (rng.chance(80) ? "\n" : "\r")});
    } else {
        out.push_back({K_BRACE, "{" + t + "}"});
    }
}

static void emitLine(std::vector<PTok>& out, Rng& rng, Position pos, const TNode& n, bool longForm) {
    if (n.children.empty()) return;
    const TNode& main = n.children[0];
    auto emitMove = [&](const TNode& c) {
        if (!c.pre.empty()) emitComment(out, rng, c.pre, true);
        bool number = pos.isWhiteMove() ? rng.chance(85) : rng.chance(40);
        if (number) {
            out.push_back({K_INT, std::to_string(pos.getFullMoveCounter())});
            int dots = pos.isWhiteMove() ? 1 : 3;
            for (int i = 0; i < dots; i++) out.push_back({K_PERIOD, "."});
        }
        std::string ms = TextIO::moveToString(pos, c.move, longForm);
        bool glyph = c.nag >= 1 && c.nag <= 6 && rng.chance(50);
        static const char* glyphs[] = {"", "!", "?", "!!", "??", "!?", "?!"};
        if (glyph) ms += glyphs[c.nag];
        out.push_back({K_MOVE, ms});
        bool nagFirst = rng.chance(50);
        // the parser keeps the LAST NAG of a move: sometimes a decoy NAG is written in front of the real one
        auto emitNag = [&]() {
            if (rng.chance(15)) out.push_back({K_NAG, "$" + std::to_string(1 + rng.below(250))});
            out.push_back({K_NAG, "$" + std::to_string(c.nag)});
        };
        if (c.nag > 0 && !glyph && nagFirst) emitNag();
        if (!c.post.empty()) emitComment(out, rng, c.post, true);
        if (c.nag > 0 && !glyph && !nagFirst) emitNag();
    };
    emitMove(main);
    for (size_t k = 1; k < n.children.size(); k++) {
        out.push_back({K_LPAREN, "("});
        emitMove(n.children[k]);
        Position p2(pos);
        UndoInfo ui;
        p2.makeMove(n.children[k].move, ui);
        emitLine(out, rng, p2, n.children[k], longForm);
        out.push_back({K_RPAREN, ")"});
    }
    UndoInfo ui;
    pos.makeMove(main.move, ui);
    emitLine(out, rng, pos, main, longForm);
}

// glued adjacency classes "<kind><kind>" and the number of separated boundaries, per text
static std::string printTokens(const std::vector<PTok>& toks, Rng& rng, std::map<std::string, int>& classes, bool trailing) {
    static const char* seps[] = {" ", " ", " ", "\n", "  ", "\t", " \n", "\r\n", "\n\n"};
    std::string text;
    int glueBias = rng.below(3);      // 0: mostly spaced, 1: mixed, 2: as compact as the grammar allows
    for (size_t i = 0; i < toks.size(); i++) {
        if (i > 0) {
            const PTok& a = toks[i - 1];
            const PTok& b = toks[i];
            bool must = needSep(a, b);
            bool glue = !must && (glueBias == 2 ? rng.chance(92) : glueBias == 1 ? rng.chance(50) : rng.chance(15));
            if (glue) {
                classes[std::string(pkName[a.kind]) + "+" + pkName[b.kind]]++;
            } else {
                text += seps[rng.below((int)(sizeof(seps) / sizeof(seps[0])))];
                classes[must ? "separated(required)" : "separated(optional)"]++;
            }
        }
        text += toks[i].text;
    }
    if (trailing) text += rng.chance(50) ? "\n" : " ";
    else if (!toks.empty()) classes[std::string(pkName[toks.back().kind]) + "+eof"]++;
    return text;
}

static bool sameTree(const TNode& a, const std::shared_ptr<Node>& b, bool withText, std::string& why) {
    if (a.children.size() != b->getChildren().size()) {
        std::ostringstream os; os << "child count " << a.children.size() << " vs " << b->getChildren().size();
        why = os.str(); return false;
    }
    for (size_t i = 0; i < a.children.size(); i++) {
        const TNode& x = a.children[i];
        const std::shared_ptr<Node>& y = b->getChildren()[i];
        if (!(x.move == y->getMove())) { why = "move " + TextIO::moveToUCIString(x.move) + " vs " + TextIO::moveToUCIString(y->getMove()); return false; }
        if (y->getParent() != b) { why = "parent link"; return false; }
        if (withText) {
            if (x.nag != y->getNag()) { std::ostringstream os; os << "nag " << x.nag << " vs " << y->getNag(); why = os.str(); return false; }
            if (escComment(x.pre) != y->getPreComment()) { why = "preComment"; return false; }
            if (escComment(x.post) != y->getPostComment()) { why = "postComment"; return false; }
        }
        if (!sameTree(x, y, withText, why)) return false;
    }
    return true;
}

// both trees in one notation (PGN order), for the replay: move[$nag][{pre|post}] ( variation ) ...
static void dumpT(std::string& o, const TNode& n) {
    if (n.children.empty()) return;
    auto one = [&](const TNode& x) {
        o += TextIO::moveToUCIString(x.move);
        if (x.nag) o += "$" + std::to_string(x.nag);
        if (!x.pre.empty() || !x.post.empty()) o += "{" + escComment(x.pre) + "|" + escComment(x.post) + "}";
        o += " ";
    };
    one(n.children[0]);
    for (size_t k = 1; k < n.children.size(); k++) {
        o += "( ";
        one(n.children[k]);
        dumpT(o, n.children[k]);
        o += ") ";
    }
    dumpT(o, n.children[0]);
}
static void toTNode(const std::shared_ptr<Node>& n, TNode& t) {
    for (const auto& ch : n->getChildren()) {
        TNode c;
        c.move = ch->getMove(); c.nag = ch->getNag(); c.pre = ch->getPreComment(); c.post = ch->getPostComment();
        toTNode(ch, c);
        t.children.push_back(c);
    }
}
static std::string dumpExpected(const TNode& root) { std::string o; dumpT(o, root); return toHexStr(o); }
static std::string dumpParsed(const std::shared_ptr<Node>& root) { TNode t; toTNode(root, t); std::string o; dumpT(o, t); return toHexStr(o); }

static void pgnRoundTrip(std::ostream& out, u64 seed, int size, const std::string& fen, bool ownWriter, bool textOnly = false) {
    Rng rng(seed);
    Position start;
    try { start = TextIO::readFEN(fen); } catch (const ChessParseError&) { out << "T 0 bad-start-fen\n"; return; }
    TNode root;
    TreeStats st;
    buildLine(rng, start, root, size, 3, ownWriter, st, 0, true);
    std::string text;
    std::string startFen = TextIO::toFEN(start);
    bool std0 = startFen == TextIO::startPosFEN;
    std::map<std::string, int> classes;
    if (ownWriter) {
        std::vector<PTok> toks;
        auto tag = [&](const std::string& name, const std::string& quoted) {
            toks.push_back({K_LBRACKET, "["}); toks.push_back({K_TAGNAME, name});
            toks.push_back({K_STRING, quoted}); toks.push_back({K_RBRACKET, "]"});
        };
        tag("Event", "\"c17 \\\"quoted\\\" \\\\ event\"");
        tag("Site", "\"?\"");
        if (!std0 || rng.chance(50)) { tag("SetUp", "\"1\""); tag("FEN", "\"" + startFen + "\""); }
        bool longForm = rng.chance(25);
        emitLine(toks, rng, start, root, longForm);
        // the game termination marker, sometimes missing (the last move / NAG / comment then ends the text)
        static const char* results[] = {"1-0", "0-1", "1/2-1/2", "*"};
        if (rng.chance(80)) {
            int r = rng.below(4);
            toks.push_back({r == 3 ? K_ASTERISK : K_RESULT, results[r]});
        }
        text = printTokens(toks, rng, classes, rng.chance(60));
    } else {
        // the repo's own writer: GameTree built through GameNode::insertMove, then getGameTreeString
        GameTree gt;
        gt.setStartPos(start);
        std::function<void(GameNode&, const TNode&)> ins = [&](GameNode& gn, const TNode& n) {
            for (size_t k = 0; k < n.children.size(); k++) {
                gn.insertMove(n.children[k].move);
                gn.goForward((int)k);
                ins(gn, n.children[k]);
                gn.goBack();
            }
        };
        GameNode gn = gt.getRootNode();
        ins(gn, root);
        std::string s;
        std::set<GameTree::RangeToNode> ranges;
        gt.getGameTreeString(s, ranges);
        if ((int)ranges.size() != st.nodes) { out << "T 0 getGameTreeString-ranges " << ranges.size() << " nodes " << st.nodes << '\n'; return; }
        text = "[FEN \"" + startFen + "\"]\n" + s + " *\n";
    }
    if (textOnly) { out << "X " << toHexStr(text) << '\n'; return; }
    std::istringstream is(text);
    PgnReader reader(is);
    GameTree tree;
    bool ok;
    try {
        ok = reader.readPGN(tree);
    } catch (const ChessParseError& e) {
        out << "T 0 parse-error:" << e.what() << " text=" << toHexStr(text) << " want=" << dumpExpected(root) << " got=-" << '\n';
        return;
    }
    if (!ok) { out << "T 0 readPGN-false text=" << toHexStr(text) << '\n'; return; }
    GameNode rn = tree.getRootNode();
    if (TextIO::toFEN(rn.getPos()) != startFen) { out << "T 0 start-position text=" << toHexStr(text) << '\n'; return; }
    std::string why;
    if (!sameTree(root, rn.getNode(), ownWriter, why)) {
        out << "T 0 tree-differs:" << why << " text=" << toHexStr(text) << " want=" << dumpExpected(root) << " got=" << dumpParsed(rn.getNode()) << '\n';
        return;
    }
    if (ownWriter) {
        std::map<std::string, std::string> hd;
        tree.getHeaders(hd);
        if (hd["Event"] != "c17 \"quoted\" \\ event") { out << "T 0 header-event text=" << toHexStr(text) << '\n'; return; }
    }
    out << "T 1 " << st.nodes << ' ' << st.vars << ' ' << st.comments << ' ' << st.nags << ' ' << st.depth << '\n';
    if (!classes.empty()) {
        out << "A";
        for (const auto& kv : classes) out << ' ' << kv.first << '=' << kv.second;
        out << '\n';
    }
}

static int countNodes(const std::shared_ptr<Node>& n) {
    int c = 1;
    for (const auto& ch : n->getChildren()) c += countNodes(ch);
    return c;
}

static void pgnBytes(std::ostream& out, const std::string& bytes) {
    std::istringstream is(bytes);
    PgnReader reader(is);
    int games = 0, nodes = 0, errors = 0;
    for (int k = 0; k < 5000; k++) {
        GameTree tree;
        try {
            if (!reader.readPGN(tree)) break;
            games++;
            nodes += countNodes(tree.getRootNode().getNode()) - 1;
        } catch (const ChessParseError&) {
            errors++;
            if (errors > 200) break;
        }
    }
    out << "G " << games << ' ' << nodes << ' ' << errors << '\n';
}

// ---------------------------------------------------------------- UCI lines
static void uciSession(std::ostream& out, const std::vector<std::string>& lines) {
    out << "uci";
    for (const std::string& l : lines) out << ' ' << toHexStr(l);
    out << '\n';
    std::istringstream is("");
    std::ostringstream os;
    UCIProtocol uci(is, os);
    for (const std::string& l : lines) {
        std::vector<std::string> toks;
        uci.tokenize(l, toks);
        bool needsEngine = !toks.empty() && (toks[0] == "isready" || toks[0] == "setoption" || toks[0] == "go");
        if (!needsEngine)
            uci.handleCommand(l, os);
        out << "U " << state(uci.pos) << " |";
        for (const Move& m : uci.moves) out << ' ' << mvNum(m);
        out << '\n';
    }
}

int main() {
    ComputerPlayer::initEngine();
    std::ios::sync_with_stdio(false);
    std::string line;
    std::ostream& out = std::cout;
    while (std::getline(std::cin, line)) {
        std::istringstream is(line);
        std::string cmd; is >> cmd;
        if (cmd == "WALK") {
            u64 seed; int plies; std::string h; is >> seed >> plies >> h;
            walk(out, seed, plies, fromHexStr(h));
        } else if (cmd == "POS") {
            std::string h; is >> h;
            doPos(out, fromHexStr(h));
        } else if (cmd == "STM") {
            std::string h; is >> h;
            std::vector<std::string> hs; std::string x;
            while (is >> x) hs.push_back(x);
            out << "stm " << h;
            for (const std::string& s : hs) out << ' ' << s;
            out << '\n';
            Position pos;
            bool ok = true;
            try { pos = TextIO::readFEN(fromHexStr(h)); } catch (const ChessParseError& e) { out << "E " << errCode(e.what()) << '\n'; ok = false; }
            if (ok) {
                out << "S";
                for (const std::string& s : hs) {
                    Position p(pos);
                    out << ' ' << mvNum(TextIO::stringToMove(p, fromHexStr(s)));
                }
                out << '\n';
            }
        } else if (cmd == "UCM") {
            std::vector<std::string> hs; std::string x;
            while (is >> x) hs.push_back(x);
            out << "ucm";
            for (const std::string& s : hs) out << ' ' << s;
            out << "\nV";
            for (const std::string& s : hs) out << ' ' << mvNum(TextIO::uciStringToMove(fromHexStr(s)));
            out << '\n';
        } else if (cmd == "FEN") {
            std::string h; is >> h;
            out << "fen " << h << '\n';
            try {
                Position pos = TextIO::readFEN(fromHexStr(h));
                out << "P " << state(pos) << '\n';
            } catch (const ChessParseError& e) {
                out << "E " << errCode(e.what()) << '\n';
            }
        } else if (cmd == "UCI") {
            std::vector<std::string> lines; std::string x;
            while (is >> x) lines.push_back(fromHexStr(x));
            uciSession(out, lines);
        } else if (cmd == "PGNRT" || cmd == "PGNTS") {
            u64 seed; int size; std::string h; is >> seed >> size >> h;
            pgnRoundTrip(out, seed, size, fromHexStr(h), cmd == "PGNRT");
        } else if (cmd == "PGNTXT") {
            u64 seed; int size; std::string h; is >> seed >> size >> h;
            pgnRoundTrip(out, seed, size, fromHexStr(h), (seed & 1) != 0, true);
        } else if (cmd == "SCAN") {
            // the tokenizer alone: every token PgnScanner::nextToken delivers before the first END
            std::string h; is >> h;
            out << "scan " << h << '\n';
            std::istringstream ps(fromHexStr(h));
            PgnScanner sc(ps);
            out << "K";
            for (int n = 0; n < 200000; n++) {
                PgnToken t = sc.nextToken();
                if (t.type == PgnToken::END) break;
                out << ' ' << t.type << ':' << toHexStr(t.token);
            }
            out << '\n';
        } else if (cmd == "PGN") {
            std::string h; is >> h;
            pgnBytes(out, fromHexStr(h));
        }
        out.flush();
    }
    return 0;
}
