// Correspondence / finder harness for C17 (move, position and game text formats).
//
// stdin commands, one per line (all byte strings are hex encoded, "-" = empty string):
//   WALK <seed> <plies> <fenhex>     random legal game from the FEN; one POS block per visited position
//   POS <fenhex>                     readFEN + all legal moves (real MoveGen) in the three text forms + parse-backs
//   STM <fenhex> <hex> <hex> ...     TextIO::stringToMove(readFEN(fen), s) for every string
//   UCM <hex> <hex> ...              TextIO::uciStringToMove(s) for every string
//   FEN <hex>                        TextIO::readFEN on an arbitrary byte string
//   UCI <hex> <hex> ...              one UCI session: every line through the real UCIProtocol::handleCommand
//                                    (lines whose first token is isready/setoption/go need the engine object and are
//                                    skipped here; they are driven through the real binary by the check)
//   PGNRT <seed> <size> <fenhex>     random game tree (variations, comments, NAGs): write, parse with PgnReader, compare
//   PGNTS <seed> <size> <fenhex>     random game tree: GameTree::getGameTreeString (the repo's own writer), parse, compare
//   PGNTXT <seed> <size> <fenhex>    only print the PGN text of such a tree ("X <hex>"), as a base for mutation
//   PGN <hex>                        PgnReader on arbitrary bytes (must return or throw ChessParseError)
//
// stdout: lines starting with a lower-case keyword are operations (fed verbatim to the OCaml driver of
// the model), lines starting with an upper-case letter are observations the model must reproduce byte
// for byte, except 'T', 'G' and 'X' lines (PGN checks: implementation only, no model).
//   pos <fenhex>     -> "E <code>"  |  "P <state>" , "R <readFEN(toFEN(p)) == p> <toFEN hex>" , "M <uci>:<short>:<long>:<ps>:<pl>:<pu>:<n|c<replies>> ..." (sorted by uci; "M -")
//   stm <fenhex> ..  -> "E <code>"  |  "S f.t.p f.t.p ..."
//   ucm ..           -> "V f.t.p ..."
//   fen <hex>        -> "E <code>"  |  "P <state>"
//   uci ..           -> "U <state> | <moves>" once per line of the session
#include <cstdio>
#include <cstdlib>
#include <cstring>
#include <iostream>
#include <sstream>
#include <string>
#include <vector>
#include <algorithm>
#include <array>
#include <atomic>
#include <chrono>
#include <condition_variable>
#include <deque>
#include <fstream>
#include <functional>
#include <iomanip>
#include <limits>
#include <map>
#include <memory>
#include <mutex>
#include <random>
#include <set>
#include <thread>
#include <type_traits>
#include <unordered_map>
#include <unordered_set>
#include <utility>
#include <cassert>
#include <cmath>
#include <climits>
#include <cstdint>
#define private public
#define protected public
#include "position.hpp"
#include "textio.hpp"
#include "moveGen.hpp"
#include "computerPlayer.hpp"
#include "gametree.hpp"
#include "enginecontrol.hpp"
#include "uciprotocol.hpp"
#undef private
#undef protected

typedef unsigned long long u64;

struct Rng {
    u64 s;
    explicit Rng(u64 seed) : s(seed * 0x9E3779B97F4A7C15ULL + 0x1234567ULL) { next(); next(); }
    u64 next() { s ^= s >> 12; s ^= s << 25; s ^= s >> 27; return s * 0x2545F4914F6CDD1DULL; }
    int below(int n) { return (int)((next() >> 11) % (u64)n); }
    bool chance(int pct) { return below(100) < pct; }
};

static std::string toHexStr(const std::string& s) {
    if (s.empty()) return "-";
    std::string r; char b[4];
    for (unsigned char c : s) { snprintf(b, sizeof b, "%02x", c); r += b; }
    return r;
}
static std::string fromHexStr(const std::string& h) {
    std::string r;
    if (h == "-") return r;
    for (size_t i = 0; i + 1 < h.size(); i += 2) r += (char)strtol(h.substr(i, 2).c_str(), nullptr, 16);
    return r;
}

static int errCode(const std::string& msg) {
    static const char* names[] = {"Too many rows", "Invalid piece", "Too many columns", "Pawn on first/last rank",
        "Invalid side", "Invalid castling flags", "Invalid en passant square", "White must have exactly one king",
        "Black must have exactly one king", "King capture possible"};
    for (int i = 0; i < 10; i++) if (msg == names[i]) return i;
    return 99;
}

static std::string state(const Position& pos) {
    std::ostringstream os;
    for (int sq = 0; sq < 64; sq++) os << ".KQRBNPkqrbnp"[pos.getPiece(Square(sq))];
    os << ' ' << (pos.isWhiteMove() ? 'w' : 'b') << ' ' << pos.getCastleMask() << ' ' << pos.getEpSquare().asInt()
       << ' ' << pos.getHalfMoveClock() << ' ' << pos.getFullMoveCounter();
    return os.str();
}

static std::string mvNum(const Move& m) {
    std::ostringstream os;
    os << m.from().asInt() << '.' << m.to().asInt() << '.' << m.promoteTo();
    return os.str();
}

static void legalMoves(const Position& pos0, std::vector<Move>& out) {
    Position pos(pos0);           // MoveGen::isLegal scribbles on pieceTypeBB_[EMPTY] of its argument
    MoveList ml;
    MoveGen::pseudoLegalMoves(pos, ml);
    MoveGen::removeIllegal(pos, ml);
    out.clear();
    for (int i = 0; i < ml.size; i++) out.push_back(ml[i]);
}

// ---------------------------------------------------------------- POS
static void doPos(std::ostream& out, const std::string& fen) {
    out << "pos " << toHexStr(fen) << '\n';
    Position pos;
    try {
        pos = TextIO::readFEN(fen);
    } catch (const ChessParseError& e) {
        out << "E " << errCode(e.what()) << '\n';
        return;
    }
    out << "P " << state(pos) << '\n';
    {   // specification-level round trip: readFEN(toFEN(pos)) is pos
        std::string f2 = TextIO::toFEN(pos);
        int same = 0;
        try { Position q = TextIO::readFEN(f2); same = state(q) == state(pos) ? 1 : 0; } catch (const ChessParseError&) { same = 0; }
        out << "R " << same << ' ' << toHexStr(f2) << '\n';
    }
    std::vector<Move> ml;
    legalMoves(pos, ml);
    std::vector<std::string> items;
    for (const Move& m : ml) {
        std::string uci = TextIO::moveToUCIString(m);
        std::string sh = TextIO::moveToString(pos, m, false);
        std::string lo = TextIO::moveToString(pos, m, true);
        Position p1(pos), p2(pos);
        Move ps = TextIO::stringToMove(p1, sh);
        Move pl = TextIO::stringToMove(p2, lo);
        Move pu = TextIO::uciStringToMove(uci);
        // the facts the check / mate suffix stands for, from make + MoveGen: "n" no check, "c<replies>" check
        std::string ck = "n";
        {
            Position p3(pos);
            UndoInfo ui;
            p3.makeMove(m, ui);
            if (MoveGen::inCheck(p3)) {
                std::vector<Move> replies;
                legalMoves(p3, replies);
                ck = "c" + std::to_string(replies.size());
            }
        }
        items.push_back(uci + ":" + sh + ":" + lo + ":" + mvNum(ps) + ":" + mvNum(pl) + ":" + mvNum(pu) + ":" + ck);
    }
    std::sort(items.begin(), items.end());
    out << "M";
    if (items.empty()) out << " -";
    for (const std::string& s : items) out << ' ' << s;
    out << '\n';
}

static void walk(std::ostream& out, u64 seed, int plies, const std::string& fen) {
    Rng rng(seed);
    Position pos;
    try { pos = TextIO::readFEN(fen); } catch (const ChessParseError&) { doPos(out, fen); return; }
    for (int ply = 0; ply <= plies; ply++) {
        doPos(out, TextIO::toFEN(pos));
        std::vector<Move> ml;
        legalMoves(pos, ml);
        if (ml.empty() || pos.getHalfMoveClock() >= 100) break;
        // bias: promotions, captures and castling are preferred now and then
        Move m = ml[rng.below((int)ml.size())];
        if (rng.chance(35)) {
            std::vector<Move> pref;
            for (const Move& c : ml) {
                int p = pos.getPiece(c.from());
                bool castle = (p == Piece::WKING || p == Piece::BKING) && abs(c.to().asInt() - c.from().asInt()) == 2;
                bool pawn7 = (p == Piece::WPAWN && c.from().getY() >= 4) || (p == Piece::BPAWN && c.from().getY() <= 3);
                if (c.promoteTo() != Piece::EMPTY || castle || pawn7 || (pos.getPiece(c.to()) != Piece::EMPTY && rng.chance(50)))
                    pref.push_back(c);
            }
            if (!pref.empty()) m = pref[rng.below((int)pref.size())];
        }
        UndoInfo ui;
        pos.makeMove(m, ui);
    }
}

// ---------------------------------------------------------------- PGN trees
struct TNode {
    Move move;
    int nag = 0;
    std::string pre, post;
    std::vector<TNode> children;
};

static std::string rndComment(Rng& rng) {
    static const char alpha[] = "abcdefghijklmnopqrstuvwxyzABCDEFGHIJKLMNOPQRSTUVWXYZ0123456789 .,;:!?()[]$\"'-+=*/\\#<>_\n\t";
    int n = 1 + rng.below(rng.chance(10) ? 200 : 24);
    std::string s;
    for (int i = 0; i < n; i++) s += alpha[rng.below((int)sizeof(alpha) - 1)];
    return s;
}

struct TreeStats { int nodes = 0, vars = 0, comments = 0, nags = 0, depth = 0; };

// build a line of up to len moves below node `n` from position pos; variations are added at random
static void buildLine(Rng& rng, Position pos, TNode& n, int len, int budgetVar, bool comments, TreeStats& st, int depth, bool firstOfLine) {
    TNode* cur = &n;
    st.depth = std::max(st.depth, depth);
    for (int i = 0; i < len; i++) {
        std::vector<Move> ml;
        legalMoves(pos, ml);
        if (ml.empty()) return;
        int nVar = (budgetVar > 0 && rng.chance(30)) ? 1 + rng.below(std::min(3, (int)ml.size())) : 1;
        nVar = std::min(nVar, (int)ml.size());
        // distinct moves for main move and variations
        std::vector<Move> pick;
        while ((int)pick.size() < nVar) {
            Move m = ml[rng.below((int)ml.size())];
            bool dup = false;
            for (const Move& q : pick) dup = dup || (q == m);
            if (!dup) pick.push_back(m);
        }
        cur->children.resize(pick.size());
        for (size_t k = 0; k < pick.size(); k++) {
            TNode& c = cur->children[k];
            c.move = pick[k];
            st.nodes++;
            if (comments) {
                if (rng.chance(25)) { c.nag = rng.chance(50) ? 1 + rng.below(6) : 1 + rng.below(250); st.nags++; }
                if (rng.chance(25)) { c.post = rndComment(rng); st.comments++; }
                // a comment before a move is only attributed to that move at the start of a line
                if ((k > 0 || firstOfLine) && rng.chance(30)) { c.pre = rndComment(rng); st.comments++; }
            }
        }
        for (size_t k = 1; k < pick.size(); k++) {
            st.vars++;
            Position p2(pos);
            UndoInfo ui;
            p2.makeMove(pick[k], ui);
            buildLine(rng, p2, cur->children[k], rng.below(5), budgetVar - 1, comments, st, depth + 1, false);
        }
        UndoInfo ui;
        pos.makeMove(pick[0], ui);
        // cur->children may not be resized any more: take the address now
        cur = &cur->children[0];
        firstOfLine = false;
    }
}

static std::string escComment(const std::string& s) {
    std::string r;
    for (char c : s) if (c != '}' && c != '%') r += c;      // '}' ends a brace comment; '%' after a newline is the PGN escape
    return r;
}

// the harness's own PGN writer (the repo has no writer for comments/NAGs): standard movetext layout
static void writeLine(std::ostream& os, Rng& rng, Position pos, const TNode& n, bool longForm) {
    if (n.children.empty()) return;
    const TNode& main = n.children[0];
    auto writeMove = [&](const TNode& c) {
        if (!c.pre.empty()) {
            std::string t = escComment(c.pre);
            if (t.size() >= 2 && rng.chance(35)) {
                size_t k = 1 + rng.below((int)t.size() - 1);
                os << "{" << t.substr(0, k) << "}{" << t.substr(k) << "} ";
            } else {
                os << "{" << t << "} ";
            }
        }
        if (pos.isWhiteMove()) os << pos.getFullMoveCounter() << ". ";
        else if (rng.chance(50)) os << pos.getFullMoveCounter() << "... ";
        std::string ms = TextIO::moveToString(pos, c.move, longForm);
        bool glyph = c.nag >= 1 && c.nag <= 6 && rng.chance(50);
        static const char* glyphs[] = {"", "!", "?", "!!", "??", "!?", "?!"};
        os << ms;
        if (glyph) os << glyphs[c.nag];
        os << ' ';
        bool nagFirst = rng.chance(50);
        if (c.nag > 0 && !glyph && nagFirst) os << '$' << c.nag << ' ';
        if (!c.post.empty()) {
            // the parser concatenates all comments that follow a move: write some of them in two pieces,
            // some as a rest-of-line comment
            std::string t = escComment(c.post);
            if (t.size() >= 2 && rng.chance(35)) {
                size_t k = 1 + rng.below((int)t.size() - 1);
                os << "{" << t.substr(0, k) << "} {" << t.substr(k) << "} ";
            } else if (t.find('\n') == std::string::npos && t.find('\r') == std::string::npos && rng.chance(25)) {
                os << ";" << t << "\n";
            } else {
                os << "{" << t << "} ";
            }
        }
        if (c.nag > 0 && !glyph && !nagFirst) os << '$' << c.nag << ' ';
    };
    writeMove(main);
    for (size_t k = 1; k < n.children.size(); k++) {
        os << "( ";
        writeMove(n.children[k]);
        Position p2(pos);
        UndoInfo ui;
        p2.makeMove(n.children[k].move, ui);
        writeLine(os, rng, p2, n.children[k], longForm);
        os << ") ";
        if (rng.chance(20)) os << "\n";
    }
    UndoInfo ui;
    pos.makeMove(main.move, ui);
    writeLine(os, rng, pos, main, longForm);
}

static bool sameTree(const TNode& a, const std::shared_ptr<Node>& b, bool withText, std::string& why) {
    if (a.children.size() != b->getChildren().size()) {
        std::ostringstream os; os << "child count " << a.children.size() << " vs " << b->getChildren().size();
        why = os.str(); return false;
    }
    for (size_t i = 0; i < a.children.size(); i++) {
        const TNode& x = a.children[i];
        const std::shared_ptr<Node>& y = b->getChildren()[i];
        if (!(x.move == y->getMove())) { why = "move " + TextIO::moveToUCIString(x.move) + " vs " + TextIO::moveToUCIString(y->getMove()); return false; }
        if (y->getParent() != b) { why = "parent link"; return false; }
        if (withText) {
            if (x.nag != y->getNag()) { std::ostringstream os; os << "nag " << x.nag << " vs " << y->getNag(); why = os.str(); return false; }
            if (escComment(x.pre) != y->getPreComment()) { why = "preComment"; return false; }
            if (escComment(x.post) != y->getPostComment()) { why = "postComment"; return false; }
        }
        if (!sameTree(x, y, withText, why)) return false;
    }
    return true;
}

static void pgnRoundTrip(std::ostream& out, u64 seed, int size, const std::string& fen, bool ownWriter, bool textOnly = false) {
    Rng rng(seed);
    Position start;
    try { start = TextIO::readFEN(fen); } catch (const ChessParseError&) { out << "T 0 bad-start-fen\n"; return; }
    TNode root;
    TreeStats st;
    buildLine(rng, start, root, size, 3, ownWriter, st, 0, true);
    std::string text;
    std::string startFen = TextIO::toFEN(start);
    bool std0 = startFen == TextIO::startPosFEN;
    if (ownWriter) {
        std::ostringstream os;
        os << "[Event \"c17 \\\"quoted\\\" \\\\ event\"]\n[Site \"?\"]\n";
        if (!std0 || rng.chance(50)) os << "[SetUp \"1\"]\n[FEN \"" << startFen << "\"]\n";
        os << "\n";
        bool longForm = rng.chance(25);
        writeLine(os, rng, start, root, longForm);
        static const char* results[] = {"1-0", "0-1", "1/2-1/2", "*"};
        os << results[rng.below(4)] << "\n";
        text = os.str();
    } else {
        // the repo's own writer: GameTree built through GameNode::insertMove, then getGameTreeString
        GameTree gt;
        gt.setStartPos(start);
        std::function<void(GameNode&, const TNode&)> ins = [&](GameNode& gn, const TNode& n) {
            for (size_t k = 0; k < n.children.size(); k++) {
                gn.insertMove(n.children[k].move);
                gn.goForward((int)k);
                ins(gn, n.children[k]);
                gn.goBack();
            }
        };
        GameNode gn = gt.getRootNode();
        ins(gn, root);
        std::string s;
        std::set<GameTree::RangeToNode> ranges;
        gt.getGameTreeString(s, ranges);
        if ((int)ranges.size() != st.nodes) { out << "T 0 getGameTreeString-ranges " << ranges.size() << " nodes " << st.nodes << '\n'; return; }
        text = "[FEN \"" + startFen + "\"]\n" + s + " *\n";
    }
    if (textOnly) { out << "X " << toHexStr(text) << '\n'; return; }
    std::istringstream is(text);
    PgnReader reader(is);
    GameTree tree;
    bool ok;
    try {
        ok = reader.readPGN(tree);
    } catch (const ChessParseError& e) {
        out << "T 0 parse-error:" << e.what() << " text=" << toHexStr(text) << '\n';
        return;
    }
    if (!ok) { out << "T 0 readPGN-false text=" << toHexStr(text) << '\n'; return; }
    GameNode rn = tree.getRootNode();
    if (TextIO::toFEN(rn.getPos()) != startFen) { out << "T 0 start-position text=" << toHexStr(text) << '\n'; return; }
    std::string why;
    if (!sameTree(root, rn.getNode(), ownWriter, why)) { out << "T 0 tree-differs:" << why << " text=" << toHexStr(text) << '\n'; return; }
    if (ownWriter) {
        std::map<std::string, std::string> hd;
        tree.getHeaders(hd);
        if (hd["Event"] != "c17 \"quoted\" \\ event") { out << "T 0 header-event text=" << toHexStr(text) << '\n'; return; }
    }
    out << "T 1 " << st.nodes << ' ' << st.vars << ' ' << st.comments << ' ' << st.nags << ' ' << st.depth << '\n';
}

static int countNodes(const std::shared_ptr<Node>& n) {
    int c = 1;
    for (const auto& ch : n->getChildren()) c += countNodes(ch);
    return c;
}

static void pgnBytes(std::ostream& out, const std::string& bytes) {
    std::istringstream is(bytes);
    PgnReader reader(is);
    int games = 0, nodes = 0, errors = 0;
    for (int k = 0; k < 5000; k++) {
        GameTree tree;
        try {
            if (!reader.readPGN(tree)) break;
            games++;
            nodes += countNodes(tree.getRootNode().getNode()) - 1;
        } catch (const ChessParseError&) {
            errors++;
            if (errors > 200) break;
        }
    }
    out << "G " << games << ' ' << nodes << ' ' << errors << '\n';
}

// ---------------------------------------------------------------- UCI lines
static void uciSession(std::ostream& out, const std::vector<std::string>& lines) {
    out << "uci";
    for (const std::string& l : lines) out << ' ' << toHexStr(l);
    out << '\n';
    std::istringstream is("");
    std::ostringstream os;
    UCIProtocol uci(is, os);
    for (const std::string& l : lines) {
        std::vector<std::string> toks;
        uci.tokenize(l, toks);
        bool needsEngine = !toks.empty() && (toks[0] == "isready" || toks[0] == "setoption" || toks[0] == "go");
        if (!needsEngine)
            uci.handleCommand(l, os);
        out << "U " << state(uci.pos) << " |";
        for (const Move& m : uci.moves) out << ' ' << mvNum(m);
        out << '\n';
    }
}

int main() {
    ComputerPlayer::initEngine();
    std::ios::sync_with_stdio(false);
    std::string line;
    std::ostream& out = std::cout;
    while (std::getline(std::cin, line)) {
        std::istringstream is(line);
        std::string cmd; is >> cmd;
        if (cmd == "WALK") {
            u64 seed; int plies; std::string h; is >> seed >> plies >> h;
            walk(out, seed, plies, fromHexStr(h));
        } else if (cmd == "POS") {
            std::string h; is >> h;
            doPos(out, fromHexStr(h));
        } else if (cmd == "STM") {
            std::string h; is >> h;
            std::vector<std::string> hs; std::string x;
            while (is >> x) hs.push_back(x);
            out << "stm " << h;
            for (const std::string& s : hs) out << ' ' << s;
            out << '\n';
            Position pos;
            bool ok = true;
            try { pos = TextIO::readFEN(fromHexStr(h)); } catch (const ChessParseError& e) { out << "E " << errCode(e.what()) << '\n'; ok = false; }
            if (ok) {
                out << "S";
                for (const std::string& s : hs) {
                    Position p(pos);
                    out << ' ' << mvNum(TextIO::stringToMove(p, fromHexStr(s)));
                }
                out << '\n';
            }
        } else if (cmd == "UCM") {
            std::vector<std::string> hs; std::string x;
            while (is >> x) hs.push_back(x);
            out << "ucm";
            for (const std::string& s : hs) out << ' ' << s;
            out << "\nV";
            for (const std::string& s : hs) out << ' ' << mvNum(TextIO::uciStringToMove(fromHexStr(s)));
            out << '\n';
        } else if (cmd == "FEN") {
            std::string h; is >> h;
            out << "fen " << h << '\n';
            try {
                Position pos = TextIO::readFEN(fromHexStr(h));
                out << "P " << state(pos) << '\n';
            } catch (const ChessParseError& e) {
                out << "E " << errCode(e.what()) << '\n';
            }
        } else if (cmd == "UCI") {
            std::vector<std::string> lines; std::string x;
            while (is >> x) lines.push_back(fromHexStr(x));
            uciSession(out, lines);
        } else if (cmd == "PGNRT" || cmd == "PGNTS") {
            u64 seed; int size; std::string h; is >> seed >> size >> h;
            pgnRoundTrip(out, seed, size, fromHexStr(h), cmd == "PGNRT");
        } else if (cmd == "PGNTXT") {
            u64 seed; int size; std::string h; is >> seed >> size >> h;
            pgnRoundTrip(out, seed, size, fromHexStr(h), (seed & 1) != 0, true);
        } else if (cmd == "PGN") {
            std::string h; is >> h;
            pgnBytes(out, fromHexStr(h));
        }
        out.flush();
    }
    return 0;
}
