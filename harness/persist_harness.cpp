// Harness for C14 (Clear Hash == fresh start).
//
//   persist_harness genpos <seed> <n>
//       prints n lines "<fen>|<uci moves from the start position>" of random legal, non-terminal
//       positions (random walks from the start position; used only as a position source).
//
//   persist_harness ops            (op sequences on stdin, one result line per query op)
//       drives the real TranspositionTable / History / KillerTable objects with the operation
//       sequences of the model coq/Persist/Persist.v; see drivers/persist_driver.ml for the
//       same protocol on the extracted model.
//
//   persist_harness f5
//       the two-insert scenario of DESIGN.md F5 on the real TranspositionTable (API level).
#include <cassert>
#include <unistd.h>
#include <cstdio>
#include <cstdlib>
#include <cstring>
#include <iostream>
#include <sstream>
#include <string>
#include <vector>
#include <memory>
#include <thread>
#include <chrono>
#include <map>
#include <mutex>
#include <condition_variable>
#include <atomic>
#include <functional>
#include <array>
#define private public
#define protected public
#include "transpositionTable.hpp"
#include "history.hpp"
#include "killerTable.hpp"
#include "evaluate.hpp"
#include "enginecontrol.hpp"
#include "uciprotocol.hpp"
#undef private
#undef protected
#include "position.hpp"
#include "moveGen.hpp"
#include "textio.hpp"
#include "constants.hpp"
#include "parameters.hpp"
#include "computerPlayer.hpp"

typedef unsigned long long u64;

static u64 rngState = 1;
static u64 rnd() {
    rngState ^= rngState << 13; rngState ^= rngState >> 7; rngState ^= rngState << 17;
    return rngState * 0x2545F4914F6CDD1DULL;
}

static int genpos(u64 seed, int n) {
    rngState = seed * 0x9E3779B97F4A7C15ULL + 12345;
    for (int i = 0; i < 8; i++) rnd();
    int done = 0;
    while (done < n) {
        Position pos = TextIO::readFEN(TextIO::startPosFEN);
        int len = 2 + (int)(rnd() % 90);
        if (rnd() % 6 == 0) len += 60;
        std::string mv;
        UndoInfo ui;
        bool ok = true;
        for (int k = 0; k < len; k++) {
            MoveList ml;
            MoveGen::pseudoLegalMoves(pos, ml);
            MoveGen::removeIllegal(pos, ml);
            if (ml.size == 0 || pos.getHalfMoveClock() >= 90) { ok = false; break; }
            // prefer captures a little so that sparse positions occur too
            int pick = (int)(rnd() % ml.size);
            if (rnd() % 3 == 0)
                for (int t = 0; t < 4; t++) {
                    int c = (int)(rnd() % ml.size);
                    if (pos.getPiece(ml[c].to()) != Piece::EMPTY) { pick = c; break; }
                }
            Move m = ml[pick];
            if (!mv.empty()) mv += ' ';
            mv += TextIO::moveToUCIString(m);
            pos.makeMove(m, ui);
        }
        if (!ok) continue;
        MoveList ml;
        MoveGen::pseudoLegalMoves(pos, ml);
        MoveGen::removeIllegal(pos, ml);
        if (ml.size < 2) continue;
        std::cout << TextIO::toFEN(pos) << '|' << mv << '\n';
        done++;
    }
    return 0;
}

// ---------------------------------------------------------------------------------------
// in-process engine: the real UCIProtocol / EngineControl / EngineMainThread objects
/** Output sink of the in-process engine: thread safe (UCI thread and search thread both write),
 *  counts the completed `info depth ...` lines so that the harness can wait for "the search proper
 *  has begun" (everything before the first iteration, in particular updateTB, is done then)
 *  instead of sleeping for a fixed time. */
struct SyncBuf : std::streambuf {
    std::mutex m;
    std::string cur;
    std::atomic<int> depthLines;
    SyncBuf() : depthLines(0) {}
    void put(char c) {
        if (c == '\n') {
            if (cur.compare(0, 10, "info depth") == 0) depthLines++;
            cur.clear();
        } else
            cur.push_back(c);
    }
    int overflow(int c) override {
        if (c != EOF) { std::lock_guard<std::mutex> L(m); put((char)c); }
        return c;
    }
    std::streamsize xsputn(const char* s, std::streamsize n) override {
        std::lock_guard<std::mutex> L(m);
        for (std::streamsize i = 0; i < n; i++) put(s[i]);
        return n;
    }
};

struct Proc {
    std::istringstream in;
    SyncBuf buf;
    std::ostream out;
    UCIProtocol uci;
    std::thread th;
    bool anyGo = false;        // a go command was handled since RESET (limit members are assigned)
    Proc() : out(&buf), uci(in, out) {
        th = std::thread([this]() { uci.engineThread.mainLoop(); });
        cmd("isready");
    }
    ~Proc() {
        if (uci.engine) uci.engine->stopSearch();
        uci.engineThread.quit();
        th.join();
    }
    void cmd(const std::string& line) { uci.handleCommand(line, out); }
    // EngineControl::waitReady() only waits for pending options while no Search object exists
    // (sc stays set after the first search), so wait on the engine thread directly as well
    void ready() { cmd("isready"); uci.engineThread.waitOptionsSet(); }
    TranspositionTable& tt() { return uci.engineThread.tt; }
    EngineControl& ec() { return *uci.engine; }
};

static const char* kOptNames[] = { "Hash", "Contempt", "UCI_AnalyseMode", "AnalyzeContempt", "AnalysisAgeHash",
                                   "AutoContempt", "Strength", "UCI_LimitStrength", "MultiPV", "UseNullMove",
                                   "MinProbeDepth", "MaxNPS", "UCI_Elo", "OwnBook", "Ponder", "Threads" };

static void resetAll(Proc& p) {
    Parameters& pars = Parameters::instance();
    for (const char* n : kOptNames) {
        std::shared_ptr<Parameters::ParamBase> b = pars.getParam(n);
        std::string def;
        if (b->getType() == Parameters::SPIN)
            def = num2Str(static_cast<Parameters::SpinParam&>(*b).getDefaultValue());
        else if (b->getType() == Parameters::CHECK)
            def = static_cast<Parameters::CheckParam&>(*b).getDefaultValue() ? "true" : "false";
        p.cmd(std::string("setoption name ") + n + " value " + def);
    }
    p.ready();
    p.tt().reSize(8);
    p.uci.engineThread.setupTT();
    p.tt().setWhiteContempt(0);
    p.ec().ht.init();
    p.ec().kt.clear();
    for (auto& e : p.ec().et->evalHash) e = Evaluate::EvalHashData();
    p.uci.engineThread.clearHistory = false;
    p.ec().randomSeed = 0;
    // limit members: uninitialised in a fresh engine (or -1 where they have in-class defaults)
    p.ec().minTimeLimit = p.ec().maxTimeLimit = p.ec().earlyStopPercentage = p.ec().maxDepth = p.ec().maxNodes = -1;
    p.ec().searchMoves.clear();
    p.anyGo = false;
}

static void dumpFrame(Proc& p, std::ostream& os) {
    TranspositionTable& tt = p.tt();
    os << "gen=" << (int)tt.generation << " tsize=" << tt.tableSize << " used=" << tt.usedSize
       << " tb=" << (tt.tbGen ? 1 : 0) << " nuc=" << tt.notUsedCnt
       << " ch=" << (p.uci.engineThread.clearHistory ? 1 : 0) << " chash=" << tt.contemptHash
       << " seed0=" << (p.ec().randomSeed == 0 ? 1 : 0);
    os << " opts=" << UciParams::hash->getIntPar() << ',' << UciParams::contempt->getIntPar() << ','
       << (UciParams::analyseMode->getBoolPar() ? 1 : 0) << ',' << UciParams::analyzeContempt->getIntPar() << ','
       << (UciParams::analysisAgeHash->getBoolPar() ? 1 : 0) << ',' << (UciParams::autoContempt->getBoolPar() ? 1 : 0) << ','
       << UciParams::strength->getIntPar() << ',' << (UciParams::limitStrength->getBoolPar() ? 1 : 0);
    // limit members of EngineControl as the last go command left them (uninitialised before the first)
    if (p.anyGo)
        os << " lim=" << p.ec().minTimeLimit << ',' << p.ec().maxTimeLimit << ',' << p.ec().earlyStopPercentage << ','
           << p.ec().maxDepth << ',' << p.ec().maxNodes << ',' << p.ec().searchMoves.size();
    else
        os << " lim=?";
}

static bool ttEmpty(Proc& p, u64 limit) {
    TranspositionTable& tt = p.tt();
    for (u64 i = 0; i < limit; i++)
        if (tt.table[i].key.load(std::memory_order_relaxed) || tt.table[i].data.load(std::memory_order_relaxed))
            return false;
    return true;
}
static bool histZero(Proc& p) {
    for (int pc = 0; pc < Piece::nPieceTypes; pc++)
        for (int sq = 0; sq < 64; sq++)
            if (p.ec().ht.ht[pc][Square(sq)].nValues || p.ec().ht.ht[pc][Square(sq)].scaledScore) return false;
    return true;
}
static bool ktZero(Proc& p) {
    for (int i = 0; i < (int)COUNT_OF(p.ec().kt.ktList); i++)
        if (p.ec().kt.ktList[i].move0 || p.ec().kt.ktList[i].move1) return false;
    return true;
}
static bool evDefault(Proc& p) {
    for (auto& e : p.ec().et->evalHash)
        if (e.data != Evaluate::EvalHashData().data) return false;
    return true;
}

static void dumpContent(Proc& p, std::ostream& os) {
    TranspositionTable& tt = p.tt();
    os << " | T";
    for (u64 i = 0; i < tt.tableSize; i++) {
        if (!tt.table[i].key.load(std::memory_order_relaxed) && !tt.table[i].data.load(std::memory_order_relaxed))
            continue;
        TranspositionTable::TTEntry e;
        e.load(tt.table[i]);
        os << ' ' << i << ':' << e.getKey() << ':' << e.getBits(0, 16) << ':' << e.getBits(16, 16) << ':' << e.getDepth()
           << ':' << (e.getBusy() ? 1 : 0) << ':' << e.getGeneration() << ':' << e.getType() << ':' << e.getBits(48, 16);
    }
    os << " | H";
    for (int pc = 0; pc < Piece::nPieceTypes; pc++)
        for (int sq = 0; sq < 64; sq++) {
            const History::HTEntry& h = p.ec().ht.ht[pc][Square(sq)];
            if (h.nValues || h.scaledScore)
                os << ' ' << (pc * 64 + sq) << ':' << h.nValues << ':' << h.scaledScore;
        }
    os << " | K";
    for (int i = 0; i < (int)COUNT_OF(p.ec().kt.ktList); i++)
        if (p.ec().kt.ktList[i].move0 || p.ec().kt.ktList[i].move1)
            os << ' ' << i << ':' << p.ec().kt.ktList[i].move0 << ':' << p.ec().kt.ktList[i].move1;
    os << " | E";
    const u64 def = Evaluate::EvalHashData().data;
    for (size_t i = 0; i < p.ec().et->evalHash.size(); i++)
        if (p.ec().et->evalHash[i].data != def)
            os << ' ' << i << ':' << p.ec().et->evalHash[i].data;
}

static Move mkMove(unsigned m, int score) {
    return Move(Square(m & 63), Square((m >> 6) & 63), (m >> 12) & 15, score);
}

/** Operation stream (see props/c14.py for the generator and drivers/persist_driver.ml for the
 *  model side).  One output line per DUMP / DUMPF / PRB / DETECT op. */
static int ops() {
    Proc p;
    std::string line;
    while (std::getline(std::cin, line)) {
        std::istringstream is(line);
        std::string k; is >> k;
        if (k.empty() || k[0] == '#') continue;
        if (k == "RESET") {
            resetAll(p);
        } else if (k == "UCI") {            // UCI <line>: setoption / ucinewgame / position, then isready
            std::string rest; std::getline(is, rest);
            p.cmd(trim(rest));
            p.ready();
        } else if (k == "GO") {             // GO <mode> <waitms> | <position ...> | <go ...>
            std::string mode; int wait; is >> mode >> wait;
            std::string rest; std::getline(is, rest);
            size_t a = rest.find('|'), b = rest.find('|', a + 1);
            std::string posCmd = trim(rest.substr(a + 1, b - a - 1)), goCmd = trim(rest.substr(b + 1));
            int before = p.buf.depthLines.load();
            p.cmd(posCmd);
            p.cmd(goCmd);
            p.anyGo = true;
            if (mode == "stop" || mode == "tbstop") {
                // `go infinite`: the stop must not depend on the wall clock (an early stop aborts an
                // on-demand tablebase generation, F4): wait for the first `info depth` line, which
                // is printed after updateTB() has returned; `wait` = safety timeout in seconds
                int limit = mode == "tbstop" ? wait : 60;
                auto t0 = std::chrono::steady_clock::now();
                while (p.buf.depthLines.load() == before) {
                    std::this_thread::sleep_for(std::chrono::milliseconds(1));
                    if (std::chrono::steady_clock::now() - t0 > std::chrono::seconds(limit)) {
                        std::cerr << "TIMEOUT: no `info depth` line within " << limit << " s: " << line << std::endl;
                        std::cout.flush();
                        _exit(4);
                    }
                }
                p.cmd("stop");
            } else {
                p.uci.engineThread.waitStop();
            }
            p.ready();
        } else if (k == "NEXTGEN") {
            p.tt().nextGeneration();
        } else if (k == "RESIZE") {
            u64 n; is >> n; p.tt().reSize(n);
        } else if (k == "WC") {
            int c; is >> c; p.tt().setWhiteContempt(c);
        } else if (k == "TTCLEAR") {
            p.tt().clear();
        } else if (k == "INS") {            // key move score type ply depth eval busy
            u64 key; unsigned mv; int score, type, ply, depth, ev, busy;
            is >> key >> mv >> score >> type >> ply >> depth >> ev >> busy;
            p.tt().insert(key, mkMove(mv, score), type, ply, depth, ev, busy != 0);
        } else if (k == "PRB") {
            u64 key; is >> key;
            TranspositionTable::TTEntry e;
            p.tt().probe(key, e);
            if (e.getType() == TType::T_EMPTY && e.getKey() == 0 && e.getData() == 0)
                std::cout << "P none\n";
            else
                std::cout << "P " << e.getKey() << ':' << e.getBits(0, 16) << ':' << e.getBits(16, 16) << ':' << e.getDepth()
                          << ':' << (e.getBusy() ? 1 : 0) << ':' << e.getGeneration() << ':' << e.getType() << ':'
                          << e.getBits(48, 16) << '\n';
        } else if (k == "HS" || k == "HF") { // piece square depth
            int pc, sq, d; is >> pc >> sq >> d;
            Position pos;
            pos.setPiece(Square(0), pc);
            Move m(Square(0), Square(sq), Piece::EMPTY);
            if (k == "HS") p.ec().ht.addSuccess(pos, m, d); else p.ec().ht.addFail(pos, m, d);
        } else if (k == "HRESCALE") {
            p.ec().ht.reScale();
        } else if (k == "HINIT") {
            p.ec().ht.init();
        } else if (k == "KA") {             // ply move
            int ply; unsigned mv; is >> ply >> mv;
            p.ec().kt.addKiller(ply, mkMove(mv, 0));
        } else if (k == "KCLEAR") {
            p.ec().kt.clear();
        } else if (k == "EV") {             // idx data
            u64 idx, data; is >> idx >> data;
            p.ec().et->evalHash[idx].data = data;
        } else if (k == "UPDTB") {          // <maxT> | fen
            long long maxT; is >> maxT;
            std::string rest; std::getline(is, rest);
            Position pos = TextIO::readFEN(trim(rest.substr(rest.find('|') + 1)));
            RelaxedShared<S64> mt; mt = (S64)maxT;
            p.tt().updateTB(pos, mt);
        } else if (k == "UPDTBA") {         // aborted generation: <kind> | fen ; no tablebase resident before
            std::string rest; std::getline(is, rest);
            Position pos = TextIO::readFEN(trim(rest.substr(rest.find('|') + 1)));
            // the abort must not depend on the wall clock: a helper sets maxTimeMillis to 0 as soon as
            // the generator object exists; generate() then returns false at the latest at the first
            // round of its third phase ("Cancelled by UCI stop command").  Should the helper be
            // descheduled for the whole generation, clear and try again.
            for (int attempt = 0; attempt < 20; attempt++) {
                RelaxedShared<S64> mt; mt = (S64)-1;
                std::atomic<bool> done(false);
                TranspositionTable* tp = &p.tt();
                std::thread th([&mt, &done, tp]() {
                    while (!done.load() && !tp->tbGen) std::this_thread::yield();
                    mt = (S64)0;
                });
                bool ok = p.tt().updateTB(pos, mt);
                done = true;
                th.join();
                if (!ok) break;
                p.tt().clear();
            }
        } else if (k == "DUMP") {
            dumpFrame(p, std::cout);
            dumpContent(p, std::cout);
            std::cout << '\n';
        } else if (k == "DUMPF") {          // frame + emptiness flags (after real searches)
            dumpFrame(p, std::cout);
            // the top 5 MB of a table of at least 7 MB may hold on-demand tablebase bytes (also
            // after the tablebase was dropped without clearing): not transposition-table entries
            u64 lim = p.tt().tableSize;
            if (lim * 16 >= 7 * 1024 * 1024) lim -= 5 * 1024 * 1024 / 16;
            std::cout << " empty=" << (ttEmpty(p, lim) ? 1 : 0) << (histZero(p) ? 1 : 0)
                      << (ktZero(p) ? 1 : 0) << (evDefault(p) ? 1 : 0) << '\n';
        } else if (k == "DETECT") {
            // which variant of the model does the code match?
            //  g: clear() resets the generation   e: Clear Hash empties the eval cache
            //  k: the eval cache key depends on the contempt
            resetAll(p);
            p.tt().nextGeneration(); p.tt().nextGeneration(); p.tt().nextGeneration();
            p.ec().et->evalHash[7].data = 12345;
            p.cmd("setoption name Clear Hash"); p.ready();
            int g = p.tt().generation == 0 ? 1 : 0;
            int e = p.ec().et->evalHash[7].data == Evaluate::EvalHashData().data ? 1 : 0;
            // evaluate one middle-game position under two contempt values with a shared cache,
            // and under the second value with a private cache
            Position pos = TextIO::readFEN("r1bqkbnr/pppp1ppp/2n5/4p3/4P3/5N2/PPPP1PPP/RNBQKB1R w KQkq - 2 3");
            auto et1 = Evaluate::getEvalHashTables();
            Evaluate ev1(*et1);
            ev1.connectPosition(pos);
            ev1.setWhiteContempt(200);
            int a = ev1.evalPos();
            ev1.setWhiteContempt(-200);
            int b = ev1.evalPos();
            auto et2 = Evaluate::getEvalHashTables();
            Evaluate ev2(*et2);
            ev2.connectPosition(pos);
            ev2.setWhiteContempt(-200);
            int c = ev2.evalPos();
            int kk = (b == c && a != c) ? 1 : 0;
            // t: an aborted on-demand tablebase generation does not stay installed
            int t = -1;
            {
                p.cmd("setoption name Hash value 16"); p.ready();
                Position kqk = TextIO::readFEN("8/8/8/4k3/8/8/3QK3/8 w - - 0 1");
                for (int attempt = 0; attempt < 20 && t < 0; attempt++) {
                    RelaxedShared<S64> mt; mt = (S64)-1;
                    std::atomic<bool> done(false);
                    TranspositionTable* tp = &p.tt();
                    std::thread th([&mt, &done, tp]() {
                        while (!done.load() && !tp->tbGen) std::this_thread::yield();
                        mt = (S64)0;
                    });
                    bool ok = p.tt().updateTB(kqk, mt);
                    done = true;
                    th.join();
                    if (!ok) t = p.tt().tbGen ? 0 : 1;
                    else p.tt().clear();
                }
            }
            // l: every go assigns all limit members (maxNodes of an earlier `go nodes` is gone)
            p.cmd("position startpos"); p.cmd("go nodes 5"); p.uci.engineThread.waitStop();
            p.cmd("go depth 1"); p.uci.engineThread.waitStop();
            int l = (p.ec().maxNodes == -1 && p.ec().maxDepth == 1) ? 1 : 0;
            std::cout << "V " << g << ' ' << e << ' ' << kk << ' ' << t << ' ' << l << " evals=" << a << ',' << b << ',' << c << '\n';
            resetAll(p);
        } else {
            std::cerr << "bad op: " << line << '\n';
            return 3;
        }
    }
    std::cout.flush();
    return 0;
}

/** The two-insert scenario of DESIGN.md F5 on the real table: generation g, cleared table,
 *  insert key1 (depth 0, lower bound), insert key2 into the same bucket, probe key1. */
static int f5() {
    for (int g = 0; g < 16; g++) {
        TranspositionTable tt(1 << 20);             // cleared, generation 0
        for (int i = 0; i < g; i++) tt.nextGeneration();
        tt.insert(1, mkMove(8 + 16 * 64, 10), TType::T_GE, 0, 0, 0);
        tt.insert(2, mkMove(9 + 17 * 64, 20), TType::T_GE, 0, 0, 0);
        TranspositionTable::TTEntry e;
        tt.probe(1, e);
        std::cout << "gen " << g << " first-entry-" << (e.getType() == TType::T_EMPTY ? "overwritten" : "survives") << '\n';
    }
    return 0;
}

int main(int argc, char** argv) {
    std::string mode = argc > 1 ? argv[1] : "";
    if (mode == "genpos" && argc >= 4)
        return genpos(strtoull(argv[2], 0, 10), atoi(argv[3]));
    ComputerPlayer::initEngine();
    if (mode == "ops")
        return ops();
    if (mode == "f5")
        return f5();
    std::cerr << "usage: persist_harness genpos <seed> <n> | ops | f5\n";
    return 2;
}
