// Correspondence / trace harness for C08 (transposition table).  Calls the real code of the
// current /repo tree.  Numbers on the wire are signed hexadecimal without prefix.
//
//   tt_harness session          commands on stdin, one result line per command:
//       NEW n | RESIZE n | CLEAR | GEN | CONTEMPT c | TBON | TBOFF          -> S <state>
//       INS key from to promo score type ply depth eval busy               -> B idx0 (k d)x4
//       PROBE key rkey rdata                                               -> R key data B ...
//       BUSY key ply        (probe; if hit: setBusy(result, ply))          -> R key data B ...
//       IDX key                                                            -> I idx
//       PUTB idx v | GETB idx | TBW size idx v | TBR size idx              -> Y value / B-less ack
//       TBSUM               checksum of the resident tablebase bytes       -> T sum
//       L <fn> args...      leaf function self-validation                  -> V results...
//   tt_harness hammer threads ops nkeys seed ngen size contempt
//       multi-threaded run; prints the issued stores and the observed probe results.
#include <atomic>
#include <cstdio>
#include <cstdlib>
#include <cstring>
#include <iostream>
#include <sstream>
#include <string>
#include <thread>
#include <vector>
#include <unistd.h>
#include <sys/wait.h>
#include <new>

#define private public
#define protected public
#include "transpositionTable.hpp"
#include "position.hpp"
#include "textio.hpp"
#include "constants.hpp"
#undef private
#undef protected

typedef TranspositionTable::TTEntry TTEntry;

// ---- deterministic allocation-failure injection ----
// The table is allocated by AlignedAllocator -> malloc (LargePageAlloc returns null unless
// USE_LARGE_PAGES).  While armed (only around reSize calls) every malloc request of at least
// g_failBytes fails, so reSize throws std::bad_alloc exactly for tables of >= thr entries.
#include <cerrno>
extern "C" void* __libc_malloc(size_t);
static volatile bool g_armed = false;
static volatile size_t g_failBytes = 0;
extern "C" void* malloc(size_t n) {
    if (g_armed && g_failBytes != 0 && n >= g_failBytes) { errno = ENOMEM; return nullptr; }
    return __libc_malloc(n);
}
static int guardedReSize(TranspositionTable& tt, U64 n) {
    int exc = 0;
    g_armed = true;
    try { tt.reSize(n); } catch (const std::bad_alloc&) { exc = 1; }
    g_armed = false;
    return exc;
}

static long long rdS(std::istream& is) {
    std::string t; is >> t;
    bool neg = false; size_t p = 0;
    if (!t.empty() && t[0] == '-') { neg = true; p = 1; }
    unsigned long long v = strtoull(t.c_str() + p, nullptr, 16);
    return neg ? -(long long)v : (long long)v;
}
static U64 rdU(std::istream& is) {
    std::string t; is >> t;
    return strtoull(t.c_str(), nullptr, 16);
}
static std::string hx(U64 v) { char b[32]; snprintf(b, sizeof b, "%llx", (unsigned long long)v); return b; }
static std::string hs(long long v) {
    char b[40];
    if (v < 0) snprintf(b, sizeof b, "-%llx", (unsigned long long)(-v)); else snprintf(b, sizeof b, "%llx", (unsigned long long)v);
    return b;
}

static std::string stateLine(TranspositionTable& tt) {
    std::ostringstream os;
    os << "S " << hx(tt.tableSize) << ' ' << hx(tt.usedSize) << ' ' << hs(tt.usedSizeTopBits) << ' '
       << hs(tt.usedSizeShift) << ' ' << hx(tt.usedSizeMask) << ' ' << hx(tt.generation) << ' '
       << hx(tt.contemptHash) << ' ' << (tt.tbGen ? 1 : 0) << ' ' << (tt.table ? 1 : 0);
    return os.str();
}

static std::string bucketLine(TranspositionTable& tt, U64 key) {
    size_t idx0 = tt.getIndex(key ^ tt.contemptHash);
    std::ostringstream os;
    os << "B " << hx(idx0);
    for (int i = 0; i < 4; i++)
        os << ' ' << hx(tt.table[idx0 + i].key.load(std::memory_order_relaxed))
           << ' ' << hx(tt.table[idx0 + i].data.load(std::memory_order_relaxed));
    return os.str();
}

static bool overrun(TranspositionTable& tt, U64 key) {
    size_t idx0 = tt.getIndex(key ^ tt.contemptHash);
    return idx0 + 3 >= tt.tableSize;
}

static U64 tbSum(TranspositionTable& tt) {
    // FNV-style checksum of the bytes of the top 5 MB of the table (the resident tablebase)
    U64 n = 5 * 1024 * 1024 / 16;
    U64 h = 1469598103934665603ULL;
    if (tt.tableSize < n) return 0;
    for (U64 i = tt.tableSize - n; i < tt.tableSize; i++) {
        h = (h ^ tt.table[i].key.load(std::memory_order_relaxed)) * 1099511628211ULL;
        h = (h ^ tt.table[i].data.load(std::memory_order_relaxed)) * 1099511628211ULL;
    }
    return h;
}

// ---- leaf function self-validation: call the real function, print its results ----
static std::string leaf(std::istringstream& is) {
    std::string f; is >> f;
    std::ostringstream os;
    os << "V";
    auto entry = [&]() { U64 k = rdU(is); U64 d = rdU(is); return TTEntry(k, d); };
    if (f == "isWinScore") { os << ' ' << (int)SearchConst::isWinScore((int)rdS(is)); }
    else if (f == "isLoseScore") { os << ' ' << (int)SearchConst::isLoseScore((int)rdS(is)); }
    else if (f == "getCompressedMove") {
        int a = (int)rdS(is), b = (int)rdS(is), c = (int)rdS(is);
        Move m(Square(a), Square(b), c, 0); os << ' ' << hx(m.getCompressedMove());
    } else if (f == "setFromCompressed") {
        int sc = (int)rdS(is); U16 c = (U16)rdU(is);
        Move m(Square(1), Square(2), 3, sc); m.setFromCompressed(c);
        os << ' ' << hs(m.from().asInt()) << ' ' << hs(m.to().asInt()) << ' ' << hs(m.promoteTo()) << ' ' << hs(m.score());
    } else if (f == "isEmpty") {
        int a = (int)rdS(is), b = (int)rdS(is);
        Move m(Square(a), Square(b), 0, 0); os << ' ' << (int)m.isEmpty();
    } else if (f == "getBits") {
        TTEntry e = entry(); int first = (int)rdS(is), size = (int)rdS(is);
        os << ' ' << hx(e.getBits(first, size));
    } else if (f == "setBits") {
        TTEntry e = entry(); int first = (int)rdS(is), size = (int)rdS(is); unsigned v = (unsigned)rdU(is);
        e.setBits(first, size, v); os << ' ' << hx(e.getData());
    } else if (f == "getKey") { TTEntry e = entry(); os << ' ' << hx(e.getKey()); }
    else if (f == "setKey") { TTEntry e = entry(); e.setKey(rdU(is)); os << ' ' << hx(e.getKey()); }
    else if (f == "getData") { TTEntry e = entry(); os << ' ' << hx(e.getData()); }
    else if (f == "store") {
        TTEntry e = entry(); TranspositionTable::TTEntryStorage s; e.store(s);
        os << ' ' << hx(s.key.load()) << ' ' << hx(s.data.load());
    } else if (f == "load") {
        TranspositionTable::TTEntryStorage s; s.key.store(rdU(is)); s.data.store(rdU(is));
        TTEntry e; e.load(s); os << ' ' << hx(e.getKey()) << ' ' << hx(e.getData());
    } else if (f == "clear") { TTEntry e = entry(); e.clear(); os << ' ' << hx(e.getKey()) << ' ' << hx(e.getData()); }
    else if (f == "getMove") {
        TTEntry e = entry(); int sc = (int)rdS(is);
        Move m(Square(1), Square(2), 3, sc); e.getMove(m);
        os << ' ' << hs(m.from().asInt()) << ' ' << hs(m.to().asInt()) << ' ' << hs(m.promoteTo()) << ' ' << hs(m.score());
    } else if (f == "setMove") {
        TTEntry e = entry(); int a = (int)rdS(is), b = (int)rdS(is), c = (int)rdS(is);
        Move m(Square(a), Square(b), c, 77); e.setMove(m); os << ' ' << hx(e.getData());
    } else if (f == "getScore") { TTEntry e = entry(); os << ' ' << hs(e.getScore((int)rdS(is))); }
    else if (f == "setScore") { TTEntry e = entry(); int s = (int)rdS(is), p = (int)rdS(is); e.setScore(s, p); os << ' ' << hx(e.getData()); }
    else if (f == "getDepth") { TTEntry e = entry(); os << ' ' << hs(e.getDepth()); }
    else if (f == "setDepth") { TTEntry e = entry(); e.setDepth((int)rdS(is)); os << ' ' << hx(e.getData()); }
    else if (f == "getBusy") { TTEntry e = entry(); os << ' ' << (int)e.getBusy(); }
    else if (f == "setBusy") { TTEntry e = entry(); e.setBusy(rdS(is) != 0); os << ' ' << hx(e.getData()); }
    else if (f == "getGeneration") { TTEntry e = entry(); os << ' ' << hs(e.getGeneration()); }
    else if (f == "setGeneration") { TTEntry e = entry(); e.setGeneration((int)rdS(is)); os << ' ' << hx(e.getData()); }
    else if (f == "getType") { TTEntry e = entry(); os << ' ' << hs(e.getType()); }
    else if (f == "setType") { TTEntry e = entry(); e.setType((int)rdS(is)); os << ' ' << hx(e.getData()); }
    else if (f == "getEvalScore") { TTEntry e = entry(); os << ' ' << hs(e.getEvalScore()); }
    else if (f == "setEvalScore") { TTEntry e = entry(); e.setEvalScore((int)rdS(is)); os << ' ' << hx(e.getData()); }
    else if (f == "isCutOff") {
        TTEntry e = entry(); int a = (int)rdS(is), b = (int)rdS(is), p = (int)rdS(is), d = (int)rdS(is);
        os << ' ' << (int)e.isCutOff(a, b, p, d);
    } else if (f == "betterThan") {
        TTEntry e = entry(); TTEntry o = entry(); int g = (int)rdS(is);
        os << ' ' << (int)e.betterThan(o, g);
    } else if (f == "getIndex") {
        // object with the three size fields set directly (no allocation change)
        static TranspositionTable tt(4);
        tt.usedSizeTopBits = (int)rdS(is); tt.usedSizeShift = (int)rdS(is); tt.usedSizeMask = rdU(is);
        os << ' ' << hx(tt.getIndex(rdU(is)));
    } else if (f == "nextGeneration") {
        static TranspositionTable tt(4);
        tt.generation = (U8)rdU(is); tt.nextGeneration(); os << ' ' << hx(tt.generation);
    } else {
        return "V ?unknown " + f;
    }
    return os.str();
}

static int session() {
    std::unique_ptr<TranspositionTable> tt;
    std::string line;
    while (std::getline(std::cin, line)) {
        if (line.empty()) continue;
        std::istringstream is(line);
        std::string c; is >> c;
        if (c == "L") { std::cout << leaf(is) << '\n'; continue; }
        if (c == "NEW") { U64 n = rdU(is); tt.reset(); tt.reset(new TranspositionTable(n)); std::cout << stateLine(*tt) << '\n'; continue; }
        if (!tt) { std::cout << "ERR no table\n"; continue; }
        if (c == "ALLOCFAIL") { U64 thr = rdU(is); g_failBytes = thr ? thr * 16 + 72 : 0; std::cout << "A " << hx(thr) << '\n'; continue; }
        if (c == "RESIZE") { int x = guardedReSize(*tt, rdU(is)); std::cout << stateLine(*tt) << " x=" << x << '\n'; continue; }
        if (c == "SETUPTT") {
            // the loop of EngineMainThread::setupTT (app/texel/enginecontrol.cpp)
            U64 nEntries = rdU(is); int x = 0;
            while (true) {
                if (nEntries < 1) break;
                if (guardedReSize(*tt, nEntries) == 0) break;
                x++; nEntries /= 2;
            }
            std::cout << stateLine(*tt) << " x=" << x << '\n'; continue;
        }
        if (!tt->table && (c == "CLEAR" || c == "TBON" || c == "TBOFF" || c == "INS" || c == "PROBE" || c == "BUSY" ||
                           c == "PUTB" || c == "GETB" || c == "TBW" || c == "TBR" || c == "TBSUM")) {
            // `table` is a null pointer: the operation would index off nullptr.  Run insert/probe in a
            // child process to show what happens, and report instead of crashing the harness.
            std::string sig = "-";
            if (c == "INS" || c == "PROBE" || c == "BUSY") {
                U64 key = rdU(is);
                std::cout.flush();
                pid_t pid = fork();
                if (pid == 0) {
                    fclose(stderr);
                    if (c == "INS") { Move m(Square(1), Square(2), 0, 0); tt->insert(key, m, 1, 0, 1, 0); }
                    else { TTEntry ent; tt->probe(key, ent); }
                    _exit(0);
                }
                int st = 0; waitpid(pid, &st, 0);
                sig = WIFSIGNALED(st) ? std::to_string(WTERMSIG(st)) : "0";
            }
            std::cout << "NULL " << hx(tt->tableSize) << " sig=" << sig << '\n';
            continue;
        }
        if (c == "CLEAR") { tt->clear(); std::cout << stateLine(*tt) << '\n'; }
        else if (c == "GEN") { tt->nextGeneration(); std::cout << stateLine(*tt) << '\n'; }
        else if (c == "CONTEMPT") { tt->setWhiteContempt((int)rdS(is)); std::cout << stateLine(*tt) << '\n'; }
        else if (c == "TBON") {
            Position pos = TextIO::readFEN("8/8/8/4k3/8/8/3Q4/4K3 w - - 0 1");
            RelaxedShared<S64> maxT(-1);
            bool ok = tt->updateTB(pos, maxT);
            std::cout << stateLine(*tt) << ' ' << (ok ? 1 : 0) << '\n';
        } else if (c == "TBOFF") {
            Position pos = TextIO::readFEN(TextIO::startPosFEN);
            RelaxedShared<S64> maxT(-1);
            for (int i = 0; i < 8 && tt->updateTB(pos, maxT); i++) {}
            std::cout << stateLine(*tt) << '\n';
        } else if (c == "INS") {
            U64 key = rdU(is);
            int from = (int)rdS(is), to = (int)rdS(is), promo = (int)rdS(is), score = (int)rdS(is);
            int type = (int)rdS(is), ply = (int)rdS(is), depth = (int)rdS(is), eval = (int)rdS(is);
            bool busy = rdS(is) != 0;
            if (overrun(*tt, key)) { std::cout << "OOR\n"; continue; }
            Move m(Square(from), Square(to), promo, score);
            tt->insert(key, m, type, ply, depth, eval, busy);
            std::cout << bucketLine(*tt, key) << '\n';
        } else if (c == "PROBE") {
            U64 key = rdU(is); U64 rk = rdU(is), rd = rdU(is);
            if (overrun(*tt, key)) { std::cout << "OOR\n"; continue; }
            TTEntry ent(rk, rd);
            tt->probe(key, ent);
            std::cout << "R " << hx(ent.getKey()) << ' ' << hx(ent.getData()) << ' ' << bucketLine(*tt, key) << '\n';
        } else if (c == "BUSY") {
            U64 key = rdU(is); int ply = (int)rdS(is);
            if (overrun(*tt, key)) { std::cout << "OOR\n"; continue; }
            TTEntry ent;
            tt->probe(key, ent);
            if (ent.getType() != TType::T_EMPTY) {
                // setBusy inserts under ent.getKey(): make sure that bucket is in range too
                if (overrun(*tt, ent.getKey())) { std::cout << "OOR\n"; continue; }
                tt->setBusy(ent, ply);
            }
            std::cout << "R " << hx(ent.getKey()) << ' ' << hx(ent.getData()) << ' ' << bucketLine(*tt, key);
            if (ent.getType() != TType::T_EMPTY)
                std::cout << ' ' << bucketLine(*tt, ent.getKey());
            std::cout << '\n';
        } else if (c == "IDX") {
            U64 key = rdU(is);
            std::cout << "I " << hx(tt->getIndex(key ^ tt->contemptHash)) << '\n';
        } else if (c == "PUTB") {
            U64 idx = rdU(is); U8 v = (U8)rdU(is);
            if (idx / 16 >= tt->tableSize) { std::cout << "OOR\n"; continue; }
            tt->putByte(idx, v);
            std::cout << "Y " << hx(tt->table[idx / 16].key.load()) << ' ' << hx(tt->table[idx / 16].data.load()) << '\n';
        } else if (c == "GETB") {
            U64 idx = rdU(is);
            if (idx / 16 >= tt->tableSize) { std::cout << "OOR\n"; continue; }
            std::cout << "Y " << hx(tt->getByte(idx)) << '\n';
        } else if (c == "TBW" || c == "TBR") {
            U32 size = (U32)rdU(is); U32 idx = (U32)rdU(is);
            if (!(tt->byteSize() > size)) { std::cout << "OOR\n"; continue; }
            TTStorage st(*tt);
            st.resize(size);
            U64 b = st.idx0 + idx;
            if (b / 16 >= tt->tableSize) { std::cout << "OOR\n"; continue; }
            if (c == "TBW") {
                U8 v = (U8)rdU(is);
                tt->putByte(b, v);
                std::cout << "Y " << hx(b / 16) << ' ' << hx(tt->table[b / 16].key.load()) << ' ' << hx(tt->table[b / 16].data.load()) << '\n';
            } else {
                std::cout << "Y " << hx(b / 16) << ' ' << hx(tt->getByte(b)) << '\n';
            }
        } else if (c == "TBSUM") {
            std::cout << "T " << hx(tbSum(*tt)) << '\n';
        } else {
            std::cout << "ERR unknown command " << c << '\n';
        }
    }
    return 0;
}

// ---- multi-threaded hammer ----
struct Rec { char kind; U64 key; U64 data; };

static U64 splitmix(U64& s) {
    U64 z = (s += 0x9E3779B97F4A7C15ULL);
    z = (z ^ (z >> 30)) * 0xBF58476D1CE4E5B9ULL;
    z = (z ^ (z >> 27)) * 0x94D049BB133111EBULL;
    return z ^ (z >> 31);
}

static int hammer(int argc, char** argv) {
    if (argc < 9) { fprintf(stderr, "usage: hammer threads ops nkeys seed ngen size contempt\n"); return 2; }
    int nThreads = atoi(argv[2]); int nOps = atoi(argv[3]); int nKeys = atoi(argv[4]);
    U64 seed = strtoull(argv[5], nullptr, 10); int nGen = atoi(argv[6]);
    U64 size = strtoull(argv[7], nullptr, 10); int contempt = atoi(argv[8]);
    TranspositionTable tt(size);
    tt.setWhiteContempt(contempt);
    for (int i = 0; i < nGen; i++) tt.nextGeneration();
    // keys: same bucket (same top 16 bits and same low bits), different middle bits; plus a
    // second bucket so that several buckets are exercised
    std::vector<U64> keys;
    U64 s0 = seed;
    U64 topA = splitmix(s0) & 0xffff000000000000ULL, lowA = splitmix(s0) & 0xffffffULL;
    U64 topB = splitmix(s0) & 0xffff000000000000ULL, lowB = splitmix(s0) & 0xffffffULL;
    for (int i = 0; i < nKeys; i++) {
        U64 mid = (splitmix(s0) & 0xffffffULL) << 24;
        keys.push_back((i % 4 == 3) ? (topB | mid | lowB) : (topA | mid | lowA));
    }
    std::vector<std::vector<Rec>> logs(nThreads);
    std::atomic<int> ready(0);
    std::atomic<bool> go(false);
    auto work = [&](int tn) {
        U64 s = seed * 1000003ULL + tn * 7919ULL + 1;
        std::vector<Rec>& log = logs[tn];
        log.reserve(nOps);
        ready++;
        while (!go.load()) {}
        for (int i = 0; i < nOps; i++) {
            U64 r = splitmix(s);
            U64 key = keys[r % keys.size()];
            if ((r >> 8) % 2 == 0) {
                U64 q = splitmix(s);
                int from = q & 63, to = ((q >> 6) & 63);
                if (to == from) to = (from + 1) & 63;          // non-empty move: every field is overwritten
                int promo = (q >> 12) & 15;
                int score = (int)((q >> 16) % 60001) - 30000;
                int type = 1 + (int)((q >> 40) % 3);
                int ply = (int)((q >> 44) % 64);
                int depth = (int)((q >> 50) % 200);
                int eval = (int)((q >> 32) & 0xff) - 128;
                Move m(Square(from), Square(to), promo, score);
                // the words this insert writes if it stores (computed through the entry API)
                TTEntry e;
                e.setMove(m); e.setKey(key ^ tt.contemptHash); e.setScore(score, ply); e.setDepth(depth);
                e.setBusy(false); e.setGeneration((S8)tt.generation); e.setType(type); e.setEvalScore(eval);
                log.push_back(Rec{'S', e.getKey(), e.getData()});
                tt.insert(key, m, type, ply, depth, eval, false);
            } else {
                TTEntry ent;
                tt.probe(key, ent);
                if (ent.getType() != TType::T_EMPTY || ent.getKey() != 0 || ent.getData() != 0)
                    log.push_back(Rec{'P', key ^ tt.contemptHash, 0}), log.push_back(Rec{'R', ent.getKey(), ent.getData()});
                else
                    log.push_back(Rec{'M', key ^ tt.contemptHash, 0});
            }
        }
    };
    std::vector<std::thread> th;
    for (int t = 0; t < nThreads; t++) th.emplace_back(work, t);
    while (ready.load() < nThreads) {}
    go.store(true);
    for (auto& t : th) t.join();
    printf("G %llx %llx\n", (unsigned long long)tt.generation, (unsigned long long)tt.contemptHash);
    for (size_t i = 0; i < keys.size(); i++)
        printf("K %llx %llx\n", (unsigned long long)(keys[i] ^ tt.contemptHash), (unsigned long long)tt.getIndex(keys[i] ^ tt.contemptHash));
    for (int t = 0; t < nThreads; t++)
        for (const Rec& r : logs[t])
            printf("%c %d %llx %llx\n", r.kind, t, (unsigned long long)r.key, (unsigned long long)r.data);
    return 0;
}

int main(int argc, char** argv) {
    if (argc >= 2 && std::string(argv[1]) == "hammer")
        return hammer(argc, argv);
    return session();
}
