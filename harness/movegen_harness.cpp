// Correspondence harness for C01: drives the real MoveGen / BitBoard / Position / TextIO code.
//
//   movegen_harness expand        stdin: case lines, stdout: one raw position per accepted case
//       F <fen>                         position from TextIO::readFEN
//       M <fen> ; <uci> <uci> ...       readFEN, then the moves (each must be in the engine's legal list)
//       G <seed> <plies> <every> <fen>  random legal game from <fen>; emits every <every>-th position
//     output:  "POS <raw>"  or  "REJECT <reason>"   (a G line emits several POS lines, then "END")
//     <raw> = 64 board characters a1..h8 ('.' empty, KQRBNPkqrbnp) <w|b> <castleMask> <epSquare|-1>
//   movegen_harness eval          stdin: raw positions; stdout: one result line per position
//   movegen_harness tables        prints every step-piece / between / direction / bit-scan table entry
//   movegen_harness sliders       stdin: "R|B <sq> <occupied>"; stdout: attack set from the real tables
#include <algorithm>
#include <cstdint>
#include <cstdio>
#include <cstdlib>
#include <cstring>
#include <iostream>
#include <sstream>
#include <string>
#include <vector>
#define private public
#define protected public
#include "bitBoard.hpp"
#include "position.hpp"
#include "moveGen.hpp"
#include "textio.hpp"
#undef private
#undef protected

static const char* pieceChars = ".KQRBNPkqrbnp";

static std::string rawOf(const Position& pos) {
    std::string s;
    for (int i = 0; i < 64; i++)
        s += pieceChars[pos.getPiece(Square(i))];
    std::ostringstream os;
    os << s << ' ' << (pos.isWhiteMove() ? 'w' : 'b') << ' ' << pos.getCastleMask() << ' '
       << (pos.getEpSquare().isValid() ? pos.getEpSquare().asInt() : -1);
    return os.str();
}

static bool parseRaw(const std::string& line, Position& pos) {
    std::istringstream is(line);
    std::string b, side; int cm, ep;
    if (!(is >> b >> side >> cm >> ep) || b.size() != 64)
        return false;
    pos = Position();
    for (int i = 0; i < 64; i++) {
        const char* p = strchr(pieceChars, b[i]);
        if (!p) return false;
        int pc = (int)(p - pieceChars);
        if (pc != Piece::EMPTY)
            pos.setPiece(Square(i), pc);
    }
    pos.setWhiteMove(side == "w");
    pos.setCastleMask(cm);
    pos.setEpSquare(Square(ep));
    return true;
}

static std::string mvStr(const Move& m) {
    std::string s;
    int f = m.from().asInt(), t = m.to().asInt();
    s += (char)('a' + (f & 7)); s += (char)('1' + (f >> 3));
    s += (char)('a' + (t & 7)); s += (char)('1' + (t >> 3));
    switch (m.promoteTo()) {
    case Piece::EMPTY: break;
    case Piece::WQUEEN: case Piece::BQUEEN: s += 'q'; break;
    case Piece::WROOK: case Piece::BROOK: s += 'r'; break;
    case Piece::WBISHOP: case Piece::BBISHOP: s += 'b'; break;
    case Piece::WKNIGHT: case Piece::BKNIGHT: s += 'n'; break;
    default: s += '?'; s += std::to_string(m.promoteTo()); break;
    }
    return s;
}

static std::string listStr(const MoveList& ml) {
    if (ml.size == 0) return "-";
    std::string s;
    for (int i = 0; i < ml.size; i++) {
        if (i) s += ',';
        s += mvStr(ml[i]);
    }
    return s;
}

struct Snapshot {
    int squares[64]; U64 bb[13]; U64 w, b; bool wtm; int cm, ep, hmc, fmc; U64 hash, phash; int matId, wM, bM, wP, bP;
    bool operator==(const Snapshot& o) const {
        for (int i = 0; i < 64; i++) if (squares[i] != o.squares[i]) return false;
        for (int i = 1; i < 13; i++) if (bb[i] != o.bb[i]) return false;   // index 0 (EMPTY) is never read by the engine
        return w == o.w && b == o.b && wtm == o.wtm && cm == o.cm && ep == o.ep && hmc == o.hmc && fmc == o.fmc &&
               hash == o.hash && phash == o.phash && matId == o.matId && wM == o.wM && bM == o.bM && wP == o.wP && bP == o.bP;
    }
};
static Snapshot snap(const Position& p) {
    Snapshot s;
    for (int i = 0; i < 64; i++) s.squares[i] = p.getPiece(Square(i));
    for (int i = 0; i < 13; i++) s.bb[i] = p.pieceTypeBB((Piece::Type)i);
    s.w = p.whiteBB(); s.b = p.blackBB(); s.wtm = p.isWhiteMove(); s.cm = p.getCastleMask();
    s.ep = p.getEpSquare().asInt(); s.hmc = p.getHalfMoveClock(); s.fmc = p.getFullMoveCounter();
    s.hash = p.zobristHash(); s.phash = p.pawnZobristHash(); s.matId = p.materialId();
    s.wM = p.wMtrl(); s.bM = p.bMtrl(); s.wP = p.wMtrlPawns(); s.bP = p.bMtrlPawns();
    return s;
}

static std::string evalPosition(Position& pos) {
    const Snapshot s0 = snap(pos);
    bool restored = true;
    std::ostringstream os;
    MoveList pl, ev, cc, cap;
    MoveGen::pseudoLegalMoves(pos, pl);
    MoveGen::checkEvasions(pos, ev);
    MoveGen::pseudoLegalCapturesAndChecks(pos, cc);
    MoveGen::pseudoLegalCaptures(pos, cap);
    bool inCheck = MoveGen::inCheck(pos);
    os << "pl=" << listStr(pl) << " ev=" << listStr(ev) << " cc=" << listStr(cc) << " cap=" << listStr(cap);
    os << " ck=" << (inCheck ? 1 : 0);
    std::string vd;
    for (int i = 0; i < pl.size; i++) {
        bool lg = MoveGen::isLegal(pos, pl[i], inCheck);
        if (!(snap(pos) == s0)) restored = false;
        bool gc = MoveGen::givesCheck(pos, pl[i]);
        vd += (char)('0' + (lg ? 1 : 0) + (gc ? 2 : 0));
    }
    os << " vd=" << (vd.empty() ? "-" : vd);
    MoveList lg = pl;
    MoveGen::removeIllegal(pos, lg);
    if (!(snap(pos) == s0)) restored = false;
    os << " lg=" << listStr(lg);
    MoveList evl = ev; MoveGen::removeIllegal(pos, evl);
    MoveList ccl = cc; MoveGen::removeIllegal(pos, ccl);
    MoveList capl = cap; MoveGen::removeIllegal(pos, capl);
    if (!(snap(pos) == s0)) restored = false;
    os << " evl=" << listStr(evl) << " ccl=" << listStr(ccl) << " capl=" << listStr(capl);
    bool ctk = MoveGen::canTakeKing(pos);
    if (!(snap(pos) == s0)) restored = false;
    os << " ctk=" << (ctk ? 1 : 0) << " rest=" << (restored ? 1 : 0);
    // statistics only (not compared): number of pieces giving check, maximum list length
    int nchk = 0;
    {
        bool wtm = pos.isWhiteMove();
        Square k = pos.getKingSq(wtm);
        U64 occ = pos.occupiedBB();
        U64 att = 0;
        att |= BitBoard::knightAttacks(k) & pos.pieceTypeBB(wtm ? Piece::BKNIGHT : Piece::WKNIGHT);
        att |= (wtm ? BitBoard::wPawnAttacks(k) : BitBoard::bPawnAttacks(k)) & pos.pieceTypeBB(wtm ? Piece::BPAWN : Piece::WPAWN);
        U64 q = pos.pieceTypeBB(wtm ? Piece::BQUEEN : Piece::WQUEEN);
        att |= BitBoard::rookAttacks(k, occ) & (q | pos.pieceTypeBB(wtm ? Piece::BROOK : Piece::WROOK));
        att |= BitBoard::bishopAttacks(k, occ) & (q | pos.pieceTypeBB(wtm ? Piece::BBISHOP : Piece::WBISHOP));
        nchk = BitBoard::bitCount(att);
    }
    os << " # nchk=" << nchk << " fen=" << TextIO::toFEN(pos);
    return os.str();
}

// ---------------------------------------------------------------------------------------------
static uint64_t rngState;
static uint64_t rnd() {   // splitmix64
    uint64_t z = (rngState += 0x9e3779b97f4a7c15ULL);
    z = (z ^ (z >> 30)) * 0xbf58476d1ce4e5b9ULL;
    z = (z ^ (z >> 27)) * 0x94d049bb133111ebULL;
    return z ^ (z >> 31);
}

static bool readFenChecked(const std::string& fen, Position& pos, std::string& err) {
    try {
        pos = TextIO::readFEN(fen);
        return true;
    } catch (const ChessParseError& e) {
        err = e.what();
    } catch (const std::exception& e) {
        err = std::string("exception ") + e.what();
    }
    return false;
}

// the property's domain: at most 16 men per side (more can overflow MoveList's 256 entries)
static bool inDomain(const Position& pos) {
    return BitBoard::bitCount(pos.whiteBB()) <= 16 && BitBoard::bitCount(pos.blackBB()) <= 16;
}

static int expandMain() {
    std::string line;
    while (std::getline(std::cin, line)) {
        if (line.empty()) continue;
        char kind = line[0];
        std::string rest = line.size() > 2 ? line.substr(2) : "";
        Position pos; std::string err;
        if (kind == 'F') {
            if (readFenChecked(rest, pos, err)) std::cout << "POS " << rawOf(pos) << '\n';
            else std::cout << "REJECT " << err << '\n';
        } else if (kind == 'M') {
            size_t sc = rest.find(';');
            std::string fen = rest.substr(0, sc);
            std::string mvs = sc == std::string::npos ? "" : rest.substr(sc + 1);
            if (!readFenChecked(fen, pos, err)) { std::cout << "REJECT " << err << '\n'; continue; }
            if (!inDomain(pos)) { std::cout << "REJECT more than 16 men\n"; continue; }
            std::istringstream is(mvs); std::string ms; bool ok = true;
            while (is >> ms) {
                MoveList ml; MoveGen::pseudoLegalMoves(pos, ml); MoveGen::removeIllegal(pos, ml);
                bool found = false;
                for (int i = 0; i < ml.size; i++)
                    if (mvStr(ml[i]) == ms) { UndoInfo ui; pos.makeMove(ml[i], ui); found = true; break; }
                if (!found) { ok = false; break; }
            }
            if (ok) std::cout << "POS " << rawOf(pos) << '\n';
            else std::cout << "REJECT move not legal: " << ms << '\n';
        } else if (kind == 'G') {
            std::istringstream is(rest);
            unsigned long long seed; int plies, every;
            is >> seed >> plies >> every;
            std::string fen; std::getline(is, fen);
            while (!fen.empty() && fen[0] == ' ') fen.erase(0, 1);
            if (!readFenChecked(fen, pos, err)) { std::cout << "REJECT " << err << "\nEND\n"; continue; }
            if (!inDomain(pos)) { std::cout << "REJECT more than 16 men\nEND\n"; continue; }
            rngState = seed;
            for (int ply = 0; ply < plies; ply++) {
                if (ply % every == 0) std::cout << "POS " << rawOf(pos) << '\n';
                MoveList ml; MoveGen::pseudoLegalMoves(pos, ml); MoveGen::removeIllegal(pos, ml);
                if (ml.size == 0) break;
                // prefer captures/promotions/pawn double pushes now and then so that games get sharp
                int pick = (int)(rnd() % ml.size);
                if (rnd() % 4 == 0) {
                    std::vector<int> sharp;
                    for (int i = 0; i < ml.size; i++)
                        if (pos.getPiece(ml[i].to()) != Piece::EMPTY || ml[i].promoteTo() != Piece::EMPTY)
                            sharp.push_back(i);
                    if (!sharp.empty()) pick = sharp[rnd() % sharp.size()];
                }
                UndoInfo ui; pos.makeMove(ml[pick], ui);
                if (pos.getHalfMoveClock() >= 100) break;
            }
            std::cout << "END\n";
        } else {
            std::cout << "REJECT unknown case kind\n";
        }
    }
    return 0;
}

static int evalMain() {
    std::string line;
    while (std::getline(std::cin, line)) {
        if (line.empty()) continue;
        Position pos;
        if (!parseRaw(line, pos) || !inDomain(pos)) { std::cout << "BAD\n"; continue; }
        std::cout << evalPosition(pos) << '\n';
    }
    return 0;
}

// perft from raw positions: "<depth> <raw>"  ->  node count
static U64 perft(Position& pos, int depth) {
    if (depth == 0) return 1;
    MoveList ml; MoveGen::pseudoLegalMoves(pos, ml); MoveGen::removeIllegal(pos, ml);
    if (depth == 1) return ml.size;
    U64 n = 0;
    for (int i = 0; i < ml.size; i++) {
        UndoInfo ui; pos.makeMove(ml[i], ui);
        n += perft(pos, depth - 1);
        pos.unMakeMove(ml[i], ui);
    }
    return n;
}

static int perftMain() {
    std::string line;
    while (std::getline(std::cin, line)) {
        if (line.empty()) continue;
        std::istringstream is(line);
        int depth; is >> depth;
        std::string raw; std::getline(is, raw);
        while (!raw.empty() && raw[0] == ' ') raw.erase(0, 1);
        Position pos;
        if (!parseRaw(raw, pos)) { std::cout << "BAD\n"; continue; }
        // per-move breakdown (divide) so that a disagreement localises
        MoveList ml; MoveGen::pseudoLegalMoves(pos, ml); MoveGen::removeIllegal(pos, ml);
        std::vector<std::string> parts;
        U64 total = 0;
        for (int i = 0; i < ml.size; i++) {
            UndoInfo ui; pos.makeMove(ml[i], ui);
            U64 n = perft(pos, depth - 1);
            pos.unMakeMove(ml[i], ui);
            total += n;
            parts.push_back(mvStr(ml[i]) + ":" + std::to_string(n));
        }
        std::sort(parts.begin(), parts.end());
        std::cout << total;
        for (auto& p : parts) std::cout << ' ' << p;
        std::cout << '\n';
    }
    return 0;
}

static int tablesMain() {
    for (int sq = 0; sq < 64; sq++) {
        std::cout << "step " << sq << ' ' << BitBoard::kingAttacks(Square(sq)) << ' ' << BitBoard::knightAttacks(Square(sq)) << ' '
                  << BitBoard::wPawnAttacks(Square(sq)) << ' ' << BitBoard::bPawnAttacks(Square(sq)) << ' '
                  << BitBoard::rMasks[Square(sq)] << ' ' << BitBoard::bMasks[Square(sq)] << '\n';
    }
    for (int f = 0; f < 8; f++)
        std::cout << "ep " << f << ' ' << BitBoard::epMaskW[f] << ' ' << BitBoard::epMaskB[f] << '\n';
    for (int a = 0; a < 64; a++) {
        std::cout << "between " << a;
        for (int b = 0; b < 64; b++) std::cout << ' ' << BitBoard::squaresBetween(Square(a), Square(b));
        std::cout << '\n';
        std::cout << "dir " << a;
        for (int b = 0; b < 64; b++) std::cout << ' ' << BitBoard::getDirection(Square(a), Square(b));
        std::cout << '\n';
    }
    return 0;
}

// "W <word>" -> firstBit lastBit bitCount ; "R|B <sq> <occ>" -> attack set
static int wordsMain() {
    std::string line;
    while (std::getline(std::cin, line)) {
        if (line.empty()) continue;
        std::istringstream is(line);
        std::string k; is >> k;
        if (k == "W") {
            U64 w; is >> w;
            if (w == 0) { std::cout << "- - 0\n"; continue; }
            std::cout << BitUtil::firstBit(w) << ' ' << BitUtil::lastBit(w) << ' ' << BitUtil::bitCount(w) << '\n';
        } else if (k == "R" || k == "B") {
            int sq; U64 occ; is >> sq >> occ;
            U64 a = k == "R" ? BitBoard::rookAttacks(Square(sq), occ) : BitBoard::bishopAttacks(Square(sq), occ);
            std::cout << a << '\n';
        } else if (k == "RALL" || k == "BALL") {
            // every subset of the relevant-occupancy mask of a square, in createPattern order
            int sq; is >> sq;
            bool rook = k == "RALL";
            U64 mask = rook ? BitBoard::rMasks[Square(sq)] : BitBoard::bMasks[Square(sq)];
            int n = 1 << BitBoard::bitCount(mask);
            U64 h = 1469598103934665603ULL;
            std::ostringstream os;
            U64 sub = 0;
            for (int i = 0; i < n; i++) {
                U64 a = rook ? BitBoard::rookAttacks(Square(sq), sub) : BitBoard::bishopAttacks(Square(sq), sub);
                os << ' ' << a;
                sub = (sub - mask) & mask;     // next subset (Carry-Rippler) = createPattern order
            }
            (void)h;
            std::cout << n << os.str() << '\n';
        } else {
            std::cout << "BAD\n";
        }
    }
    return 0;
}

int main(int argc, char** argv) {
    std::ios::sync_with_stdio(false);
    std::string mode = argc > 1 ? argv[1] : "eval";
    if (mode == "expand") return expandMain();
    if (mode == "eval") return evalMain();
    if (mode == "perft") return perftMain();
    if (mode == "tables") return tablesMain();
    if (mode == "words") return wordsMain();
    std::cerr << "unknown mode\n";
    return 2;
}
