// Synthetic evaluation networks (the tree's nndata.tbin.compr is empty).  Built from /repo's
// own NetData::save and Lzma86_Encode, so the file is exactly what Evaluate expects.
//   mknet <kind> <seed> <out.compr>      kind = material | random | extreme | zero
#include "nntypes.hpp"
#include "random.hpp"
#include <fstream>
#include <iostream>
#include <sstream>
#include <string>
#include <vector>
#include <cstring>
extern "C" {
#include "Lzma86Enc.h"
}

static int ptVal(int pt) { // pt 0..4 = Q R B N P (own), 5..9 enemy
    static const int v[5] = {27, 15, 10, 9, 3};
    return v[pt % 5];
}

int main(int argc, char** argv) {
    if (argc < 4) { std::cerr << "usage: mknet kind seed out" << std::endl; return 2; }
    std::string kind = argv[1];
    U64 seed = std::stoull(argv[2]);
    std::shared_ptr<NetData> netP = NetData::create();
    NetData& net = *netP;
    Random rnd(seed * 7919 + 17);
    auto r = [&](int lo, int hi) { return lo + (int)(rnd.nextU64() % (U64)(hi - lo + 1)); };

    memset(&net.weight1.data[0], 0, sizeof(net.weight1.data));
    memset(&net.bias1.data[0], 0, sizeof(net.bias1.data));
    for (int h = 0; h < NetData::nHeads; h++) {
        memset(&net.head[h], 0, sizeof(net.head[h]));
    }
    const int n1 = NetData::n1;
    if (kind == "material") {
        for (int k = 0; k < 32; k++)
            for (int pt = 0; pt < 10; pt++)
                for (int sq = 0; sq < 64; sq++) {
                    int idx = (k * 10 + pt) * 64 + sq;
                    net.weight1(idx, pt < 5 ? 0 : 1) = 4 * ptVal(pt);
                    for (int u = 2; u < 10; u++)          // small positional noise
                        net.weight1(idx, u) = r(-6, 6);
                }
        for (int u = 2; u < 10; u++) net.bias1(u) = 40;
        for (int h = 0; h < NetData::nHeads; h++) {
            NetData::Head& hd = net.head[h];
            for (int i = 0; i < 16; i++) {          // units 0..15: relu(M-O); 16..31: relu(O-M)
                hd.lin2.weight(i, 0) = 64;      hd.lin2.weight(i, 1) = -64;
                hd.lin2.weight(16 + i, 0) = -64; hd.lin2.weight(16 + i, 1) = 64;
                hd.lin3.weight(i, i) = 64;      hd.lin3.weight(16 + i, 16 + i) = 64;
                hd.lin4.weight(0, i) = 127;     hd.lin4.weight(0, 16 + i) = -127;
            }
            for (int u = 2; u < 10; u++) {          // noise path, mover's half minus opponent's half
                hd.lin2.weight(u, u) = (S8)(hd.lin2.weight(u, u) + r(1, 3));
                hd.lin2.weight(u, n1 + u) = (S8)(hd.lin2.weight(u, n1 + u) - r(1, 3));
            }
        }
    } else if (kind == "random" || kind == "extreme") {
        bool ex = kind == "extreme";
        int w1 = ex ? 900 : 24, wl = ex ? 127 : 12;
        for (size_t i = 0; i < COUNT_OF(net.weight1.data); i++) net.weight1.data[i] = (S16)r(-w1, w1);
        for (int i = 0; i < n1; i++) net.bias1(i) = (S16)r(ex ? -3000 : -30, ex ? 3000 : 60);
        for (int h = 0; h < NetData::nHeads; h++) {
            NetData::Head& hd = net.head[h];
            for (size_t i = 0; i < COUNT_OF(hd.lin2.weight.data); i++) hd.lin2.weight.data[i] = (S8)r(-wl, wl);
            for (size_t i = 0; i < COUNT_OF(hd.lin3.weight.data); i++) hd.lin3.weight.data[i] = (S8)r(-wl, wl);
            for (size_t i = 0; i < COUNT_OF(hd.lin4.weight.data); i++) hd.lin4.weight.data[i] = (S8)r(-wl, wl);
            for (int i = 0; i < NetData::n2; i++) hd.lin2.bias(i) = r(ex ? -20000 : -500, ex ? 20000 : 2000);
            for (int i = 0; i < NetData::n3; i++) hd.lin3.bias(i) = r(ex ? -20000 : -500, ex ? 20000 : 2000);
            hd.lin4.bias(0) = r(ex ? -100000 : -200, ex ? 100000 : 200);
        }
    } else if (kind != "zero") {
        std::cerr << "unknown kind" << std::endl; return 2;
    }

    std::stringstream ss;
    net.save(ss);
    std::string data = ss.str();
    size_t outSize = data.size();
    std::vector<unsigned char> compr(outSize);
    int res = Lzma86_Encode(compr.data(), &outSize, (unsigned char*)&data[0], data.size(), 5, 16 * 1024 * 1024, SZ_FILTER_NO);
    if (res != SZ_OK) { std::cerr << "compress failed" << std::endl; return 1; }
    std::ofstream os(argv[3], std::ios::binary);
    os.write((const char*)compr.data(), outSize);
    return os.good() ? 0 : 1;
}
