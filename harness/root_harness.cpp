// Correspondence harness for C03: calls the real bookkeeping code of the engine, without running a search.
// An EngineControl is created in-process; its search thread is never started, so EngineControl::startSearch /
// startPonder run computeTimeLimit + startThread (legal move generation, searchmoves filter, onePossibleMove,
// limit rewriting, Search construction with strength/seed) and just leave the job parked in EngineMainThread.
//
// Commands (one per line, fields separated by '|'):
//   START|fen|moves|go tokens|strength|seed|ponder(0/1)
//        -> legal=.. moves=.. one=. inf=. in=minT,maxT,maxDepth,maxNodes out=minT,maxT,maxDepth zh=.. ord=m:s,.. root=..
//           (root = Search::getRootMoves on the Search object startThread built; "-" when there is nothing to search)
//   NOTIFY|maxPV|mi|entry;entry;...      entry = move,score,depth,alpha,beta,pv moves (space separated)
//        -> the info lines SearchListener prints for Search::notifyPV(rootMoves, mi, maxPV), joined by " / ",
//           with the time/nodes/nps fields removed
//   PV|fen|first move|tt entries   entry = ply:move (inserted for the position reached after `ply` moves of the line)
//        line = first move followed by the entries' moves in order of ply; garbage entries are "ply:move:g"
//        -> pv=.. ponder=.. rootlegal=.. chain=zh,hh,legal moves,ttmove;...
#include <cstdio>
#include <cstdlib>
#include <iostream>
#include <sstream>
#include <string>
#include <vector>
#include <map>
#include <atomic>
#include <memory>
#include <mutex>
#include <condition_variable>
#include <thread>
#include <fstream>
#include <regex>
#include <random>
#include <algorithm>
#include <functional>

#define private public
#define protected public
#include "enginecontrol.hpp"
#include "uciprotocol.hpp"
#include "searchparams.hpp"
#include "search.hpp"
#include "textio.hpp"
#include "moveGen.hpp"
#include "parameters.hpp"
#include "transpositionTable.hpp"
#include "constants.hpp"
#include "computerPlayer.hpp"
#undef private
#undef protected

static std::vector<std::string> splitBy(const std::string& s, char sep) {
    std::vector<std::string> out;
    std::string cur;
    for (char c : s) {
        if (c == sep) { out.push_back(cur); cur.clear(); }
        else cur += c;
    }
    out.push_back(cur);
    return out;
}

static std::vector<std::string> words(const std::string& s) {
    std::vector<std::string> out;
    std::istringstream is(s);
    std::string w;
    while (is >> w) out.push_back(w);
    return out;
}

static std::string mv(const Move& m) {
    if (m.from() == m.to() && m.from().asInt() == 0 && m.promoteTo() == 0) return "0000";
    return TextIO::moveToUCIString(m);
}

static std::string movesStr(const MoveList& ml) {
    std::string r;
    for (int i = 0; i < ml.size; i++) { if (i) r += ' '; r += mv(ml[i]); }
    return r;
}

static MoveList legalMoves(const Position& pos0) {
    Position pos(pos0);
    MoveList ml;
    MoveGen::pseudoLegalMoves(pos, ml);
    MoveGen::removeIllegal(pos, ml);
    return ml;
}

struct Env {
    std::ostringstream os;
    EngineMainThread emt;
    SearchListener listener;
    EngineControl ec;
    Env() : listener(os), ec(os, emt, listener) {}
};

static void parseGo(const std::vector<std::string>& tokens, SearchParams& sPar) {
    // same token handling as UCIProtocol::handleCommand ("go" branch)
    int nTok = (int)tokens.size();
    int idx = 0;
    while (idx < nTok) {
        std::string subCmd = tokens[idx++];
        if (subCmd == "searchmoves") {
            while (idx < nTok) {
                Move m = TextIO::uciStringToMove(tokens[idx]);
                if (m.isEmpty()) break;
                sPar.searchMoves.push_back(m);
                idx++;
            }
        } else if (subCmd == "wtime") { if (idx < nTok) str2Num(tokens[idx++], sPar.wTime); }
        else if (subCmd == "btime") { if (idx < nTok) str2Num(tokens[idx++], sPar.bTime); }
        else if (subCmd == "winc") { if (idx < nTok) str2Num(tokens[idx++], sPar.wInc); }
        else if (subCmd == "binc") { if (idx < nTok) str2Num(tokens[idx++], sPar.bInc); }
        else if (subCmd == "movestogo") { if (idx < nTok) str2Num(tokens[idx++], sPar.movesToGo); }
        else if (subCmd == "depth") { if (idx < nTok) str2Num(tokens[idx++], sPar.depth); }
        else if (subCmd == "nodes") { if (idx < nTok) str2Num(tokens[idx++], sPar.nodes); }
        else if (subCmd == "mate") { if (idx < nTok) str2Num(tokens[idx++], sPar.mate); }
        else if (subCmd == "movetime") { if (idx < nTok) str2Num(tokens[idx++], sPar.moveTime); }
        else if (subCmd == "infinite") { sPar.infinite = true; }
    }
}

static std::string cmdStart(Env& env, const std::vector<std::string>& f) {
    Position pos = TextIO::readFEN(f[1]);
    std::vector<Move> moves;
    for (const std::string& w : words(f[2])) moves.push_back(TextIO::uciStringToMove(w));
    SearchParams sPar(0);
    parseGo(words(f[3]), sPar);
    Parameters::instance().set("Strength", f[4]);
    env.ec.randomSeed = std::stoull(f[5]);
    bool ponder = f[6] == "1";
    if (ponder) env.ec.startPonder(pos, moves, sPar);
    else env.ec.startSearch(pos, moves, sPar);

    EngineMainThread& emt = env.emt;
    std::ostringstream out;
    const Position& root = env.ec.pos;
    out << "legal=" << movesStr(legalMoves(root));
    out << "|moves=" << movesStr(*emt.moves);
    out << "|one=" << (env.ec.onePossibleMove ? 1 : 0) << "|inf=" << (env.ec.infinite ? 1 : 0);
    out << "|in=" << env.ec.minTimeLimit << ',' << env.ec.maxTimeLimit << ',' << env.ec.maxDepth << ',' << env.ec.maxNodes;
    Search& sc = *emt.sc;
    out << "|out=" << (S64)sc.minTimeMillis << ',' << (S64)sc.maxTimeMillis << ',' << emt.maxDepth;
    out << "|zh=" << root.zobristHash();
    // the scores Search::getRootMoves will see from scoreMoveList(rootMoves, 0, 0)
    {
        MoveList copy(*emt.moves);
        sc.scoreMoveList(copy, 0, 0);
        out << "|ord=";
        for (int i = 0; i < copy.size; i++) { if (i) out << ','; out << mv(copy[i]) << ':' << copy[i].score(); }
    }
    out << "|root=";
    if (emt.moves->size <= 0) {
        out << "-";            // iterativeDeepening returns Move() before calling getRootMoves
    } else {
        sc.maxNodes = emt.maxNodes;      // iterativeDeepening: maxNodes = initialMaxNodes, before getRootMoves
        std::vector<Search::MoveInfo> rm;
        sc.getRootMoves(*emt.moves, rm, emt.maxDepth);
        for (size_t i = 0; i < rm.size(); i++) {
            if (i) out << ' ';
            out << mv(rm[i].move) << ':' << rm[i].move.score();
            if (rm[i].depth != 0 || rm[i].nodes != 0 || rm[i].knownLoss || !rm[i].pv.empty() || rm[i].alpha != 0 || rm[i].beta != 0)
                out << "!notfresh";
        }
    }
    // un-park the job so that the next startSearch does not wait for a search thread
    emt.search = false;
    return out.str();
}

static std::string stripInfo(const std::string& line) {
    // remove " time T nodes N nps P" (and tbhits) from an info line
    std::vector<std::string> t = words(line);
    std::string r;
    for (size_t i = 0; i < t.size(); i++) {
        if ((t[i] == "time" || t[i] == "nodes" || t[i] == "nps" || t[i] == "tbhits") && i + 1 < t.size()) { i++; continue; }
        if (!r.empty()) r += ' ';
        r += t[i];
    }
    return r;
}

static std::string cmdNotify(Env& env, Search& sc, const std::vector<std::string>& f) {
    int maxPV = std::atoi(f[1].c_str());
    int mi = std::atoi(f[2].c_str());
    std::vector<Search::MoveInfo> rm;
    for (const std::string& e : splitBy(f[3], ';')) {
        std::vector<std::string> g = splitBy(e, ',');
        Move m = TextIO::uciStringToMove(g[0]);
        Search::MoveInfo info(m, 0);
        info.move.setScore(std::atoi(g[1].c_str()));
        info.depth = std::atoi(g[2].c_str());
        info.alpha = std::atoi(g[3].c_str());
        info.beta = std::atoi(g[4].c_str());
        for (const std::string& w : words(g[5])) info.pv.push_back(TextIO::uciStringToMove(w));
        rm.push_back(info);
    }
    env.os.str("");
    sc.setListener(env.listener);
    sc.tStart = currentTimeMillis();
    sc.notifyPV(rm, mi, maxPV);
    std::string txt = env.os.str();
    env.os.str("");
    std::string out;
    std::istringstream is(txt);
    std::string line;
    while (std::getline(is, line)) {
        if (line.find(" pv") == std::string::npos) continue;     // the trailing "info depth d" of notifyDepth
        if (!out.empty()) out += " / ";
        out += stripInfo(line);
    }
    return "lines=" + out;
}

static std::string cmdPV(Env& env, const std::vector<std::string>& f) {
    Position root = TextIO::readFEN(f[1]);
    Move first = TextIO::uciStringToMove(f[2]);
    TranspositionTable& tt = env.emt.getTT();
    tt.reSize(1 << 16);
    tt.clear();
    // entries: ply:move[:g]  -- the line is first + non-garbage entry moves
    std::vector<std::string> ents = words(f[3]);
    {
        Position pos(root);
        UndoInfo ui;
        pos.makeMove(first, ui);
        int ply = 1;
        for (const std::string& e : ents) {
            std::vector<std::string> g = splitBy(e, ':');
            int p = std::atoi(g[0].c_str());
            Move m = TextIO::uciStringToMove(g[1]);
            bool garbage = g.size() > 2;
            while (ply < p) ply++;    // plies are given in increasing order; the line has been advanced already
            m.setScore(17);
            tt.insert(pos.historyHash(), m, TType::T_EXACT, ply, 3, 0);
            if (!garbage) {
                pos.makeMove(m, ui);
                ply++;
            }
        }
    }
    std::vector<Move> pv;
    tt.extractPVMoves(root, first, pv);
    Move ponder = env.ec.getPonderMove(root, first);
    std::ostringstream out;
    out << "pv=";
    for (size_t i = 0; i < pv.size(); i++) { if (i) out << ' '; out << mv(pv[i]); }
    out << "|ponder=" << mv(ponder);
    out << "|rootlegal=" << movesStr(legalMoves(root));
    // the world the model walks in: positions reached by following table moves (this walk does not stop at
    // repetitions; it only supplies hashes, legal-move lists and probe results)
    out << "|chain=";
    Position pos(root);
    UndoInfo ui;
    pos.makeMove(first, ui);
    for (int i = 0; i < 30; i++) {
        if (i) out << ';';
        MoveList lm = legalMoves(pos);
        TranspositionTable::TTEntry ent;
        tt.probe(pos.historyHash(), ent);
        out << pos.zobristHash() << ',' << pos.historyHash() << ',' << movesStr(lm) << ',';
        if (ent.getType() == TType::T_EMPTY) { out << '-'; break; }
        Move m;
        ent.getMove(m);
        out << mv(m);
        bool legal = false;
        for (int k = 0; k < lm.size; k++) if (lm[k] == m) legal = true;
        if (!legal) break;
        pos.makeMove(m, ui);
    }
    return out.str();
}

int main(int argc, char** argv) {
    std::ios::sync_with_stdio(false);
    ComputerPlayer::initEngine();      // as app/texel/texel.cpp main does (piece values, tables)
    Env env;
    env.emt.setupTT();
    // a stand-alone Search object for NOTIFY
    std::vector<U64> nullHist(SearchConst::MAX_SEARCH_DEPTH * 2);
    TranspositionTable tt2(1 << 12);
    Notifier notifier;
    ThreadCommunicator comm(nullptr, tt2, notifier, false);
    KillerTable kt;
    History ht;
    auto et = Evaluate::getEvalHashTables();
    Search::SearchTables st(comm.getCTT(), kt, ht, *et);
    TreeLogger treeLog;
    Position pos0 = TextIO::readFEN(TextIO::startPosFEN);
    Search sc(pos0, nullHist, 0, st, comm, treeLog);

    std::string line;
    while (std::getline(std::cin, line)) {
        if (line.empty()) continue;
        std::vector<std::string> f = splitBy(line, '|');
        std::string res;
        try {
            if (f[0] == "START" && f.size() >= 7) res = cmdStart(env, f);
            else if (f[0] == "NOTIFY" && f.size() >= 4) res = cmdNotify(env, sc, f);
            else if (f[0] == "PV" && f.size() >= 4) res = cmdPV(env, f);
            else res = "ERR bad command";
        } catch (const std::exception& ex) {
            res = std::string("ERR ") + ex.what();
            env.emt.search = false;
        }
        std::cout << res << std::endl;
    }
    return 0;
}
