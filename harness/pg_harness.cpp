// Harness for C16 (proof games): game generator, stage-wise probes of the proof-game code,
// SAN -> coordinate conversion for the certified checker, piece-count correspondence.
//
// stdin commands (one per line), stdout one block per command:
//   GAME <seed> <plies> <minMen> <mode>
//        random legal game from the initial position using the engine's MoveGen.
//        mode: 0 uniform, 1 pawn storm (promotions), 2 keep castling rights / castle,
//              3 seek en-passant rights (game is prolonged up to 12 plies to end on a double
//              push that leaves a capturable e.p. square), 4 rights-losing (king/rook moves early),
//              5 end on a checking move (prolonged up to 12 plies),
//              6 directed at the kernel search (promotions by capture/straight, file-changing pawns, bishops taken at home), all castling rights kept,
//              7 the same without the castling restriction
//        captures are forbidden once only <minMen> men are left.
//        -> "G <n> <flags> | <uci moves>"   flags: p=promotion c=castled e=e.p. capture played
//                                           E=final position has an e.p. square  m=mate s=stalemate
//   FENS | <uci moves>        -> "P <i> <canonical FEN>" for i = 0..n  (e.p. square fixed up), then "END"
//   REPLAY <goal fen> | <uci moves>
//        engine-side verdict for a move list: "R 1" iff every move is legal (MoveGen) and the final
//        position equals the goal (board, side, castling, e.p. after fix-up); else "R 0 <idx|end>"
//   BOUNDS <step> | <uci moves>
//        goal = final position; for prefixes i = 0, step, 2*step, ... and n:
//        "B <i> <distLowerBound(prefix_i -> goal)> <computeBlocked ok> <game move i touches a blocked square>"
//        (ProofGame without last-move analysis); "U <i> <the real last move is among RevMoveGen::genMoves(prefix_i)> <#candidates>";
//        then "END"
//        "X <message>" if constructing ProofGame throws.
//   LAST | <uci moves>
//        ProofGame::computeLastMoves(start, goal, useNonForcedIrreversible=false):
//        "L <k> <fen of reduced goal> | <forced last moves, forward order>"  or "LX <exception text>"
//   SAN <san moves from the initial position>     -> "U <uci moves>" or "X <idx> <message>"
//   PCOUNT <64 hex piece codes>   -> "V <validatePieceCounts: 0 ok, 1 too many white, 2 too many black> <pieceCountsValid>"
//   ENOUGH <64 hex codes pos> <64 hex codes goal> -> "N <enoughRemainingPieces>"
#include <cstdio>
#include <cstdlib>
#include <cstring>
#include <iostream>
#include <sstream>
#include <string>
#include <vector>
#include <algorithm>
#include <array>
#include <atomic>
#include <chrono>
#include <condition_variable>
#include <deque>
#include <fstream>
#include <functional>
#include <iomanip>
#include <limits>
#include <map>
#include <memory>
#include <mutex>
#include <queue>
#include <random>
#include <set>
#include <thread>
#include <type_traits>
#include <unordered_map>
#include <unordered_set>
#include <utility>
#include <cassert>
#include <cmath>
#include <climits>
#include <cstdint>
#define private public
#define protected public
#include "position.hpp"
#include "textio.hpp"
#include "moveGen.hpp"
#include "proofgame.hpp"
#include "proofkernel.hpp"
#undef private
#undef protected
// the file-local predicate RevMoveGen's pieceCountsValid: compile the translation unit into the
// harness (its definitions then replace the archive member at link time)
#include "revmovegen.cpp"

typedef unsigned long long u64;

struct Rng {
    u64 s;
    explicit Rng(u64 seed) : s(seed * 0x9E3779B97F4A7C15ULL + 0x1234567ULL) { next(); next(); }
    u64 next() { s ^= s >> 12; s ^= s << 25; s ^= s >> 27; return s * 0x2545F4914F6CDD1DULL; }
    int below(int n) { return (int)((next() >> 11) % (u64)n); }
};

static const char* START = "rnbqkbnr/pppppppp/8/8/8/8/PPPPPPPP/RNBQKBNR w KQkq - 0 1";

static void legalMoves(const Position& pos, MoveList& moves) {
    Position c(pos);                 // the generators scribble on dead state of the position
    MoveGen::pseudoLegalMoves(c, moves);
    MoveGen::removeIllegal(c, moves);
}

static std::string canonFen(const Position& pos) {
    Position c(pos);
    TextIO::fixupEPSquare(c);
    return TextIO::toFEN(c);
}

static std::string uci(const Move& m) { return TextIO::moveToUCIString(m); }

static std::vector<std::string> splitWs(const std::string& s) {
    std::vector<std::string> r; std::istringstream is(s); std::string t;
    while (is >> t) r.push_back(t);
    return r;
}

// parse "e2e4" / "e7e8q" against the legal moves of pos; returns false if not legal
static bool findMove(const Position& pos, const std::string& s, Move& out) {
    MoveList moves; legalMoves(pos, moves);
    for (int i = 0; i < moves.size; i++)
        if (uci(moves[i]) == s) { out = moves[i]; return true; }
    return false;
}

static bool replayMoves(const std::vector<std::string>& mv, std::vector<Position>& poss, int& badIdx) {
    Position pos = TextIO::readFEN(START);
    poss.clear(); poss.push_back(pos);
    UndoInfo ui;
    for (size_t i = 0; i < mv.size(); i++) {
        Move m;
        if (!findMove(pos, mv[i], m)) { badIdx = (int)i; return false; }
        pos.makeMove(m, ui);
        poss.push_back(pos);
    }
    return true;
}

static int nMen(const Position& p) { return BitBoard::bitCount(p.occupiedBB()); }

static bool createsEp(const Position& pos, const Move& m) {
    Position c(pos); UndoInfo ui; c.makeMove(m, ui);
    if (!c.getEpSquare().isValid()) return false;
    TextIO::fixupEPSquare(c);
    return c.getEpSquare().isValid();
}

static void cmdGame(std::istringstream& is) {
    u64 seed; int plies, minMen, mode;
    is >> seed >> plies >> minMen >> mode;
    Rng rng(seed);
    Position pos = TextIO::readFEN(START);
    UndoInfo ui;
    std::vector<std::string> out;
    bool fProm = false, fCastle = false, fEp = false, fMate = false, fStale = false;
    int extra = 0;
    // steering parameters of the directed modes (6, 7), drawn once per game
    const int dirBias = rng.below(256);                       // files whose pawns are pushed three times as eagerly
    const int capPawnW = 40 + 40 * rng.below(6);              // pawn takes pawn
    const int capPieceW = 40 + 40 * rng.below(6);             // pawn takes piece
    const int underW = 30 + 40 * rng.below(4);                // per cent of the queen-promotion weight for R/B/N
    const int feedW = 10 + 20 * rng.below(4);                 // a piece steps onto a square attacked by an enemy pawn
    for (int ply = 0; ; ply++) {
        MoveList moves; legalMoves(pos, moves);
        if (moves.size == 0) { (MoveGen::inCheck(pos) ? fMate : fStale) = true; break; }
        bool wantEnd = ply >= plies;
        if (wantEnd && mode == 5) {
            // try to finish on a checking move (captures with check first): exercises the last-move analysis
            std::vector<int> chk, chkCap;
            for (int i = 0; i < moves.size; i++) {
                Position c(pos); UndoInfo u2; c.makeMove(moves[i], u2);
                if (!MoveGen::inCheck(c)) continue;
                bool cap = pos.getPiece(moves[i].to()) != Piece::EMPTY;
                if (cap && nMen(pos) > minMen) chkCap.push_back(i); else if (!cap) chk.push_back(i);
            }
            std::vector<int>& pool = (!chkCap.empty() && rng.below(2)) ? chkCap : (chk.empty() ? chkCap : chk);
            if (!pool.empty()) {
                const Move& m = moves[pool[rng.below((int)pool.size())]];
                out.push_back(uci(m)); pos.makeMove(m, ui);
                break;
            }
            if (++extra > 12) break;
        } else
        if (wantEnd && mode != 3) break;
        if (wantEnd && mode == 3) {
            // finish on an e.p. capture if one is legal now, else on a double push leaving a capturable
            // e.p. square (after which the game may go on for the capture itself)
            std::vector<int> caps, cands;
            for (int i = 0; i < moves.size; i++) {
                int p = pos.getPiece(moves[i].from());
                if ((p == Piece::WPAWN || p == Piece::BPAWN) && moves[i].to() == pos.getEpSquare() && nMen(pos) > minMen)
                    caps.push_back(i);
                else if (createsEp(pos, moves[i])) cands.push_back(i);
            }
            if (!caps.empty()) {
                const Move& m = moves[caps[rng.below((int)caps.size())]];
                fEp = true;
                out.push_back(uci(m)); pos.makeMove(m, ui);
                break;
            }
            if (!cands.empty()) {
                const Move& m = moves[cands[rng.below((int)cands.size())]];
                out.push_back(uci(m)); pos.makeMove(m, ui);
                if (rng.below(2) || nMen(pos) <= minMen) break;
                continue;
            }
            if (++extra > 12) break;
        }
        std::vector<int> w(moves.size, 0);
        long long tot = 0;
        int men = nMen(pos);
        for (int i = 0; i < moves.size; i++) {
            const Move& m = moves[i];
            int p = pos.getPiece(m.from());
            bool isPawn = p == Piece::WPAWN || p == Piece::BPAWN;
            bool cap = pos.getPiece(m.to()) != Piece::EMPTY || (isPawn && m.to() == pos.getEpSquare());
            bool isKing = p == Piece::WKING || p == Piece::BKING;
            bool isRook = p == Piece::WROOK || p == Piece::BROOK;
            bool castle = isKing && std::abs(m.to().getX() - m.from().getX()) == 2;
            int wt = 10;
            if (cap && men <= minMen) wt = 0;
            else switch (mode) {
            case 1:
                if (isPawn) wt = cap ? 80 : 40;
                if (m.promoteTo() != Piece::EMPTY) wt = 150;
                if (cap && !isPawn) wt = 4;
                break;
            case 2:
                if (castle) wt = 200;
                else if (isKing || isRook) wt = 1;
                break;
            case 3:
                if (isPawn) wt = 25;
                if (isPawn && m.to() == pos.getEpSquare()) wt = 300;
                if (createsEp(pos, m)) wt = 120;
                break;
            case 4:
                if ((isKing || isRook) && ply < 30) wt = 60;
                break;
            case 6: case 7: {
                // directed at the case splits of the proof-kernel search: both sides cooperate to promote pawns
                // (by capture and straight, under-promotions), pawns change files by capturing pawns and pieces
                // (doubled / tripled pawns), pieces step onto squares attacked by enemy pawns, bishops are taken on
                // their home squares; advanced pawns are not captured.  Mode 6 keeps all castling rights (kings and
                // rooks do not move: e1/e8 and the corners stay blocked, promotions from the d/f files are impossible).
                const bool white = pos.isWhiteMove();
                const int toY = m.to().getY(), fromY = m.from().getY();
                const int adv = white ? toY : 7 - toY;              // rank reached, from the mover's side
                const U64 toMask = 1ULL << m.to().asInt();
                const U64 oppPawnAtt = white ? BitBoard::bPawnAttacksMask(pos.pieceTypeBB(Piece::BPAWN))
                                             : BitBoard::wPawnAttacksMask(pos.pieceTypeBB(Piece::WPAWN));
                const int victim = pos.getPiece(m.to());
                const bool victimPawn = victim == Piece::WPAWN || victim == Piece::BPAWN;
                const int vAdv = victimPawn ? (white ? 7 - toY : toY) : 0;   // how far the captured pawn had come
                if (isPawn) {
                    wt = 20 + 12 * adv * ((dirBias >> (m.from().getX())) & 1 ? 3 : 1);
                    if (cap) wt = (victimPawn ? capPawnW : capPieceW) + 10 * adv;
                    if (m.promoteTo() != Piece::EMPTY) {
                        wt = cap ? 700 : 350;
                        int pt = Piece::makeWhite(m.promoteTo());
                        if (pt != Piece::WQUEEN) wt = wt * underW / 100;
                    }
                    if (cap && vAdv >= 4) wt = 2;                    // leave the other side's runner alone
                } else {
                    if (cap) {
                        bool bishopHome = (victim == Piece::WBISHOP && (m.to().asInt() == C1 || m.to().asInt() == F1)) ||
                                          (victim == Piece::BBISHOP && (m.to().asInt() == C8 || m.to().asInt() == F8));
                        wt = bishopHome ? 90 : (victimPawn ? (vAdv >= 3 ? 1 : 4) : 3);
                    } else if (toMask & oppPawnAtt) {
                        wt = isKing ? 0 : feedW;                     // offer a piece to an enemy pawn
                    } else {
                        wt = 8;
                    }
                    if (isKing || isRook) wt = (mode == 6) ? (castle ? 0 : 0) : std::min(wt, 4);
                    if (mode == 7 && castle) wt = 30;
                }
                (void)fromY;
                break;
            }
            default: break;
            }
            w[i] = wt; tot += wt;
        }
        if (tot == 0) break;               // only captures left and the piece floor is reached
        long long r = (long long)(rng.next() % (u64)tot);
        int pick = 0;
        for (int i = 0; i < moves.size; i++) { if (r < w[i]) { pick = i; break; } r -= w[i]; }
        const Move& m = moves[pick];
        int p = pos.getPiece(m.from());
        if (m.promoteTo() != Piece::EMPTY) fProm = true;
        if ((p == Piece::WKING || p == Piece::BKING) && std::abs(m.to().getX() - m.from().getX()) == 2) fCastle = true;
        if ((p == Piece::WPAWN || p == Piece::BPAWN) && m.to() == pos.getEpSquare()) fEp = true;
        out.push_back(uci(m));
        pos.makeMove(m, ui);
    }
    if (!fMate && !fStale) {
        MoveList moves; legalMoves(pos, moves);
        if (moves.size == 0) (MoveGen::inCheck(pos) ? fMate : fStale) = true;
    }
    Position c(pos); TextIO::fixupEPSquare(c);
    std::string flags = "-";
    if (fProm) flags += 'p';
    if (fCastle) flags += 'c';
    if (fEp) flags += 'e';
    if (c.getEpSquare().isValid()) flags += 'E';
    if (pos.getEpSquare() != c.getEpSquare()) flags += 'x';     // raw e.p. square dropped by the fix-up
    if (fMate) flags += 'm';
    if (fStale) flags += 's';
    std::cout << "G " << out.size() << ' ' << flags << " |";
    for (auto& s : out) std::cout << ' ' << s;
    std::cout << '\n';
}

static std::vector<std::string> movesAfterBar(const std::string& line) {
    size_t k = line.find('|');
    return splitWs(k == std::string::npos ? "" : line.substr(k + 1));
}

static void cmdFens(const std::string& line) {
    std::vector<Position> poss; int bad = -1;
    if (!replayMoves(movesAfterBar(line), poss, bad)) { std::cout << "X illegal move at " << bad << "\nEND\n"; return; }
    for (size_t i = 0; i < poss.size(); i++)
        std::cout << "P " << i << ' ' << canonFen(poss[i]) << '\n';
    std::cout << "END\n";
}

static std::string fen4(const std::string& fen) {
    std::vector<std::string> t = splitWs(fen);
    std::string r;
    for (size_t i = 0; i < 4 && i < t.size(); i++) r += (i ? " " : "") + t[i];
    return r;
}

static void cmdReplay(const std::string& line) {
    size_t k = line.find('|');
    std::string goal = line.substr(7, k - 7);
    std::vector<Position> poss; int bad = -1;
    if (!replayMoves(movesAfterBar(line), poss, bad)) { std::cout << "R 0 " << bad << '\n'; return; }
    std::string g = fen4(goal);
    // trim
    if (fen4(canonFen(poss.back())) == g) std::cout << "R 1\n"; else std::cout << "R 0 end\n";
}

struct NullBuf : std::streambuf { int overflow(int c) override { return c; } };

static void cmdBounds(const std::string& line) {
    std::istringstream is(line.substr(7));
    int step = 1; is >> step; if (step < 1) step = 1;
    std::vector<Position> poss; int bad = -1;
    if (!replayMoves(movesAfterBar(line), poss, bad)) { std::cout << "X illegal move at " << bad << "\nEND\n"; return; }
    int n = (int)poss.size() - 1;
    std::string goal = canonFen(poss[n]);
    NullBuf nb; std::ostream nullLog(&nb);
    try {
        ProofGame pg(START, goal, false, {}, false, nullLog);
        std::vector<std::string> mv = movesAfterBar(line);
        for (int i = 0; i <= n; i++) {
            if (i % step != 0 && i != n && i != n - 1) continue;
            Position p(poss[i]);
            TextIO::fixupEPSquare(p);
            int b = pg.distLowerBound(p);
            // blocked squares of the search (moves touching them are pruned): the game's own next
            // move is a witness that must not be pruned
            U64 blocked = 0;
            bool bok = pg.computeBlocked(p, blocked);
            int touches = 0;
            if (bok && i < n) {
                Move m;
                if (findMove(poss[i], mv[i], m))
                    touches = (((1ULL << m.from().asInt()) | (1ULL << m.to().asInt())) & blocked) ? 1 : 0;
            }
            std::cout << "B " << i << ' ' << b << ' ' << (bok ? 1 : 0) << ' ' << touches << '\n';
            if (i >= 1) {
                // the move that really led to this position must be among the candidates of the reverse move
                // generator (as the last-move analysis calls it), with the undo information of the real game
                Move m; UndoInfo rui;
                if (findMove(poss[i - 1], mv[i - 1], m)) {
                    Position q(poss[i - 1]); q.makeMove(m, rui);
                    bool isEp = (poss[i - 1].getPiece(m.from()) == Piece::WPAWN || poss[i - 1].getPiece(m.from()) == Piece::BPAWN) &&
                                m.to() == poss[i - 1].getEpSquare();
                    std::vector<UnMove> ums;
                    RevMoveGen::genMoves(p, ums, false);
                    bool found = false;
                    for (const UnMove& um : ums)
                        if (um.move == m && um.ui.capturedPiece == rui.capturedPiece && um.ui.castleMask == rui.castleMask &&
                            (!isEp || um.ui.epSquare == rui.epSquare)) { found = true; break; }
                    std::cout << "U " << i << ' ' << (found ? 1 : 0) << ' ' << ums.size() << '\n';
                }
            }
        }
    } catch (const std::exception& e) {
        std::cout << "X " << e.what() << '\n';
    }
    std::cout << "END\n";
}

static void cmdLast(const std::string& line) {
    std::vector<Position> poss; int bad = -1;
    if (!replayMoves(movesAfterBar(line), poss, bad)) { std::cout << "LX harness: illegal move at " << bad << '\n'; return; }
    Position start = TextIO::readFEN(START);
    Position goal = TextIO::readFEN(canonFen(poss.back()));
    goal.setFullMoveCounter(1); goal.setHalfMoveClock(0);
    start.setFullMoveCounter(1); start.setHalfMoveClock(0);
    NullBuf nb; std::ostream nullLog(&nb);
    std::vector<Move> last;
    try {
        ProofGame::computeLastMoves(start, goal, false, last, nullLog);
    } catch (const std::exception& e) {
        std::cout << "LX " << e.what() << '\n';
        return;
    }
    std::cout << "L " << last.size() << ' ' << TextIO::toFEN(goal) << " |";
    for (auto& m : last) std::cout << ' ' << uci(m);
    std::cout << '\n';
}

static void cmdSan(const std::string& line) {
    std::vector<std::string> toks = splitWs(line.substr(3));
    Position pos = TextIO::readFEN(START);
    UndoInfo ui;
    std::vector<std::string> out;
    for (size_t i = 0; i < toks.size(); i++) {
        Move m;
        try { m = TextIO::stringToMove(pos, toks[i]); }
        catch (const std::exception& e) { std::cout << "X " << i << ' ' << e.what() << '\n'; return; }
        if (m.isEmpty()) { std::cout << "X " << i << " not a move: " << toks[i] << '\n'; return; }
        out.push_back(uci(m));
        pos.makeMove(m, ui);
    }
    std::cout << "U";
    for (auto& s : out) std::cout << ' ' << s;
    std::cout << '\n';
}

static int hexv(char c) { return c <= '9' ? c - '0' : c - 'a' + 10; }

static bool boardFromHex(const std::string& h, Position& pos) {
    if (h.size() != 64) return false;
    for (int sq = 0; sq < 64; sq++) {
        int p = hexv(h[sq]);
        if (p < 0 || p > 12) return false;
        if (p != Piece::EMPTY) pos.setPiece(Square(sq), p);
    }
    return true;
}

static void cmdPcount(const std::string& line) {
    std::vector<std::string> t = splitWs(line);
    Position pos;
    if (t.size() < 2 || !boardFromHex(t[1], pos)) { std::cout << "X bad board\n"; return; }
    int v1 = 0;
    try { ProofGame::validatePieceCounts(pos); }
    catch (const ChessError& e) {
        std::string w = e.what();
        v1 = w == "Too many white pieces" ? 1 : w == "Too many black pieces" ? 2 : 9;
    }
    bool v2 = pieceCountsValid(pos);
    std::cout << "V " << v1 << ' ' << (v2 ? 1 : 0) << '\n';
}

static void cmdEnough(const std::string& line) {
    std::vector<std::string> t = splitWs(line);
    Position pos, goal;
    if (t.size() < 3 || !boardFromHex(t[1], pos) || !boardFromHex(t[2], goal)) { std::cout << "X bad board\n"; return; }
    NullBuf nb; std::ostream nullLog(&nb);
    // a ProofGame object whose goal piece counts are those of `goal` (the constructor's own FEN
    // checks are bypassed: only goalPieceCnt is read by enoughRemainingPieces)
    ProofGame pg(START, START, false, {}, false, nullLog);
    int cnt[Piece::nPieceTypes];
    for (int p = Piece::WKING; p <= Piece::BPAWN; p++) {
        pg.goalPieceCnt[p] = BitBoard::bitCount(goal.pieceTypeBB((Piece::Type)p));
        cnt[p] = BitBoard::bitCount(pos.pieceTypeBB((Piece::Type)p));
    }
    std::cout << "N " << (pg.enoughRemainingPieces(cnt) ? 1 : 0) << '\n';
}

int main() {
    std::ios::sync_with_stdio(false);
    std::string line;
    while (std::getline(std::cin, line)) {
        if (line.empty()) continue;
        std::istringstream is(line);
        std::string cmd; is >> cmd;
        try {
            if (cmd == "GAME") cmdGame(is);
            else if (cmd == "FENS") cmdFens(line);
            else if (cmd == "REPLAY") cmdReplay(line);
            else if (cmd == "BOUNDS") cmdBounds(line);
            else if (cmd == "LAST") cmdLast(line);
            else if (cmd == "SAN") cmdSan(line);
            else if (cmd == "PCOUNT") cmdPcount(line);
            else if (cmd == "ENOUGH") cmdEnough(line);
            else std::cout << "X unknown command\n";
        } catch (const std::exception& e) {
            std::cout << "X exception " << e.what() << '\n';
        }
        std::cout.flush();
    }
    return 0;
}
