// Correspondence harness for C02 (Position make/unmake, hashes, material, FEN, serialisation).
//
// stdin commands (one per line):
//   TABLES                          dump Zobrist tables and the constants the model mirrors
//   WALK <seed> <plies> <mode> <fen>  random history from <fen>; mode 0 normal, 1 promotion-heavy
//   FEN <hex bytes>                 TextIO::readFEN on an arbitrary byte string (+ toFEN, serialize)
//   SCRIPT ... END                  replay an explicit op list (lines between are ops, see below)
//
// stdout is a *trace*: lines starting with a lower-case keyword are operations (they are fed
// verbatim to the OCaml driver of the model), every other line is an observation that the model
// must reproduce byte for byte.
//   fen <hex>             -> "= <state>" | "E <code>"
//   mk f t p              -> "M <moveOk of the model, must be 1>" , "= <state>" , "U cap cm ep hmc"
//   un                    -> "= <state>" , "R <all-but-emptyBB> <emptyBB>"   (restored vs snapshot before mk)
//   mkb f t p             -> "B <partial>" after makeMoveB, "B <partial>" after unMakeMoveB
//   see f t               -> "B <partial>" x2 (makeSEEMove / unMakeSEEMove)
//   swm b | sep z | scm n | shm z | sfm z     -> "= <state>"
//   ser                   -> "S w0 w1 w2 w3 w4" , "= <state of deSerialize(serialize)>" , "D <equal?>"
//   deser w0..w4          -> "= <state>"  (current position replaced)
//   tofen                 -> "F <hex>" , then readFEN of it: "= <state>" | "E <code>"
//   cmp k                 -> "Q <drawRuleEquals> <operator==> <hash equal>" (current vs snapshot k of the make stack)
//   reset                 -> nothing (forget stack)
#include <cstdio>
#include <cstdlib>
#include <cstring>
#include <iostream>
#include <sstream>
#include <string>
#include <vector>
#include <algorithm>
#include <array>
#include <atomic>
#include <chrono>
#include <condition_variable>
#include <deque>
#include <fstream>
#include <functional>
#include <iomanip>
#include <limits>
#include <map>
#include <memory>
#include <mutex>
#include <random>
#include <set>
#include <thread>
#include <type_traits>
#include <unordered_map>
#include <unordered_set>
#include <utility>
#include <cassert>
#include <cmath>
#include <climits>
#include <cstdint>
#define private public
#define protected public
#include "position.hpp"
#include "textio.hpp"
#include "moveGen.hpp"
#include "computerPlayer.hpp"
#include "parameters.hpp"
#include "material.hpp"
#undef private
#undef protected

typedef unsigned long long u64;

static u64 hashEmptyV() { static Position p0; return p0.pHashKey; }   // hashEmpty has internal linkage
#define hashEmpty (hashEmptyV())
static std::string hex(u64 v) { char b[32]; snprintf(b, sizeof b, "%llx", v); return b; }

struct Rng {
    u64 s;
    explicit Rng(u64 seed) : s(seed * 0x9E3779B97F4A7C15ULL + 0x1234567ULL) { next(); next(); }
    u64 next() { s ^= s >> 12; s ^= s << 25; s ^= s >> 27; return s * 0x2545F4914F6CDD1DULL; }
    int below(int n) { return (int)((next() >> 11) % (u64)n); }
    bool chance(int pct) { return below(100) < pct; }
};

static std::string toHexStr(const std::string& s) {
    std::string r; char b[4];
    for (unsigned char c : s) { snprintf(b, sizeof b, "%02x", c); r += b; }
    return r.empty() ? "-" : r;
}
static std::string fromHexStr(const std::string& h) {
    std::string r;
    if (h == "-") return r;
    for (size_t i = 0; i + 1 < h.size(); i += 2) r += (char)strtol(h.substr(i, 2).c_str(), nullptr, 16);
    return r;
}

// ---- from-scratch recomputation (independent of the incremental code paths) ----
static std::string consistency(const Position& pos) {
    u64 bb[Piece::nPieceTypes] = {0}; u64 w = 0, b = 0;
    long long wM = 0, bM = 0, wP = 0, bP = 0; long long mid = 0;
    u64 h = hashEmpty, ph = hashEmpty;
    static const long long matW[13] = {0, 0, 5903, 9, 767, 91, 1, 0, 5903LL << 16, 9LL << 16, 767LL << 16, 91LL << 16, 1LL << 16};
    for (int sq = 0; sq < 64; sq++) {
        int p = pos.squares[Square(sq)];
        h ^= Position::psHashKeys[p][Square(sq)];
        if (p == Piece::EMPTY) continue;
        bb[p] |= 1ULL << sq;
        mid += matW[p];
        if (Piece::isWhite(p)) { w |= 1ULL << sq; if (p != Piece::WKING) wM += ::pieceValue[p]; if (p == Piece::WPAWN) wP += ::pieceValue[p]; }
        else { b |= 1ULL << sq; if (p != Piece::BKING) bM += ::pieceValue[p]; if (p == Piece::BPAWN) bP += ::pieceValue[p]; }
        if (p == Piece::WPAWN || p == Piece::BPAWN) ph ^= Position::psHashKeys[p][Square(sq)];
    }
    if (pos.whiteMove) h ^= Position::whiteHashKey;
    h ^= Position::castleHashKeys[pos.castleMask & 15];
    h ^= Position::epHashKeys[pos.epSquare.isValid() ? pos.epSquare.getX() + 1 : 0];
    // kings: the sums start at -kV, i.e. they are exact when the side has exactly one king
    int wk = 0, bk = 0;
    for (int sq = 0; sq < 64; sq++) { int p = pos.squares[Square(sq)]; wk += p == Piece::WKING; bk += p == Piece::BKING; }
    wM += (long long)(wk - 1) * ::kV; bM += (long long)(bk - 1) * ::kV;
    std::string r;
    bool okbb = true;
    for (int p = 1; p < Piece::nPieceTypes; p++) okbb = okbb && bb[p] == pos.pieceTypeBB_[p];
    r += okbb ? '1' : '0';
    r += (w == pos.whiteBB_) ? '1' : '0';
    r += (b == pos.blackBB_) ? '1' : '0';
    r += (h == pos.hashKey) ? '1' : '0';
    r += (ph == pos.pHashKey) ? '1' : '0';
    r += ((int)(unsigned)mid == pos.matId()) ? '1' : '0';
    r += (wM == pos.wMtrl_) ? '1' : '0';
    r += (bM == pos.bMtrl_) ? '1' : '0';
    r += (wP == pos.wMtrlPawns_) ? '1' : '0';
    r += (bP == pos.bMtrlPawns_) ? '1' : '0';
    // the repo's own oracle as well
    Position c(pos);
    u64 h2 = c.computeZobristHash();
    r += (h2 == pos.hashKey && c.pHashKey == pos.pHashKey && c.matId() == pos.matId()) ? '1' : '0';
    r += (mid >= -2147483648LL && mid <= 2147483647LL) ? '1' : '0';      // exact id fits int
    return r;
}

static std::string partial(const Position& pos) {
    std::string s;
    for (int sq = 0; sq < 64; sq++) s += "0123456789abcdef"[pos.squares[Square(sq)] & 15];
    for (int p = 0; p < Piece::nPieceTypes; p++) s += " " + hex(pos.pieceTypeBB_[p]);
    s += " " + hex(pos.whiteBB_) + " " + hex(pos.blackBB_);
    s += pos.whiteMove ? " 1" : " 0";
    return s;
}

static std::string state(const Position& pos) {
    std::ostringstream os;
    os << partial(pos);
    os << ' ' << pos.halfMoveClock << ' ' << pos.fullMoveCounter << ' ' << pos.castleMask << ' ' << pos.epSquare.asInt();
    os << ' ' << hex(pos.hashKey) << ' ' << hex(pos.pHashKey) << ' ' << pos.matId();
    os << ' ' << pos.wMtrl_ << ' ' << pos.bMtrl_ << ' ' << pos.wMtrlPawns_ << ' ' << pos.bMtrlPawns_;
    os << " |";
    // derived values (only where the code's own preconditions hold)
    if (pos.pieceTypeBB_[Piece::WKING] && pos.pieceTypeBB_[Piece::BKING])
        os << ' ' << pos.wKingSq().asInt() << ' ' << pos.bKingSq().asInt() << ' ' << hex(pos.kingZobristHash());
    else
        os << " - - -";
    os << ' ' << pos.nPieces();
    if (pos.halfMoveClock >= 0)
        os << ' ' << hex(pos.historyHash()) << ' ' << hex(pos.bookHash());
    else
        os << " - -";
    os << " | " << consistency(pos);
    return os.str();
}

static bool sameExceptEmptyBB(const Position& a, const Position& b) {
    for (int sq = 0; sq < 64; sq++) if (a.squares[Square(sq)] != b.squares[Square(sq)]) return false;
    for (int p = 1; p < Piece::nPieceTypes; p++) if (a.pieceTypeBB_[p] != b.pieceTypeBB_[p]) return false;
    return a.whiteBB_ == b.whiteBB_ && a.blackBB_ == b.blackBB_ && a.whiteMove == b.whiteMove &&
           a.halfMoveClock == b.halfMoveClock && a.fullMoveCounter == b.fullMoveCounter &&
           a.castleMask == b.castleMask && a.epSquare == b.epSquare && a.hashKey == b.hashKey &&
           a.pHashKey == b.pHashKey && a.matId() == b.matId() && a.wMtrl_ == b.wMtrl_ && a.bMtrl_ == b.bMtrl_ &&
           a.wMtrlPawns_ == b.wMtrlPawns_ && a.bMtrlPawns_ == b.bMtrlPawns_;
}

static int errCode(const std::string& msg) {
    static const char* names[] = {"Too many rows", "Invalid piece", "Too many columns", "Pawn on first/last rank",
        "Invalid side", "Invalid castling flags", "Invalid en passant square", "White must have exactly one king",
        "Black must have exactly one king", "King capture possible"};
    for (int i = 0; i < 10; i++) if (msg == names[i]) return i;
    return 99;
}

// ---- the interpreter of operations (shared by WALK generation and SCRIPT replay) ----
struct Machine {
    Position pos;
    std::vector<Position> snaps;   // position before each mk
    std::vector<Move> moves;
    std::vector<UndoInfo> undos;
    std::ostream& out;
    explicit Machine(std::ostream& o) : out(o) {}

    bool opFen(const std::string& fen) {
        out << "fen " << toHexStr(fen) << '\n';
        snaps.clear(); moves.clear(); undos.clear();
        try {
            pos = TextIO::readFEN(fen);
            // canonicalise dead state: fixupEPSquare runs the move generator on the position, whose
            // makeMoveB/unMakeMoveB scribble on pieceTypeBB_[EMPTY] (read by no code)
            pos.pieceTypeBB_[Piece::EMPTY] = 0;
            out << "= " << state(pos) << '\n';
            return true;
        } catch (const ChessParseError& e) {
            out << "E " << errCode(e.what()) << '\n';
            return false;
        }
    }
    void opMk(const Move& m) {
        out << "mk " << m.from().asInt() << ' ' << m.to().asInt() << ' ' << m.promoteTo() << '\n';
        out << "M 1\n";      // the model prints moveOk(pos, m): the premise of C02_unmake_make holds for this move
        snaps.push_back(pos);
        UndoInfo ui;
        pos.makeMove(m, ui);
        moves.push_back(m); undos.push_back(ui);
        out << "= " << state(pos) << '\n';
        out << "U " << ui.capturedPiece << ' ' << ui.castleMask << ' ' << ui.epSquare.asInt() << ' ' << ui.halfMoveClock << '\n';
    }
    void opUn() {
        out << "un\n";
        pos.unMakeMove(moves.back(), undos.back());
        const Position& before = snaps.back();
        out << "= " << state(pos) << '\n';
        out << "R " << (sameExceptEmptyBB(pos, before) ? 1 : 0) << ' '
            << (pos.pieceTypeBB_[0] == before.pieceTypeBB_[0] ? 1 : 0) << '\n';
        moves.pop_back(); undos.pop_back(); snaps.pop_back();
    }
    void opMkb(const Move& m) {
        out << "mkb " << m.from().asInt() << ' ' << m.to().asInt() << ' ' << m.promoteTo() << '\n';
        UndoInfo ui;
        ui.epSquare = Square(-1); ui.halfMoveClock = 0;
        pos.makeMoveB(m, ui);
        out << "B " << partial(pos) << '\n';
        pos.unMakeMoveB(m, ui);
        out << "B " << partial(pos) << '\n';
    }
    void opSee(const Move& m) {
        out << "see " << m.from().asInt() << ' ' << m.to().asInt() << '\n';
        UndoInfo ui;
        pos.makeSEEMove(m, ui);
        out << "B " << partial(pos) << '\n';
        pos.unMakeSEEMove(m, ui);
        out << "B " << partial(pos) << '\n';
    }
    void opEdit(const std::string& k, long v) {
        out << k << ' ' << v << '\n';
        if (k == "swm") pos.setWhiteMove(v != 0);
        else if (k == "sep") pos.setEpSquare(Square((int)v));
        else if (k == "scm") pos.setCastleMask((int)v);
        else if (k == "shm") pos.setHalfMoveClock((int)v);
        else if (k == "sfm") pos.setFullMoveCounter((int)v);
        out << "= " << state(pos) << '\n';
    }
    void opSer() {
        out << "ser\n";
        Position::SerializeData d;
        pos.serialize(d);
        out << "S";
        for (int i = 0; i < 5; i++) out << ' ' << hex(d.v[i]);
        out << '\n';
        Position q;
        q.deSerialize(d);
        out << "= " << state(q) << '\n';
        out << "D " << (sameExceptEmptyBB(q, pos) ? 1 : 0) << '\n';
    }
    void opDeser(const u64* w) {
        out << "deser";
        Position::SerializeData d;
        for (int i = 0; i < 5; i++) { d.v[i] = w[i]; out << ' ' << hex(w[i]); }
        out << '\n';
        snaps.clear(); moves.clear(); undos.clear();
        pos.deSerialize(d);
        out << "= " << state(pos) << '\n';
    }
    void opToFen() {
        out << "tofen\n";
        std::string f = TextIO::toFEN(pos);
        out << "F " << toHexStr(f) << '\n';
        try {
            Position q = TextIO::readFEN(f);
            q.pieceTypeBB_[Piece::EMPTY] = 0;
            out << "= " << state(q) << '\n';
        } catch (const ChessParseError& e) {
            out << "E " << errCode(e.what()) << '\n';
        }
    }
    void opCmp(int k) {
        out << "cmp " << k << '\n';
        const Position& o = snaps[k];
        out << "Q " << (pos.drawRuleEquals(o) ? 1 : 0) << ' ' << (pos == o ? 1 : 0) << ' '
            << (pos.zobristHash() == o.zobristHash() ? 1 : 0) << '\n';
    }
};

static void legalMoves(Position& pos, MoveList& ml) {
    MoveGen::pseudoLegalMoves(pos, ml);
    MoveGen::removeIllegal(pos, ml);
}

static int countPiece(const Position& pos, int p) { return BitBoard::bitCount(pos.pieceTypeBB_[p]); }

static bool g_lastSameFileDouble = false;   // set by pickMove: the chosen move is a double push on the e.p. file

static bool pickMove(const Position& pos0, Rng& rng, int mode, Move& res) {
    // move generation runs on a copy: MoveGen::isLegal uses makeMoveB/unMakeMoveB, which scribble on
    // the (dead) pieceTypeBB_[EMPTY] entry of the object they are given
    Position pos(pos0);
    MoveList ml;
    legalMoves(pos, ml);
    if (ml.size == 0) return false;
    std::vector<int> promQ, prom, pawn, capt, castle, dbl, dblSameFile;
    const Square ep0 = pos.getEpSquare();
    g_lastSameFileDouble = false;
    for (int i = 0; i < ml.size; i++) {
        const Move& m = ml[i];
        int p = pos.getPiece(m.from());
        if ((p == Piece::WPAWN || p == Piece::BPAWN) && abs(m.to().asInt() - m.from().asInt()) == 16) {
            dbl.push_back(i);
            if (ep0.isValid() && ep0.getX() == m.to().getX()) dblSameFile.push_back(i);
        }
        if (m.promoteTo() == Piece::WQUEEN || m.promoteTo() == Piece::BQUEEN) promQ.push_back(i);
        else if (m.promoteTo() != Piece::EMPTY) prom.push_back(i);
        else if (p == Piece::WPAWN || p == Piece::BPAWN) pawn.push_back(i);
        if (pos.getPiece(m.to()) != Piece::EMPTY) capt.push_back(i);
        if ((p == Piece::WKING || p == Piece::BKING) && abs(m.to().asInt() - m.from().asInt()) == 2) castle.push_back(i);
    }
    int idx = -1;
    // case split of setEpSquare: e.p. square present before and after the move, same file / other file
    if (!dblSameFile.empty() && rng.chance(85)) { idx = dblSameFile[rng.below(dblSameFile.size())]; g_lastSameFileDouble = true; }
    else if (!dbl.empty() && rng.chance(ep0.isValid() ? 40 : 12)) idx = dbl[rng.below(dbl.size())];
    else if (mode == 1) {
        if (!promQ.empty() && rng.chance(85)) idx = promQ[rng.below(promQ.size())];
        else if (!prom.empty() && rng.chance(50)) idx = prom[rng.below(prom.size())];
        else if (!pawn.empty() && rng.chance(80)) idx = pawn[rng.below(pawn.size())];
    } else {
        if (!castle.empty() && rng.chance(30)) idx = castle[rng.below(castle.size())];
        else if (!prom.empty() && rng.chance(25)) idx = prom[rng.below(prom.size())];
        else if (!promQ.empty() && rng.chance(25)) idx = promQ[rng.below(promQ.size())];
        else if (!capt.empty() && rng.chance(20)) idx = capt[rng.below(capt.size())];
        else if (!pawn.empty() && rng.chance(15)) idx = pawn[rng.below(pawn.size())];
    }
    if (idx < 0) idx = rng.below(ml.size);
    res = ml[idx];
    return true;
}

static void walk(std::ostream& out, u64 seed, int plies, int mode, const std::string& fen) {
    Rng rng(seed);
    Machine M(out);
    if (!M.opFen(fen)) return;
    int budget = plies;
    int maxQ = 0, nSameFile = 0, nSameFileUndone = 0, nEpToEp = 0;
    while (budget > 0) {
        int r = rng.below(100);
        if (r < 64) {
            Move m;
            if (!pickMove(M.pos, rng, mode, m)) {
                if (M.moves.empty()) break;
                int k = 1 + rng.below(std::min<int>(M.moves.size(), 6));
                for (int i = 0; i < k; i++) M.opUn();
                budget -= 1;
                continue;
            }
            bool sameFile = g_lastSameFileDouble;
            bool epBefore = M.pos.getEpSquare().isValid();
            M.opMk(m); budget--;
            if (sameFile) nSameFile++;
            if (epBefore && M.pos.getEpSquare().isValid()) nEpToEp++;
            if (sameFile && rng.chance(70)) {       // take the same-file double push back at once
                M.opUn(); budget--; nSameFileUndone++;
                if (rng.chance(50)) M.opToFen();
            }
        } else if (r < 68) {                       // setEpSquare edits to another rank of the same file and back
            int ep = M.pos.getEpSquare().asInt();
            int x = (ep >= 0) ? (ep & 7) : rng.below(8);
            int alt1 = x + 16, alt2 = x + 40;
            if (ep >= 0) {
                int alt = (ep == alt1) ? alt2 : alt1;
                M.opEdit("sep", alt); M.opEdit("sep", ep);
                if (rng.chance(50)) { M.opEdit("sep", -1); M.opEdit("sep", alt); M.opEdit("sep", ep); }
            } else {
                M.opEdit("sep", alt1); M.opEdit("sep", alt2); M.opEdit("sep", (x + 1) % 8 + 16); M.opEdit("sep", -1);
            }
            budget--;
        } else if (r < 76) {                       // forced take-back segment
            if (M.moves.empty()) continue;
            int k = 1 + rng.below(std::min<int>(M.moves.size(), 10));
            for (int i = 0; i < k; i++) M.opUn();
            budget--;
        } else if (r < 82) {                       // null-move style edits as in search.cpp
            { Position tmp(M.pos); if (MoveGen::inCheck(tmp)) continue; }
            bool wtm = M.pos.isWhiteMove();
            int ep = M.pos.getEpSquare().asInt();
            int hmc = M.pos.getHalfMoveClock();
            M.opEdit("swm", !wtm);
            M.opEdit("sep", -1);
            M.opEdit("shm", 0);
            int depth = rng.below(4), made = 0;
            for (int i = 0; i < depth; i++) {
                Move m;
                if (!pickMove(M.pos, rng, mode, m)) break;
                M.opMk(m); made++;
            }
            for (int i = 0; i < made; i++) M.opUn();
            M.opEdit("sep", ep);
            M.opEdit("swm", wtm);
            M.opEdit("shm", hmc);
            budget -= 1 + made;
        } else if (r < 90) {                       // bitboard-only and SEE variants on pseudo-legal moves
            MoveList ml;
            { Position tmp(M.pos); MoveGen::pseudoLegalMoves(tmp, ml); }
            for (int i = 0; i < 3 && ml.size > 0; i++) {
                const Move& m = ml[rng.below(ml.size)];
                M.opMkb(m);
                int p = M.pos.getPiece(m.from());
                bool castle = (p == Piece::WKING || p == Piece::BKING) && abs(m.to().asInt() - m.from().asInt()) == 2;
                if (!castle && m.promoteTo() == Piece::EMPTY) M.opSee(m);
            }
            budget--;
        } else if (r < 93) {
            M.opSer(); budget--;
        } else if (r < 96) {
            M.opToFen(); budget--;
        } else if (r < 97) {
            if (M.snaps.empty()) continue;
            M.opCmp(rng.below(M.snaps.size())); budget--;
        } else {                                    // reversible shuffle: a, b, a^-1, b^-1 then compare
            bool done = false;
            for (int attempt = 0; attempt < 4 && !done; attempt++) {
                Position tmp(M.pos);
                MoveList ml; legalMoves(tmp, ml);
                std::vector<Move> cand;
                for (int i = 0; i < ml.size; i++) {
                    int p = tmp.getPiece(ml[i].from());
                    if (p != Piece::WPAWN && p != Piece::BPAWN && tmp.getPiece(ml[i].to()) == Piece::EMPTY &&
                        !((p == Piece::WKING || p == Piece::BKING) && abs(ml[i].to().asInt() - ml[i].from().asInt()) == 2))
                        cand.push_back(ml[i]);
                }
                if (cand.empty()) break;
                Move a = cand[rng.below(cand.size())];
                UndoInfo u1; tmp.makeMove(a, u1);
                MoveList ml2; legalMoves(tmp, ml2);
                std::vector<Move> cand2;
                for (int i = 0; i < ml2.size; i++) {
                    int p = tmp.getPiece(ml2[i].from());
                    if (p != Piece::WPAWN && p != Piece::BPAWN && tmp.getPiece(ml2[i].to()) == Piece::EMPTY &&
                        !((p == Piece::WKING || p == Piece::BKING) && abs(ml2[i].to().asInt() - ml2[i].from().asInt()) == 2))
                        cand2.push_back(ml2[i]);
                }
                if (cand2.empty()) continue;
                Move b = cand2[rng.below(cand2.size())];
                UndoInfo u2; tmp.makeMove(b, u2);
                Move ar(a.to(), a.from(), Piece::EMPTY), br(b.to(), b.from(), Piece::EMPTY);
                MoveList ml3; legalMoves(tmp, ml3);
                bool ok = false;
                for (int i = 0; i < ml3.size; i++) ok = ok || (ml3[i].from() == ar.from() && ml3[i].to() == ar.to());
                if (!ok) continue;
                UndoInfo u3; tmp.makeMove(ar, u3);
                MoveList ml4; legalMoves(tmp, ml4);
                ok = false;
                for (int i = 0; i < ml4.size; i++) ok = ok || (ml4[i].from() == br.from() && ml4[i].to() == br.to());
                if (!ok) continue;
                M.opMk(a); M.opMk(b); M.opMk(ar); M.opMk(br);
                M.opCmp((int)M.snaps.size() - 4);
                if (M.snaps.size() >= 8 && rng.chance(50)) M.opCmp((int)M.snaps.size() - 8);
                budget -= 4;
                done = true;
            }
            if (!done) budget--;
        }
        int q = std::max(countPiece(M.pos, Piece::WQUEEN), countPiece(M.pos, Piece::BQUEEN));
        if (q > maxQ) maxQ = q;
    }
    // finally take everything back to the root
    while (!M.moves.empty()) M.opUn();
    M.opSer();
    M.opToFen();
    out << "# maxq " << maxQ << '\n';
    out << "# epcases " << nSameFile << ' ' << nSameFileUndone << ' ' << nEpToEp << '\n';
}

static void dumpTables(std::ostream& out) {
    for (int p = 0; p < Piece::nPieceTypes; p++) {
        out << "ps " << p;
        for (int sq = 0; sq < 64; sq++) out << ' ' << hex(Position::psHashKeys[p][Square(sq)]);
        out << '\n';
    }
    out << "white " << hex(Position::whiteHashKey) << '\n';
    out << "castle"; for (int i = 0; i < 16; i++) out << ' ' << hex(Position::castleHashKeys[i]); out << '\n';
    out << "ep"; for (int i = 0; i < 9; i++) out << ' ' << hex(Position::epHashKeys[i]); out << '\n';
    out << "movecnt"; for (int i = 0; i < 101; i++) out << ' ' << hex(Position::moveCntKeys[i]); out << '\n';
    out << "empty " << hex(hashEmpty) << '\n';
    out << "pieceValue"; for (int i = 0; i < Piece::nPieceTypes; i++) out << ' ' << ::pieceValue[i]; out << '\n';
    out << "materialId"; for (int i = 0; i < Piece::nPieceTypes; i++) out << ' ' << MatId::materialId[i]; out << '\n';
    out << "castleSqMask"; for (int sq = 0; sq < 64; sq++) out << ' ' << (int)Position::castleSqMask[Square(sq)]; out << '\n';
    out << "epMaskW"; for (int i = 0; i < 8; i++) out << ' ' << hex(BitBoard::epMaskW[i]); out << '\n';
    out << "epMaskB"; for (int i = 0; i < 8; i++) out << ' ' << hex(BitBoard::epMaskB[i]); out << '\n';
    out << "maxPieces " << TBProbeData::maxPieces << '\n';
    out << "kV " << (int)::kV << '\n';
}

static void script(std::istream& in, std::ostream& out) {
    Machine M(out);
    std::string line;
    while (std::getline(in, line)) {
        if (line == "END") break;
        std::istringstream is(line);
        std::string k; is >> k;
        if (k == "fen") { std::string h; is >> h; M.opFen(fromHexStr(h)); }
        else if (k == "mk") { int f, t, p; is >> f >> t >> p; M.opMk(Move(Square(f), Square(t), p)); }
        else if (k == "un") { if (!M.moves.empty()) M.opUn(); }
        else if (k == "mkb") { int f, t, p; is >> f >> t >> p; M.opMkb(Move(Square(f), Square(t), p)); }
        else if (k == "see") { int f, t; is >> f >> t; M.opSee(Move(Square(f), Square(t), Piece::EMPTY)); }
        else if (k == "swm" || k == "sep" || k == "scm" || k == "shm" || k == "sfm") { long v; is >> v; M.opEdit(k, v); }
        else if (k == "ser") M.opSer();
        else if (k == "deser") { u64 w[5]; for (int i = 0; i < 5; i++) { std::string h; is >> h; w[i] = strtoull(h.c_str(), nullptr, 16); } M.opDeser(w); }
        else if (k == "tofen") M.opToFen();
        else if (k == "cmp") { int i; is >> i; if (i >= 0 && i < (int)M.snaps.size()) M.opCmp(i); }
    }
}

int main() {
    ComputerPlayer::initEngine();
    std::ios::sync_with_stdio(false);
    std::string line;
    while (std::getline(std::cin, line)) {
        std::istringstream is(line);
        std::string cmd; is >> cmd;
        if (cmd == "TABLES") dumpTables(std::cout);
        else if (cmd == "WALK") {
            u64 seed; int plies, mode; is >> seed >> plies >> mode;
            std::string fen; std::getline(is, fen);
            size_t i = fen.find_first_not_of(' ');
            walk(std::cout, seed, plies, mode, i == std::string::npos ? "" : fen.substr(i));
        } else if (cmd == "FEN") {
            std::string h; is >> h;
            Machine M(std::cout);
            if (M.opFen(fromHexStr(h))) { M.opToFen(); M.opSer(); }
        } else if (cmd == "SCRIPT") script(std::cin, std::cout);
    }
    std::cout.flush();
    return 0;
}
