// Correspondence harness for C19 (book-builder graph, lib/texelutillib/bookbuild.{hpp,cpp}).
//
// Reads an abstract operation script on stdin, drives the real BookBuild::Book through the
// declared test friend (class BookBuildTest) and prints, for every operation,
//   - the CONCRETE operation (hashes, compressed moves, object addresses, the parent/child
//     links that chess dictates -- computed here with the real move generator, independently of
//     Book::hashToParent) for the extracted Coq model, and
//   - the complete per-node state of the C++ book after the operation.
// Script lines (r* are random numbers chosen by the check):
//   BOOK depthCost ownCost otherCost salt      new Book("", ...)
//   ADD mode r1 r2 r3                          Book::addPosToBook under an existing node
//   SET r1 r2 score time                       BookNode::setSearchResult
//   PEND r1 | UNPEND r1                        Book::addPending / removePending
//   WRITE                                      Book::writeToFile, records echoed
//   READ variant r                             writeToFile + (variant) + Book::readFromFile
//   IMPORT seed nGames maxLen maxPly           GameTree of random games + Book::addToBook
// Output lines:
//   NEW root addr depthCost ownCost otherCost | ADD ... | SET ... | PEND h | UNPEND h | WRITE ... | READ ... | NOP
//   G ok|bad hash            result of Book::getPosition on one node (sanity check)
//   S n k x  followed by k node lines (the nodes whose state differs from the previous dump; the
//            book has n nodes) and x hashes of nodes that disappeared:
//                        hash depth nm ecw ecb pew peb move score time state
//                        nch (move child)* npar (move parent)*
// Mode "negate": prints BookNode::negateScore(s) for every 16-bit s.
// Mode "cyclic": imports one game with 104 reversible plies (half-move clock >= 100 makes the
// book hash periodic) in a forked child and reports whether the process survives.
#include "bookbuild.hpp"
#include "gametree.hpp"
#include "moveGen.hpp"
#include "textio.hpp"
#include "position.hpp"

#include <algorithm>
#include <cinttypes>
#include <cstdio>
#include <cstdlib>
#include <cstring>
#include <fstream>
#include <iostream>
#include <map>
#include <set>
#include <sstream>
#include <string>
#include <unordered_map>
#include <vector>
#include <unistd.h>
#include <sys/wait.h>
#include <sys/resource.h>

using namespace BookBuild;

typedef std::pair<U64, U16> HM;   // (hash, compressed move)

class BookBuildTest {
public:
    static std::unique_ptr<Book> book;
    static std::vector<U64> order;                              // creation order
    static std::unordered_map<U64, Position> posOf;             // our own position store
    static std::unordered_map<U64, std::vector<HM>> preds;      // child hash -> (book parent, move)
    static std::vector<U64> pendingList;
    static std::unordered_map<U64, std::string> lastLine;     // node text of the previous dump
    static U64 salt;
    static std::string tmpFile;

    static std::vector<Move> legalMoves(Position& pos) {
        MoveList ml;
        MoveGen::pseudoLegalMoves(pos, ml);
        MoveGen::removeIllegal(pos, ml);
        std::vector<Move> v;
        for (int i = 0; i < ml.size; i++)
            v.push_back(ml[i]);
        return v;
    }

    /** Register a position as book node in our own store. */
    static void registerPos(const Position& p) {
        U64 h = p.bookHash();
        if (posOf.count(h))
            return;
        posOf[h] = p;
        order.push_back(h);
        Position pos(p);
        UndoInfo ui;
        for (const Move& m : legalMoves(pos)) {
            pos.makeMove(m, ui);
            preds[pos.bookHash()].push_back(HM(h, m.getCompressedMove()));
            pos.unMakeMove(m, ui);
        }
    }

    /** (move, child) for the legal moves of p leading to positions of `present`, generator order. */
    static std::vector<HM> bookSuccessors(const Position& p, const std::unordered_map<U64, Position>& present) {
        std::vector<HM> out;
        Position pos(p);
        UndoInfo ui;
        for (const Move& m : legalMoves(pos)) {
            pos.makeMove(m, ui);
            U64 ch = pos.bookHash();
            if (present.count(ch))
                out.push_back(HM(ch, m.getCompressedMove()));
            pos.unMakeMove(m, ui);
        }
        return out;
    }

    /** Complete state of one node as text. */
    static std::string nodeLine(const BookNode* n) {
        char buf[256];
        snprintf(buf, sizeof buf, "%" PRIu64 " %d %d %d %d %d %d %d %d %u %d", n->getHashKey(), n->getDepth(),
                 n->getNegaMaxScore(), n->getExpansionCostWhite(), n->getExpansionCostBlack(),
                 n->getPathErrorWhite(), n->getPathErrorBlack(),
                 (int)n->getBestNonBookMove().getCompressedMove(), (int)n->getSearchScore(),
                 (unsigned)n->getSearchTime(), (int)n->getState());
        std::string s(buf);
        snprintf(buf, sizeof buf, " %zu", n->getChildren().size());
        s += buf;
        for (const auto& c : n->getChildren()) {
            snprintf(buf, sizeof buf, " %d %" PRIu64, (int)c.first, c.second->getHashKey());
            s += buf;
        }
        std::vector<HM> ps;
        for (const auto& p : n->getParents())
            ps.push_back(HM(p.parent->getHashKey(), p.compressedMove));
        std::sort(ps.begin(), ps.end(), [](const HM& a, const HM& b) {
            return a.second != b.second ? a.second < b.second : a.first < b.first; });
        snprintf(buf, sizeof buf, " %zu", ps.size());
        s += buf;
        for (const HM& p : ps) {
            snprintf(buf, sizeof buf, " %d %" PRIu64, (int)p.second, p.first);
            s += buf;
        }
        return s;
    }

    /** Dump the state of EVERY node of the book; nodes whose text did not change since the
     *  previous dump are not repeated (the driver keeps the previous text of each node):
     *  "S <#nodes> <#changed> <#removed>", the changed node lines, the removed hashes. */
    static void dumpState() {
        std::vector<std::string> changed;
        std::vector<U64> removed;
        for (const auto& e : lastLine)
            if (!book->bookNodes.count(e.first))
                removed.push_back(e.first);
        for (U64 h : removed)
            lastLine.erase(h);
        for (const auto& e : book->bookNodes) {
            std::string l = nodeLine(e.second.get());
            auto it = lastLine.find(e.first);
            if (it == lastLine.end() || it->second != l) {
                lastLine[e.first] = l;
                changed.push_back(l);
            }
        }
        printf("S %zu %zu %zu\n", book->bookNodes.size(), changed.size(), removed.size());
        for (const std::string& l : changed)
            printf("%s\n", l.c_str());
        for (U64 h : removed)
            printf("%" PRIu64 "\n", h);
        fflush(stdout);
    }

    static U64 addrOf(U64 h) {
        BookNode* n = book->getBookNode(h);
        return n ? (U64)(uintptr_t)n : 0;
    }

    static void checkGetPosition(U64 r) {
        if (order.empty())
            return;
        U64 h = order[r % order.size()];
        if (!book->getBookNode(h) || book->getBookNode(h)->getState() != BookNode::INITIALIZED)
            return;   // unreachable after a lost record (malformed stream): getPosition is not defined
        Position pos;
        std::vector<Move> ml;
        bool ok = book->getPosition(h, pos, ml);
        if (ok) {
            ok = pos.bookHash() == h;
            Position p2 = TextIO::readFEN(TextIO::startPosFEN);
            UndoInfo ui;
            for (const Move& m : ml)
                p2.makeMove(m, ui);
            ok = ok && p2.bookHash() == h;
            BookNode* n = book->getBookNode(h);
            ok = ok && (n->getDepth() <= (int)ml.size());
        }
        printf("G %s %" PRIu64 "\n", ok ? "ok" : "bad", h);
    }

    static void printAdd(U64 h, const std::vector<HM>& pl, const std::vector<HM>& cl, const std::vector<U64>& toSearch) {
        printf("ADD %" PRIu64 " %" PRIu64 " %zu", h, addrOf(h), pl.size());
        for (const HM& p : pl)
            printf(" %d %" PRIu64, (int)p.second, p.first);
        printf(" %zu", cl.size());
        for (const HM& c : cl)
            printf(" %d %" PRIu64, (int)c.second, c.first);
        printf(" %zu", toSearch.size());
        for (U64 t : toSearch)
            printf(" %" PRIu64, t);
        printf("\n");
    }

    static void opBook(int dc, int oc, int xc, U64 s) {
        book.reset(new Book("", dc, oc, xc));
        order.clear(); posOf.clear(); preds.clear(); pendingList.clear(); lastLine.clear();
        salt = s;
        Position start = TextIO::readFEN(TextIO::startPosFEN);
        registerPos(start);
        printf("NEW %" PRIu64 " %" PRIu64 " %d %d %d\n", book->startPosHash, addrOf(book->startPosHash), dc, oc, xc);
    }

    static U64 mix(U64 x) {
        x ^= salt; x *= 0x9E3779B97F4A7C15ULL; x ^= x >> 29; x *= 0xBF58476D1CE4E5B9ULL; x ^= x >> 32;
        return x;
    }

    static void opAdd(int mode, U64 r1, U64 r2, U64 r3) {
        size_t n = order.size();
        size_t idx = mode == 1 ? n - 1 : mode == 2 ? n - 1 - (r1 % std::min<size_t>(n, 8)) : r1 % n;
        U64 ph = order[idx];
        Position pos(posOf[ph]);
        std::vector<Move> moves = legalMoves(pos);
        // per-history move preference order (salted), so that histories revisit the same few moves
        // and transpose often, but different histories explore different parts of the game tree
        std::sort(moves.begin(), moves.end(), [](const Move& a, const Move& b) {
            return mix(a.getCompressedMove()) < mix(b.getCompressedMove()); });
        std::vector<Move> cands, interesting;
        UndoInfo ui;
        for (const Move& m : moves) {
            pos.makeMove(m, ui);
            U64 ch = pos.bookHash();
            if (!posOf.count(ch)) {
                cands.push_back(m);
                size_t np = preds.count(ch) ? preds[ch].size() : 0;
                bool inter = np >= 2;
                if (!inter)
                    inter = !bookSuccessors(pos, posOf).empty();
                if (inter)
                    interesting.push_back(m);
            }
            pos.unMakeMove(m, ui);
        }
        if (cands.empty()) {
            printf("NOP\n");
            return;
        }
        Move mv;
        if ((r3 % 4) != 0 && !interesting.empty())
            mv = interesting[r2 % interesting.size()];
        else {
            size_t lim = std::min<size_t>(cands.size(), 2 + (r3 >> 2) % 5);
            mv = cands[r2 % lim];
        }
        Position child(pos);
        child.makeMove(mv, ui);
        U64 h = child.bookHash();
        std::vector<HM> pl = preds.count(h) ? preds[h] : std::vector<HM>();
        std::vector<HM> cl = bookSuccessors(child, posOf);
        std::vector<U64> toSearch;
        book->addPosToBook(pos, mv, toSearch);
        registerPos(child);
        printAdd(h, pl, cl, toSearch);
    }

    static void opSet(U64 r1, U64 r2, int score, int time) {
        U64 h = order[r1 % order.size()];
        BookNode* n = book->getBookNode(h);
        Position pos(posOf[h]);
        std::vector<Move> moves = legalMoves(pos);
        Move mv;
        int sel = r2 % 4;
        if (sel != 0 && !moves.empty()) {
            std::vector<Move> covered;
            for (const Move& m : moves)
                if (n->getChildren().count(m.getCompressedMove()))
                    covered.push_back(m);
            if (sel == 1 && !covered.empty())
                mv = covered[(r2 / 4) % covered.size()];
            else
                mv = moves[(r2 / 4) % moves.size()];
        }
        n->setSearchResult(book->bookData, mv, score, time);
        printf("SET %" PRIu64 " %d %d %d\n", h, (int)mv.getCompressedMove(), score, time);
    }

    static void opPend(U64 r1) {
        U64 h = order[r1 % order.size()];
        book->addPending(h);
        if (std::find(pendingList.begin(), pendingList.end(), h) == pendingList.end())
            pendingList.push_back(h);
        printf("PEND %" PRIu64 "\n", h);
    }

    static void opUnpend(U64 r1) {
        U64 h;
        if (!pendingList.empty() && (r1 % 8) != 0) {
            size_t i = (r1 / 8) % pendingList.size();
            h = pendingList[i];
            pendingList.erase(pendingList.begin() + i);
        } else {
            h = order[(r1 / 8) % order.size()];      // removing a mark that is not set is legal too
            auto it = std::find(pendingList.begin(), pendingList.end(), h);
            if (it != pendingList.end())
                pendingList.erase(it);
        }
        book->removePending(h);
        printf("UNPEND %" PRIu64 "\n", h);
    }

    static std::vector<std::string> readRecords(const std::string& file) {
        std::ifstream is(file.c_str(), std::ios_base::in | std::ios_base::binary);
        std::vector<std::string> recs;
        while (true) {
            char buf[16];
            is.read(buf, 16);
            if (!is)
                break;
            recs.push_back(std::string(buf, 16));
        }
        return recs;
    }

    static void writeRecords(const std::string& file, const std::vector<std::string>& recs) {
        std::ofstream os(file.c_str(), std::ios_base::out | std::ios_base::binary | std::ios_base::trunc);
        for (const std::string& r : recs)
            os.write(r.data(), 16);
    }

    static std::string hex(const std::string& r) {
        static const char* d = "0123456789abcdef";
        std::string s;
        for (unsigned char c : r) { s += d[c >> 4]; s += d[c & 15]; }
        return s;
    }

    static void opWrite() {
        book->writeToFile(tmpFile);
        std::vector<std::string> recs = readRecords(tmpFile);
        std::sort(recs.begin(), recs.end());
        printf("WRITE %zu", recs.size());
        for (const std::string& r : recs)
            printf(" %s", hex(r).c_str());
        printf("\n");
    }

    static void opRead(int variant, U64 r) {
        book->writeToFile(tmpFile);
        std::vector<std::string> recs = readRecords(tmpFile);
        if (variant == 1) {                       // other record order
            for (size_t i = recs.size(); i > 1; i--) {
                r = r * 6364136223846793005ULL + 1442695040888963407ULL;
                std::swap(recs[i - 1], recs[(r >> 33) % i]);
            }
        } else if (variant == 2 && !recs.empty()) {   // a stale duplicate in front (as in a backup file)
            std::string dup = recs[r % recs.size()];
            dup[12] ^= 1;                              // different search time
            recs.insert(recs.begin(), dup);
        } else if (variant == 3 && recs.size() > 1) { // a record is lost (unreachable descendants may remain)
            size_t i = r % recs.size();
            recs.erase(recs.begin() + i);
        }
        if (variant != 0)
            writeRecords(tmpFile, recs);
        book->readFromFile(tmpFile);
        pendingList.clear();
        // our own store follows the file content
        std::unordered_map<U64, Position> present;
        for (const auto& e : book->bookNodes) {
            auto it = posOf.find(e.first);
            if (it != posOf.end())
                present[e.first] = it->second;
        }
        std::vector<U64> oldOrder = order;
        order.clear(); preds.clear();
        std::unordered_map<U64, Position> old;
        old.swap(posOf);
        for (U64 h : oldOrder)
            if (present.count(h))
                registerPos(old[h]);
        printf("READ %zu", recs.size());
        for (const std::string& rec : recs)
            printf(" %s", hex(rec).c_str());
        printf(" %zu", book->bookNodes.size());
        for (const auto& e : book->bookNodes)
            printf(" %" PRIu64 " %" PRIu64, e.first, (U64)(uintptr_t)e.second.get());
        printf(" %zu", order.size());
        for (U64 h : order) {
            std::vector<HM> s = bookSuccessors(posOf[h], posOf);
            printf(" %" PRIu64 " %zu", h, s.size());
            for (const HM& c : s)
                printf(" %d %" PRIu64, (int)c.second, c.first);
        }
        printf("\n");
    }

    struct SimAdd { U64 h; std::vector<HM> pl, cl; };

    static void simImport(int maxPly, GameNode& gn, int ply, std::vector<SimAdd>& out) {
        if (ply >= maxPly)
            return;
        for (int i = 0; i < gn.nChildren(); i++) {
            gn.goForward(i);
            if (gn.getPos().getHalfMoveClock() >= 100) {   // hooks/fix-c19-import-cycle.patch: not imported
                gn.goBack();                               // (never reached by the generated games)
                continue;
            }
            U64 h = gn.getPos().bookHash();
            if (!posOf.count(h)) {
                SimAdd a;
                a.h = h;
                a.pl = preds.count(h) ? preds[h] : std::vector<HM>();
                a.cl = bookSuccessors(gn.getPos(), posOf);
                registerPos(gn.getPos());
                out.push_back(a);
            }
            simImport(maxPly, gn, ply + 1, out);
            gn.goBack();
        }
    }

    static void opImport(U64 seed, int nGames, int maxLen, int maxPly) {
        GameTree gt;
        U64 s = seed;
        auto rnd = [&s]() { s = s * 6364136223846793005ULL + 1442695040888963407ULL; return s >> 33; };
        for (int g = 0; g < nGames; g++) {
            Position pos = TextIO::readFEN(TextIO::startPosFEN);
            std::vector<Move> line;
            UndoInfo ui;
            int len = 1 + rnd() % maxLen;
            for (int i = 0; i < len; i++) {
                std::vector<Move> moves = legalMoves(pos);
                if (moves.empty())
                    break;
                std::sort(moves.begin(), moves.end(), [](const Move& a, const Move& b) {
                    return mix(a.getCompressedMove()) < mix(b.getCompressedMove()); });
                size_t lim = std::min<size_t>(moves.size(), 3);
                Move m = moves[rnd() % lim];
                line.push_back(m);
                pos.makeMove(m, ui);
            }
            gt.insertMoves(line);
        }
        std::vector<SimAdd> adds;
        {
            GameNode gn = gt.getRootNode();
            simImport(maxPly, gn, 0, adds);
        }
        GameNode gn = gt.getRootNode();
        int nAdded = 0;
        book->addToBook(maxPly, gn, nAdded);
        if (nAdded != (int)adds.size())
            printf("IMPORTMISMATCH %d %zu\n", nAdded, adds.size());
        if (adds.empty())
            printf("NOP\n");
        for (const SimAdd& a : adds) {
            std::vector<U64> ts;
            ts.push_back(a.h);
            for (const HM& p : a.pl)
                ts.push_back(p.first);
            printAdd(a.h, a.pl, a.cl, ts);
        }
    }

    static int cyclic() {
        fflush(stdout);
        pid_t pid = fork();
        if (pid == 0) {
            struct rlimit rl; rl.rlim_cur = rl.rlim_max = 64 * 1024 * 1024;
            setrlimit(RLIMIT_STACK, &rl);
            fclose(stderr);
            Book b("");
            GameTree gt;
            Position pos = TextIO::readFEN(TextIO::startPosFEN);
            std::vector<Move> line;
            UndoInfo ui;
            const char* cyc[4] = { "g1f3", "g8f6", "f3g1", "f6g8" };
            for (int i = 0; i < 104; i++) {
                Move m = TextIO::uciStringToMove(cyc[i % 4]);
                line.push_back(m);
                pos.makeMove(m, ui);
            }
            gt.insertMoves(line);
            GameNode gn = gt.getRootNode();
            int nAdded = 0;
            b.addToBook(1000, gn, nAdded);
            printf("CYCLIC survived nAdded=%d nodes=%zu\n", nAdded, b.bookNodes.size());
            fflush(stdout);
            _exit(0);
        }
        int st = 0;
        waitpid(pid, &st, 0);
        if (WIFEXITED(st) && WEXITSTATUS(st) == 0)
            return 0;
        printf("CYCLIC crashed status=%d signal=%d\n", st, WIFSIGNALED(st) ? WTERMSIG(st) : 0);
        return 0;
    }

    static int run() {
        std::string line;
        // Book::readFromFile prints to std::cout: keep that away from our protocol (we use stdio)
        static std::stringbuf nullBuf;
        std::streambuf* oldBuf = std::cout.rdbuf(&nullBuf);
        char name[64];
        snprintf(name, sizeof name, "/tmp/c19book-%d.bin", (int)getpid());
        tmpFile = name;
        U64 opNo = 0;
        while (std::getline(std::cin, line)) {
            std::istringstream is(line);
            std::string k;
            is >> k;
            if (k.empty() || k[0] == '#')
                continue;
            nullBuf.str("");
            if (k == "BOOK") {
                int a = 100, b = 200, c = 50; U64 s = 0;
                is >> a >> b >> c >> s;
                opBook(a, b, c, s);
            } else if (k == "END") {
                break;
            } else if (!book) {
                printf("ERROR no book\n");
                continue;
            } else if (k == "ADD") {
                int mode = 0; U64 r1 = 0, r2 = 0, r3 = 0;
                is >> mode >> r1 >> r2 >> r3;
                opAdd(mode, r1, r2, r3);
            } else if (k == "SET") {
                U64 r1 = 0, r2 = 0; int score = 0, time = 0;
                is >> r1 >> r2 >> score >> time;
                opSet(r1, r2, score, time);
            } else if (k == "PEND") {
                U64 r1 = 0; is >> r1; opPend(r1);
            } else if (k == "UNPEND") {
                U64 r1 = 0; is >> r1; opUnpend(r1);
            } else if (k == "WRITE") {
                opWrite();
            } else if (k == "READ") {
                int v = 0; U64 r = 0; is >> v >> r; opRead(v, r);
            } else if (k == "IMPORT") {
                U64 seed = 0; int ng = 1, ml = 4, mp = 4;
                is >> seed >> ng >> ml >> mp;
                opImport(seed, ng, ml, mp);
            } else {
                printf("ERROR unknown op %s\n", k.c_str());
                continue;
            }
            checkGetPosition(mix(opNo++));
            dumpState();
        }
        unlink(tmpFile.c_str());
        std::cout.rdbuf(oldBuf);
        return 0;
    }
};

std::unique_ptr<Book> BookBuildTest::book;
std::vector<U64> BookBuildTest::order;
std::unordered_map<U64, Position> BookBuildTest::posOf;
std::unordered_map<U64, std::vector<HM>> BookBuildTest::preds;
std::vector<U64> BookBuildTest::pendingList;
std::unordered_map<U64, std::string> BookBuildTest::lastLine;
U64 BookBuildTest::salt = 0;
std::string BookBuildTest::tmpFile;

int main(int argc, char** argv) {
    if (argc > 1 && std::string(argv[1]) == "cyclic")
        return BookBuildTest::cyclic();
    if (argc > 1 && std::string(argv[1]) == "negate") {      // table of BookNode::negateScore on all S16 values
        for (int sc = -32768; sc <= 32767; sc++)
            printf("%d %d\n", sc, BookNode::negateScore(sc));
        return 0;
    }
    return BookBuildTest::run();
}
