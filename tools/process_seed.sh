#!/bin/bash
# process_seed.sh <ID> <dir with patch.diff run.sh demo meta.json>: validate an independent breaking change
# (tools/validate_seed.sh), run its property's quick check against a scratch worktree carrying it
# (tools/try_seed.sh), and keep it under /verif/seeded/<ID>/ with what was confirmed and what caught it.
ID=$1; SRC=$2; PROP=${ID:0:3}
mkdir -p /tmp/seed-out; rm -rf /tmp/seed-out/$ID; cp -r $SRC /tmp/seed-out/$ID
python3 - "$ID" <<'EOF'
import json, sys
p = "/tmp/seed-out/%s/meta.json" % sys.argv[1]
m = json.load(open(p)); m.setdefault("needs", m.get("needs_to_manifest")); json.dump(m, open(p, "w"), indent=1)
EOF
VAL=$(/verif/tools/validate_seed.sh $ID /tmp/seed-out/$ID 2>/tmp/seed-out/$ID.validate.log | tail -1)
echo "validate: $VAL"
case "$VAL" in *'"ok":true'*) ;; *) echo "NOT VALID, not kept"; exit 1;; esac
OUT=$(/verif/tools/try_seed.sh $ID /tmp/seed-out/$ID/patch.diff $PROP 2>&1)
echo "$OUT" | cut -c1-300
N=$(echo "$OUT" | grep -c "^VIOLATION")
NF=$(echo "$OUT" | grep "^VIOLATION" | grep -c "no-failing-input-found")
if [ "$N" -gt 0 ]; then
  if [ "$NF" -lt "$N" ]; then CAUGHT="CAUGHT by ./check $PROP quick ($N VIOLATION line(s), with concrete replay)";
  else CAUGHT="CAUGHT by ./check $PROP quick ($N VIOLATION line(s), no-failing-input-found)"; fi
else CAUGHT="MISSED by ./check $PROP quick"; fi
python3 /verif/tools/keep_seed.py $ID "$VAL" "$CAUGHT"
echo "$ID: $CAUGHT"
