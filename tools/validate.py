#!/usr/bin/env python3
"""Validate MANIFEST.json and every evidence file against the given schemas (needs jsonschema:
run with python3-vt).  Also checks that every property is either claimed or not_applicable."""
import json, os, sys
import jsonschema
V = os.path.dirname(os.path.dirname(os.path.abspath(__file__)))
m = json.load(open(os.path.join(V, "MANIFEST.json")))
jsonschema.validate(m, json.load(open("/root/.vp/MANIFEST.schema.json")))
ids = [json.loads(l)["id"] for l in open(os.path.join(V, "properties.jsonl"))]
claimed = [c["property_id"] for c in m["checks"]]
na = [c["property_id"] for c in m.get("not_applicable", [])]
bad = 0
for i in ids:
    if (i in claimed) == (i in na):
        print("property", i, "claimed" if i in claimed else "neither claimed nor not_applicable", "- inconsistent"); bad += 1
es = json.load(open("/root/.vp/EVIDENCE.schema.json"))
for c in m["checks"]:
    p = c["evidence_file"]
    if not os.path.exists(p):
        print("missing evidence", p); bad += 1; continue
    try:
        e = json.load(open(p)); jsonschema.validate(e, es)
        if e["level"] != c["level_claimed"]["category"]:
            print("level mismatch", p); bad += 1
        cov = e["coverage"]
        if e["level"] == "proof" and cov.get("obligations") != cov.get("discharged"):
            print("undischarged obligations", p); bad += 1
    except Exception as ex:
        print("invalid evidence", p, str(ex)[:200]); bad += 1
print("ok" if not bad else "%d problems" % bad)
sys.exit(1 if bad else 0)
