#!/usr/bin/env python3
"""Run every kept seeded change against its property's check (scratch worktree, VERIF_REPO) and
record the outcome in seeded/<id>/meta.json (caught_by) and seeded/RESULTS.md.
SEED_LANES=<n> runs n seeds concurrently."""
import json, os, subprocess, sys, time
from concurrent.futures import ThreadPoolExecutor
V = "/verif"
only = sys.argv[1:]
m = json.load(open(V + "/MANIFEST.json"))
claimed = {c["property_id"] for c in m["checks"]}
EXTRA = {"C10b": ["C09"], "C09b": []}   # additional checks to try for a seed

def one(sid):
    d = os.path.join(V, "seeded", sid)
    prop = sid[:3]
    meta = json.load(open(d + "/meta.json"))
    if prop not in claimed:
        return (sid, prop, "property not claimed", "")
    t = time.time()
    res_all = []
    for chk in [prop] + EXTRA.get(sid, []):
        p = subprocess.run([V + "/tools/try_seed.sh", sid, d + "/patch.diff", chk], stdout=subprocess.PIPE, stderr=subprocess.STDOUT, text=True)
        out = p.stdout
        viol = [l for l in out.split("\n") if l.startswith("VIOLATION")]
        if "patch failed" in out:
            res = "patch does not apply to current HEAD"
        elif viol:
            nf = all("no-failing-input-found" in l for l in viol)
            res = "CAUGHT by ./check %s quick (%d VIOLATION line(s)%s)" % (chk, len(viol), ", no-failing-input-found" if nf else ", with concrete replay")
        else:
            res = "MISSED by ./check %s quick" % chk
        res_all.append(res)
    res = "; ".join(res_all)
    meta["caught_by"] = res
    meta["tried_at_repo_head"] = subprocess.run(["git", "-C", "/repo", "log", "--oneline", "-1"], stdout=subprocess.PIPE, text=True).stdout.strip()
    json.dump(meta, open(d + "/meta.json", "w"), indent=1)
    print(sid, res, flush=True)
    return (sid, prop, res, "%.0fs" % (time.time() - t))

sids = [s for s in sorted(os.listdir(V + "/seeded")) if os.path.isdir(os.path.join(V, "seeded", s)) and (not only or s in only)]
# seeds of one property run one after the other (their checks regenerate the same coq/gen files);
# different properties may run concurrently
groups = {}
for s_ in sids:
    groups.setdefault(s_[:3], []).append(s_)
def grp(g):
    return [one(x) for x in g]
with ThreadPoolExecutor(max_workers=int(os.environ.get("SEED_LANES", "1"))) as ex:
    rows = sorted(r for rs in ex.map(grp, list(groups.values())) for r in rs)
if not only:
    with open(V + "/seeded/RESULTS.md", "w") as f:
        f.write("# Seeded breaking changes vs checks\n\nEach seed was written by an independent sub-agent that saw only the property text; confirmed by tools/validate_seed.sh; tried with tools/try_seed.sh (check run with VERIF_REPO=<scratch worktree carrying the patch>).\n\n| seed | property | result | time |\n|---|---|---|---|\n")
        for r in rows:
            f.write("| %s | %s | %s | %s |\n" % r)
