#!/usr/bin/env python3
"""Run every kept seeded change against its property's check (scratch worktree, VERIF_REPO) and
record the outcome in seeded/<id>/meta.json (caught_by) and seeded/RESULTS.md."""
import json, os, subprocess, sys, time
V = "/verif"
only = sys.argv[1:]
m = json.load(open(V + "/MANIFEST.json"))
claimed = {c["property_id"] for c in m["checks"]}
rows = []
for sid in sorted(os.listdir(V + "/seeded")):
    d = os.path.join(V, "seeded", sid)
    if not os.path.isdir(d) or (only and sid not in only):
        continue
    prop = sid[:3]
    meta = json.load(open(d + "/meta.json"))
    if prop not in claimed:
        rows.append((sid, prop, "property not claimed yet", "")); continue
    t = time.time()
    p = subprocess.run([V + "/tools/try_seed.sh", sid, d + "/patch.diff", prop], stdout=subprocess.PIPE, stderr=subprocess.STDOUT, text=True)
    out = p.stdout
    viol = [l for l in out.split("\n") if l.startswith("VIOLATION")]
    if "patch failed" in out:
        res = "patch does not apply to current HEAD"
    elif viol:
        nf = all("no-failing-input-found" in l for l in viol)
        res = "CAUGHT by ./check %s quick (%d VIOLATION line(s)%s)" % (prop, len(viol), ", no-failing-input-found" if nf else ", with concrete replay")
    else:
        res = "MISSED by ./check %s quick" % prop
    meta["caught_by"] = res
    meta["tried_at_repo_head"] = subprocess.run(["git", "-C", "/repo", "log", "--oneline", "-1"], stdout=subprocess.PIPE, text=True).stdout.strip()
    json.dump(meta, open(d + "/meta.json", "w"), indent=1)
    rows.append((sid, prop, res, "%.0fs" % (time.time() - t)))
    print(sid, res, flush=True)
if not only:
    with open(V + "/seeded/RESULTS.md", "w") as f:
        f.write("# Seeded breaking changes vs checks\n\n| seed | property | result | time |\n|---|---|---|---|\n")
        for r in rows:
            f.write("| %s | %s | %s | %s |\n" % r)
