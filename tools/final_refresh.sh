#!/bin/bash
# Run the quick check of the given properties on /repo one after the other and print a summary.
cd /verif
for c in "$@"; do
  ./check $c --tier quick > /tmp/final-$c.log 2>&1; rc=$?
  echo "$c rc=$rc $(grep -E 'done:' /tmp/final-$c.log | tail -1 | cut -c1-140)"
  grep -E "^VIOLATION" /tmp/final-$c.log | head -3
done
