#!/bin/bash
# try_seed.sh <ID> <patch> [check ids...]: run checks against a scratch worktree carrying the patch
ID=$1; PATCH=$2; shift 2
WT=/tmp/m-$ID-$$
git -C /repo worktree add --detach $WT HEAD >/dev/null 2>&1
git -C $WT apply $PATCH 2>/dev/null || git -C $WT apply -3 $PATCH || { echo "patch failed"; git -C /repo worktree remove --force $WT; exit 2; }
for c in "$@"; do
  echo "== $c against $ID"
  (cd /verif && VERIF_REPO=$WT timeout 3000 ./check $c 2>&1 | grep -E "VIOLATION|KNOWN-FINDING|done:|infrastructure" )
done
git -C /repo worktree remove --force $WT
