#!/bin/bash
# Re-base every seeded/<id>/patch.diff onto the current /repo HEAD (3-way), so that
# `git -C /repo apply seeded/<id>/patch.diff` works on the tree as committed.
WT=/tmp/rebase-seeds-$$
git -C /repo worktree add --detach $WT HEAD >/dev/null 2>&1
for d in /verif/seeded/*/; do
  id=$(basename $d)
  [ -f $d/patch.diff ] || continue
  git -C $WT checkout -q -f HEAD -- . ; git -C $WT clean -fdq
  if git -C $WT apply --check $d/patch.diff 2>/dev/null; then echo "$id ok"; continue; fi
  if git -C $WT apply -3 $d/patch.diff >/dev/null 2>&1 && ! git -C $WT diff --name-only --diff-filter=U | grep -q .; then
     git -C $WT diff HEAD > $d/patch.diff.new && mv $d/patch.diff.new $d/patch.diff && echo "$id rebased"
  else echo "$id CONFLICT"; fi
done
git -C /repo worktree remove --force $WT
