#!/usr/bin/env python3
"""manifest_add.py <ID> <category> <technique> <text> <note>: register/replace a check in MANIFEST.json."""
import json, sys
pid, cat, tech, text, note = sys.argv[1:6]
p = '/verif/MANIFEST.json'
m = json.load(open(p))
m['checks'] = [c for c in m['checks'] if c['property_id'] != pid]
m['checks'].append({"property_id": pid, "quick_cmd": "./check %s --tier quick" % pid, "thorough_cmd": "./check %s --tier thorough" % pid,
                    "evidence_file": "/verif/evidence/%s.json" % pid, "replay_cmd_template": "./check %s --replay {path}" % pid,
                    "engine": "coq-proof", "level_claimed": {"category": cat, "text": text, "design_ref": "DESIGN.md section 6, %s" % pid},
                    "level_note": note, "technique": tech})
m['checks'].sort(key=lambda c: c['property_id'])
m['not_applicable'] = [n for n in m.get('not_applicable', []) if n['property_id'] != pid]
for e in m.get('engines', []):
    if pid not in e['serves_properties']:
        e['serves_properties'].append(pid); e['serves_properties'].sort()
json.dump(m, open(p, 'w'), indent=1)
print("registered", pid)
