#!/usr/bin/env python3
"""keep_seed.py <ID> <validation json line> <caught-by text>: copy a validated seeded change into
/verif/seeded/<ID>/ with a meta.json that records what was confirmed and what we ran."""
import json, os, shutil, sys
sid, val, caught = sys.argv[1], json.loads(sys.argv[2]), sys.argv[3]
src = "/tmp/seed-out/%s" % sid.split("-")[0] if not os.path.isdir("/tmp/seed-out/%s" % sid) else "/tmp/seed-out/%s" % sid
dst = "/verif/seeded/%s" % sid
os.makedirs(dst, exist_ok=True)
for f in os.listdir(src):
    if f.endswith((".diff", ".cpp", ".sh", ".py", ".hpp", ".txt")) and os.path.getsize(os.path.join(src, f)) < 400000:
        shutil.copy(os.path.join(src, f), dst)
m = json.load(open(os.path.join(src, "meta.json")))
meta = {"property": sid[:3], "breaks": m.get("property"), "summary": m.get("summary"),
        "needs_to_manifest": m.get("needs"), "why_tests_pass": m.get("why_tests_pass"),
        "author": "independent sub-agent given only the property text and a scratch worktree",
        "confirmed_by_coordinator": val,
        "what_we_ran": ["tools/validate_seed.sh (scratch worktree: apply, cmake build, ctest vs unchanged passing list, demonstration on both trees)",
                        "tools/try_seed.sh (checks run with VERIF_REPO=<scratch worktree carrying the patch>)"],
        "caught_by": caught}
json.dump(meta, open(os.path.join(dst, "meta.json"), "w"), indent=1)
print("kept", dst)
