#!/bin/sh
# Runs the repository's own test-suite with the verification guard (TEXEL_VERIF) OFF.
set -e
cmake -G Ninja -B /repo/_build -S /repo -DCMAKE_BUILD_TYPE=RelWithDebInfo >/dev/null
cmake --build /repo/_build -j16
ctest --test-dir /repo/_build -j8 --timeout 900
