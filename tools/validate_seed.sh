#!/bin/bash
# validate_seed.sh <ID> <dir with patch.diff run.sh ...>
# Confirms, in a scratch worktree outside /repo and /verif, that a seeded change (1) applies,
# (2) compiles, (3) keeps every test that passes on the unchanged tree passing, (4) its
# demonstration fails with the change and passes without it.  Prints a JSON summary line.
ID=$1; SRC=$2
WT=/tmp/vseed-$ID
BASE=/tmp/vseed-base            # unchanged tree build, shared, built once
set -u
log() { echo "[vseed $ID] $*" >&2; }
if [ ! -f $BASE/passing.txt ]; then
  (
    flock 9
    if [ ! -f $BASE/passing.txt ]; then
      git -C /repo worktree add --detach $BASE/src HEAD >/dev/null 2>&1
      cmake -G Ninja -B $BASE/_build -S $BASE/src -DCMAKE_BUILD_TYPE=RelWithDebInfo >/dev/null 2>&1
      cmake --build $BASE/_build -j8 >/dev/null 2>&1
      ctest --test-dir $BASE/_build -j8 --timeout 900 2>/dev/null | grep -E "Test +#[0-9]+:" | grep Passed | sed -E 's/.*Test +#[0-9]+: +([^ ]+) .*/\1/' | sort > $BASE/passing.tmp
      mv $BASE/passing.tmp $BASE/passing.txt
    fi
  ) 9>/tmp/vseed-base.lock
fi
rm -rf $WT; git -C /repo worktree prune; git -C /repo worktree add --detach $WT HEAD >/dev/null 2>&1 || { echo '{"id":"'$ID'","ok":false,"why":"worktree"}'; exit 1; }
if ! git -C $WT apply $SRC/patch.diff 2>/dev/null && ! git -C $WT apply -3 $SRC/patch.diff; then echo '{"id":"'$ID'","ok":false,"why":"patch does not apply"}'; git -C /repo worktree remove --force $WT; exit 1; fi
cmake -G Ninja -B $WT/_build -S $WT -DCMAKE_BUILD_TYPE=RelWithDebInfo >/dev/null 2>&1
if ! cmake --build $WT/_build -j8 >$WT/build.log 2>&1; then echo '{"id":"'$ID'","ok":false,"why":"does not compile"}'; git -C /repo worktree remove --force $WT; exit 1; fi
ctest --test-dir $WT/_build -j8 --timeout 900 2>/dev/null | grep -E "Test +#[0-9]+:" | grep Passed | sed -E 's/.*Test +#[0-9]+: +([^ ]+) .*/\1/' | sort > $WT/passing.txt
REGR=$(comm -23 $BASE/passing.txt $WT/passing.txt | tr '\n' ' ')
NB=$(wc -l < $BASE/passing.txt); NP=$(wc -l < $WT/passing.txt)
# demonstration: must FAIL on the changed tree and PASS on the unchanged one
( cd $SRC && timeout 1800 bash ./run.sh $WT >$WT/demo_mut.log 2>&1 ); RM=$?
( cd $SRC && timeout 1800 bash ./run.sh $BASE/src >$WT/demo_base.log 2>&1 ); RB=$?
OK=false; [ -z "$REGR" ] && [ $RM -ne 0 ] && [ $RB -eq 0 ] && OK=true
echo "{\"id\":\"$ID\",\"ok\":$OK,\"baseline_passing\":$NB,\"mutant_passing\":$NP,\"regressed\":\"$REGR\",\"demo_rc_mutant\":$RM,\"demo_rc_unchanged\":$RB}"
tail -3 $WT/demo_mut.log >&2
git -C /repo worktree remove --force $WT
