(* OCaml driver for the extracted C15 development (RevMoveGen model + Spec-level statements).
     rev_driver model    stdin "<incl 0|1> <raw>"                         -> "L=<un-move list in generation order>"
     rev_driver spec     stdin "C <incl> <rawP> | <move> | <rawQ> | <list>" -> completeness of the listed un-moves at (P, m);
                               also mf/wfr/raw: the hypotheses MoveFacts, WFrev (executable part) and
                               "m is in the model's raw reverse move list of Q" of the Coq theorems, evaluated
                               "U <rawQ> | <unmove> | <rawPrev>"            -> consistency of one listed un-move
   <raw>    = 64 board characters a1..h8 ('.' empty, KQRBNPkqrbnp) <w|b> <castleMask> <epSquare|-1>
   <move>   = e2e4, promotions e7e8Q / e2e1q (piece letter of the promoted piece, case = colour)
   <unmove> = <move>:<captured piece code>:<castle mask>:<ep square>      (list: comma separated, "-" when empty) *)
open Rev_model

let rec pos_of_int n = if n = 1 then XH else if n land 1 = 0 then XO (pos_of_int (n lsr 1)) else XI (pos_of_int (n lsr 1))
let n_of_int n = if n = 0 then N0 else Npos (pos_of_int n)
let z_of_int n = if n = 0 then Z0 else if n > 0 then Zpos (pos_of_int n) else Zneg (pos_of_int (-n))
let rec int_of_pos = function XH -> 1 | XO p -> 2 * int_of_pos p | XI p -> 2 * int_of_pos p + 1
let int_of_n = function N0 -> 0 | Npos p -> int_of_pos p
let int_of_z = function Z0 -> 0 | Zpos p -> int_of_pos p | Zneg p -> - (int_of_pos p)

let piece_chars = ".KQRBNPkqrbnp"

type raw = { board : n list; wtm : bool; cm : n; ep : z }

let split_ws s = List.filter (fun x -> x <> "") (String.split_on_char ' ' s)

let parse_raw (txt : string) : raw =
  match split_ws txt with
  | b :: side :: cm :: ep :: _ ->
      if String.length b <> 64 then failwith "bad board";
      let board = List.init 64 (fun i -> n_of_int (String.index piece_chars b.[i])) in
      { board; wtm = (side = "w"); cm = n_of_int (int_of_string cm); ep = z_of_int (int_of_string ep) }
  | _ -> failwith "bad raw position"

let sq_str s = let i = int_of_n s in Printf.sprintf "%c%c" (Char.chr (97 + (i land 7))) (Char.chr (49 + (i lsr 3)))
let mv_str m =
  let p = int_of_n m.mpromote in
  sq_str m.mfrom ^ sq_str m.mto ^ (if p = 0 then "" else if p < 13 then String.make 1 piece_chars.[p] else "?" ^ string_of_int p)

let parse_move (s : string) : move =
  let sq i = n_of_int ((Char.code s.[i] - 97) + 8 * (Char.code s.[i + 1] - 49)) in
  let promo = if String.length s < 5 then 0 else String.index piece_chars s.[4] in
  { mfrom = sq 0; mto = sq 2; mpromote = n_of_int promo }

let um_str (u : unMove) =
  Printf.sprintf "%s:%d:%d:%d%s" (mv_str u.um_move) (int_of_n u.um_ui.u_captured) (int_of_n u.um_ui.u_castleMask)
    (int_of_z u.um_ui.u_epSquare)
    (if int_of_z u.um_ui.u_halfMoveClock = 0 then "" else ":hmc" ^ string_of_int (int_of_z u.um_ui.u_halfMoveClock))

let parse_sun (s : string) : sunmove =
  match String.split_on_char ':' s with
  | mv :: cap :: cm :: ep :: _ ->
      { su_move = parse_move mv; su_cap = n_of_int (int_of_string cap); su_castle = n_of_int (int_of_string cm);
        su_ep = z_of_int (int_of_string ep) }
  | _ -> failwith ("bad un-move " ^ s)

let parse_sun_list (s : string) : sunmove list =
  let s = String.trim s in
  if s = "-" || s = "" then [] else List.map parse_sun (String.split_on_char ',' s)

let spos_of (r : raw) : spos = { sp_board = r.board; sp_white = r.wtm; sp_castle = r.cm; sp_ep = r.ep }

let b2i b = if b then 1 else 0

let model_main () =
  try
    while true do
      let line = input_line stdin in
      if line <> "" then begin
        let incl = line.[0] = '1' in
        let r = parse_raw (String.sub line 2 (String.length line - 2)) in
        let pos = positionOfBoard r.board r.wtm r.cm r.ep in
        let l = genMoves zkDummy pos incl in
        print_string "L=";
        print_endline (if l = [] then "-" else String.concat "," (List.map um_str l))
      end
    done
  with End_of_file -> ()

let fields (s : string) : string list = List.map String.trim (String.split_on_char '|' s)

let spec_main () =
  try
    while true do
      let line = input_line stdin in
      if line <> "" then begin
        let kind = line.[0] in
        let body = String.sub line 2 (String.length line - 2) in
        match kind with
        | 'C' ->
            let incl = body.[0] = '1' in
            (match fields (String.sub body 2 (String.length body - 2)) with
             | [rp; mv; rq; lst] ->
                 let p = spos_of (parse_raw rp) and q = spos_of (parse_raw rq) in
                 let m = parse_move mv in
                 let listed = parse_sun_list lst in
                 let ((cap, cm), ep) = expected_undo p m in
                 (* hypotheses of the Coq theorems, evaluated on the model position of P *)
                 let rp' = parse_raw rp in
                 let pp = positionOfBoard rp'.board rp'.wtm rp'.cm rp'.ep in
                 let mf = moveFactsb pp m and wfr = wfrevb zkDummy pp in
                 let qq = fixupEPSquare zkDummy (fst (makeMove zkDummy pp m)) in
                 let raw = List.mem m (revMoveList qq) in
                 Printf.printf "C ok=%d req=%d dom=%d legal=%d step=%d exp=%d:%d:%d mf=%d wfr=%d raw=%d\n"
                   (b2i (complete_at p m incl listed)) (b2i (complete_required p m incl)) (b2i (rev_domain p))
                   (b2i (legal_specb p m)) (b2i (spos_eqb (step_spec p m) q))
                   (int_of_n cap) (int_of_n cm) (int_of_z ep) (b2i mf) (b2i wfr) (b2i raw)
             | _ -> print_endline "C bad-input")
        | 'U' ->
            (match fields body with
             | [rq; um; rp] ->
                 let q = spos_of (parse_raw rq) and prev = spos_of (parse_raw rp) in
                 let u = parse_sun um in
                 let ok = consistent_at q u prev in
                 if ok then print_endline "U ok=1"
                 else
                   Printf.printf "U ok=0 acc=%d legal=%d back=%d\n" (b2i (accepted prev)) (b2i (legal_specb prev u.su_move))
                     (b2i (spos_eqb (step_spec prev u.su_move) q))
             | _ -> print_endline "U bad-input")
        | _ -> print_endline "? bad-line"
      end
    done
  with End_of_file -> ()

let () =
  match Array.to_list Sys.argv with
  | _ :: "model" :: _ -> model_main ()
  | _ :: "spec" :: _ -> spec_main ()
  | _ -> prerr_endline "usage: rev_driver model|spec"; exit 2
