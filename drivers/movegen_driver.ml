(* OCaml driver for the extracted C01 development (MoveGen model + FIDE Spec).
   Same protocols as harness/movegen_harness.cpp:
     movegen_driver eval     stdin "P <raw> | <moves>"  model lists/verdicts + " # " + spec part
                             stdin "S <raw> | <moves>"  spec part only
     movegen_driver perft    stdin "<depth> <raw>"       spec perft with per-move breakdown
     movegen_driver tables   all step-piece / between / direction entries from the model functions
     movegen_driver words    stdin "W <word>" | "R|B <sq> <occ>" | "RALL|BALL <sq>"               *)
open Movegen_model

let rec pos_of_int n = if n = 1 then XH else if n land 1 = 0 then XO (pos_of_int (n lsr 1)) else XI (pos_of_int (n lsr 1))
let n_of_int n = if n = 0 then N0 else Npos (pos_of_int n)
let z_of_int n = if n = 0 then Z0 else if n > 0 then Zpos (pos_of_int n) else Zneg (pos_of_int (-n))
let rec int_of_pos = function XH -> 1 | XO p -> 2 * int_of_pos p | XI p -> 2 * int_of_pos p + 1
let int_of_n = function N0 -> 0 | Npos p -> int_of_pos p
let int_of_z = function Z0 -> 0 | Zpos p -> int_of_pos p | Zneg p -> - (int_of_pos p)
let rec nat_of_int n = if n <= 0 then O else S (nat_of_int (n - 1))

(* unsigned 64-bit words through Int64 *)
let rec pos_of_i64 (x : int64) : positive =
  if Int64.equal x 1L then XH
  else
    let rest = Int64.shift_right_logical x 1 in
    if Int64.equal (Int64.logand x 1L) 0L then XO (pos_of_i64 rest) else XI (pos_of_i64 rest)
let n_of_i64 x = if Int64.equal x 0L then N0 else Npos (pos_of_i64 x)
let rec i64_of_pos = function
  | XH -> 1L
  | XO p -> Int64.shift_left (i64_of_pos p) 1
  | XI p -> Int64.logor (Int64.shift_left (i64_of_pos p) 1) 1L
let i64_of_n = function N0 -> 0L | Npos p -> i64_of_pos p
let n_of_string s = n_of_i64 (Int64.of_string ("0u" ^ s))
let string_of_n n = Printf.sprintf "%Lu" (i64_of_n n)

let piece_chars = ".KQRBNPkqrbnp"

type raw = { board : n list; wtm : bool; cm : n; ep : z }

let parse_raw (toks : string list) : raw =
  match toks with
  | b :: side :: cm :: ep :: _ ->
      if String.length b <> 64 then failwith "bad board";
      let board = List.init 64 (fun i -> n_of_int (String.index piece_chars b.[i])) in
      { board; wtm = (side = "w"); cm = n_of_int (int_of_string cm); ep = z_of_int (int_of_string ep) }
  | _ -> failwith "bad raw position"

let sq_str s = let i = int_of_n s in Printf.sprintf "%c%c" (Char.chr (97 + (i land 7))) (Char.chr (49 + (i lsr 3)))
let promo_str p = match int_of_n p with
  | 0 -> "" | 2 | 8 -> "q" | 3 | 9 -> "r" | 4 | 10 -> "b" | 5 | 11 -> "n" | k -> "?" ^ string_of_int k
let mv_str m = sq_str m.mfrom ^ sq_str m.mto ^ promo_str m.mpromote
let list_str l = if l = [] then "-" else String.concat "," (List.map mv_str l)

let parse_move (wtm : bool) (s : string) : move =
  let sq i = n_of_int ((Char.code s.[i] - 97) + 8 * (Char.code s.[i + 1] - 49)) in
  let promo =
    if String.length s < 5 then 0
    else (match s.[4] with 'q' -> 2 | 'r' -> 3 | 'b' -> 4 | 'n' -> 5 | _ -> failwith "bad promotion") + (if wtm then 0 else 6) in
  { mfrom = sq 0; mto = sq 2; mpromote = n_of_int promo }

let split_ws s = List.filter (fun x -> x <> "") (String.split_on_char ' ' s)

let model_part (r : raw) : string * move list =
  let pos = positionOfBoard r.board r.wtm r.cm r.ep in
  let zk = zkDummy in
  let restored = ref true in
  (* pieceTypeBB[EMPTY] is history-dependent in the C++ too and never read: ignored *)
  let norm p = { p with pieceTypeBB = (match p.pieceTypeBB with _ :: t -> N0 :: t | [] -> []) } in
  let chk p' = if norm p' <> norm pos then restored := false in
  let pl = pseudoLegalMoves pos in
  let ev = checkEvasions pos in
  let cc = pseudoLegalCapturesAndChecks pos in
  let cap = pseudoLegalCaptures pos in
  let ck = inCheck pos in
  let vd = String.concat "" (List.map (fun m ->
             let (p', lg) = isLegal pos m ck in
             chk p';
             let gc = givesCheck pos m in
             string_of_int ((if lg then 1 else 0) + (if gc then 2 else 0))) pl) in
  let rm l = let (p', out) = removeIllegal zk pos l in chk p'; out in
  let lg = rm pl in
  let evl = rm ev in
  let ccl = rm cc in
  let capl = rm cap in
  let (p', ctk) = canTakeKing zk pos in
  chk p';
  (Printf.sprintf "pl=%s ev=%s cc=%s cap=%s ck=%d vd=%s lg=%s evl=%s ccl=%s capl=%s ctk=%d rest=%d"
     (list_str pl) (list_str ev) (list_str cc) (list_str cap) (if ck then 1 else 0)
     (if vd = "" then "-" else vd) (list_str lg) (list_str evl) (list_str ccl) (list_str capl)
     (if ctk then 1 else 0) (if !restored then 1 else 0), pl)

let spec_part (r : raw) (given : move list) : string =
  let sp = { sp_board = r.board; sp_white = r.wtm; sp_castle = r.cm; sp_ep = r.ep } in
  let lg = legal_moves_spec sp in
  let sorted = List.sort compare (List.map mv_str lg) in
  let sv = String.concat "" (List.map (fun m ->
             string_of_int ((if legal_specb sp m then 1 else 0) + (if gives_check_spec sp m then 2 else 0))) given) in
  (* verdict "gives check" for every legal move of the spec, in the sorted order *)
  let lgk = List.sort compare (List.map (fun m -> mv_str m ^ (if gives_check_spec sp m then "+" else "")) lg) in
  Printf.sprintf "slg=%s sv=%s sck=%d sacc=%d slgk=%s"
    (if sorted = [] then "-" else String.concat "," sorted)
    (if sv = "" then "-" else sv)
    (if in_checkb r.board r.wtm then 1 else 0)
    (if accepted sp then 1 else 0)
    (if lgk = [] then "-" else String.concat "," lgk)

let eval_main () =
  try
    while true do
      let line = input_line stdin in
      if line <> "" then begin
        let kind = line.[0] in
        let body = String.sub line 2 (String.length line - 2) in
        let (rawtxt, mvtxt) =
          match String.index_opt body '|' with
          | Some i -> (String.sub body 0 i, String.sub body (i + 1) (String.length body - i - 1))
          | None -> (body, "") in
        let r = parse_raw (split_ws rawtxt) in
        let given = List.map (parse_move r.wtm) (List.filter (fun s -> s <> "-") (split_ws mvtxt)) in
        if kind = 'P' then begin
          let (mp, pl) = model_part r in
          let given = if given = [] then pl else given in
          print_string mp; print_string " # "; print_endline (spec_part r given)
        end else
          print_endline (spec_part r given)
      end
    done
  with End_of_file -> ()

let perft_main () =
  try
    while true do
      let line = input_line stdin in
      if line <> "" then begin
        match split_ws line with
        | d :: rest ->
            let depth = int_of_string d in
            let r = parse_raw rest in
            let sp = { sp_board = r.board; sp_white = r.wtm; sp_castle = r.cm; sp_ep = r.ep } in
            let parts = List.map (fun m ->
                          let n = perft_spec (nat_of_int (depth - 1)) (make_spec sp m) in
                          (mv_str m, int_of_n n)) (legal_moves_spec sp) in
            let total = List.fold_left (fun a (_, n) -> a + n) 0 parts in
            let parts = List.sort compare (List.map (fun (m, n) -> m ^ ":" ^ string_of_int n) parts) in
            print_endline (String.concat " " (string_of_int total :: parts))
        | [] -> ()
      end
    done
  with End_of_file -> ()

let tables_main () =
  for sq = 0 to 63 do
    let s = n_of_int sq in
    Printf.printf "step %d %s %s %s %s %s %s\n" sq (string_of_n (kingAttacks s)) (string_of_n (knightAttacks s))
      (string_of_n (wPawnAttacks s)) (string_of_n (bPawnAttacks s)) (string_of_n (rMasks s)) (string_of_n (bMasks s))
  done;
  for f = 0 to 7 do
    Printf.printf "ep %d %s %s\n" f (string_of_n (epMaskWF (n_of_int f))) (string_of_n (epMaskBF (n_of_int f)))
  done;
  for a = 0 to 63 do
    Printf.printf "between %d" a;
    for b = 0 to 63 do Printf.printf " %s" (string_of_n (squaresBetween (n_of_int a) (n_of_int b))) done;
    print_newline ();
    Printf.printf "dir %d" a;
    for b = 0 to 63 do Printf.printf " %d" (int_of_z (getDirection (n_of_int a) (n_of_int b))) done;
    print_newline ()
  done

let rtab = Array.make 64 None
let btab = Array.make 64 None
let rtable sq = match rtab.(sq) with Some t -> t | None -> let t = rTableOf (n_of_int sq) in rtab.(sq) <- Some t; t
let btable sq = match btab.(sq) with Some t -> t | None -> let t = bTableOf (n_of_int sq) in btab.(sq) <- Some t; t

let words_main () =
  try
    while true do
      let line = input_line stdin in
      match split_ws line with
      | ["W"; w] ->
          let x = n_of_string w in
          if x = N0 then print_endline "- - 0"
          else Printf.printf "%d %d %d\n" (int_of_n (firstBitT x)) (int_of_n (lastBitT x)) (int_of_n (bitCountT x))
      | [k; sq; occ] when k = "R" || k = "B" ->
          let s = int_of_string sq in
          let o = n_of_string occ in
          let walk = if k = "R" then rookAttacks (n_of_int s) o else bishopAttacks (n_of_int s) o in
          let magic = if k = "R" then rookAttacksMagicWith (rtable s) (n_of_int s) o
                      else bishopAttacksMagicWith (btable s) (n_of_int s) o in
          (* one value when ray walk and magic lookup agree, both otherwise *)
          if walk = magic then print_endline (string_of_n walk)
          else Printf.printf "walk=%s magic=%s\n" (string_of_n walk) (string_of_n magic)
      | [k; sq] when k = "RALL" || k = "BALL" ->
          let s = int_of_string sq in
          let rook = (k = "RALL") in
          let mask = i64_of_n (if rook then rMasks (n_of_int s) else bMasks (n_of_int s)) in
          let n = 1 lsl (int_of_n (bitCountT (n_of_i64 mask))) in
          let buf = Buffer.create (n * 21) in
          Buffer.add_string buf (string_of_int n);
          let sub = ref 0L in
          let tbl_ok = (if rook then rtable s else btable s) <> None in
          for _ = 1 to n do
            let o = n_of_i64 !sub in
            let walk = if rook then rookAttacks (n_of_int s) o else bishopAttacks (n_of_int s) o in
            let magic = if rook then rookAttacksMagicWith (rtable s) (n_of_int s) o
                        else bishopAttacksMagicWith (btable s) (n_of_int s) o in
            Buffer.add_char buf ' ';
            if walk = magic && tbl_ok then Buffer.add_string buf (string_of_n walk)
            else Buffer.add_string buf (Printf.sprintf "walk=%s/magic=%s" (string_of_n walk) (string_of_n magic));
            sub := Int64.logand (Int64.sub !sub mask) mask
          done;
          print_endline (Buffer.contents buf)
      | [] -> ()
      | _ -> print_endline "BAD"
    done
  with End_of_file -> ()

let () =
  match (if Array.length Sys.argv > 1 then Sys.argv.(1) else "eval") with
  | "eval" -> eval_main ()
  | "perft" -> perft_main ()
  | "tables" -> tables_main ()
  | "words" -> words_main ()
  | _ -> prerr_endline "unknown mode"; exit 2
