(* OCaml driver for the extracted C05 trace-inclusion checker.
   One trace per input line, fields separated by the byte 0x1f:
     g0 | g1                 first field: model variant (ponderhit_guarded = false / true)
     >TEXT                   a command line written to the engine's stdin (raw text)
     $eof                    stdin closed
     <uciok <readyok <info <infostr <bestmove     canonical output lines
     <other                  an output line of no known form (no model event: rejected)
     !exit0  !crash          process ended with status 0 / by a signal
   Output per trace:  "ok KINDS"  or  "reject IDX KINDS"  (IDX = index of the first impossible
   event, counted over the fields after the first; KINDS = abstract command of every >TEXT).
   The line "#options" prints the model's declared option names. *)
open Ctl_model

let ascii_of_char c =
  let n = Char.code c in
  let b i = (n lsr i) land 1 = 1 in
  Ascii (b 0, b 1, b 2, b 3, b 4, b 5, b 6, b 7)

let coq_string s =
  let r = ref EmptyString in
  for i = String.length s - 1 downto 0 do r := String (ascii_of_char s.[i], !r) done;
  !r

let char_of_ascii (Ascii (b0, b1, b2, b3, b4, b5, b6, b7)) =
  let v b i = if b then 1 lsl i else 0 in
  Char.chr (v b0 0 + v b1 1 + v b2 2 + v b3 3 + v b4 4 + v b5 5 + v b6 6 + v b7 7)

let rec ocaml_string = function
  | EmptyString -> ""
  | String (c, r) -> String.make 1 (char_of_ascii c) ^ ocaml_string r

let mk_nat n = let rec go n acc = if n <= 0 then acc else go (n - 1) (S acc) in go n O
let rec int_of_nat = function O -> 0 | S n -> 1 + int_of_nat n

let lim_name = function LimNone -> "nolimit" | LimSome -> "limit" | LimUnknown -> "limit?"
let cmd_name = function
  | CEmpty -> "empty" | CUnknown -> "unknown" | CUci -> "uci" | CIsReady -> "isready"
  | CSetOptionBare -> "setoption-bare" | CSetOption true -> "setoption-known"
  | CSetOption false -> "setoption-unknown" | CNewGame -> "ucinewgame" | CPosition -> "position"
  | CGo (p, l) -> (if p then "go-ponder-" else "go-") ^ lim_name l
  | CStop -> "stop" | CPonderHit -> "ponderhit" | CQuit -> "quit" | CEof -> "eof"

let fuel = mk_nat 400000

let () =
  try
    while true do
      let line = input_line stdin in
      if line = "#options" then
        print_endline (String.concat "|" (List.map ocaml_string option_names))
      else begin
        let fields = String.split_on_char '\x1f' line in
        match fields with
        | [] -> print_endline "error empty"
        | gf :: rest ->
            let g = (gf = "g1") in
            let kinds = ref [] in
            let ev f =
              if f = "$eof" then EvSend CEof
              else if String.length f > 0 && f.[0] = '>' then begin
                let c = parse_line (coq_string (String.sub f 1 (String.length f - 1))) in
                kinds := cmd_name c :: !kinds; EvSend c end
              else match f with
                | "<uciok" -> EvOut OUciOk | "<readyok" -> EvOut OReadyOk
                | "<info" -> EvOut OInfo | "<infostr" -> EvOut OInfoStr | "<bestmove" -> EvOut OBestmove
                | "!exit0" -> EvExit0 | "!crash" -> EvCrash
                | _ -> raise Not_found in
            (* an unknown field makes the trace unexplainable at that index *)
            let rec conv i = function
              | [] -> ([], None)
              | f :: r -> (try let e = ev f in let (l, bad) = conv (i + 1) r in (e :: l, bad)
                           with Not_found -> ([], Some i)) in
            let (evs, bad) = conv 0 rest in
            let ks = String.concat "," (List.rev !kinds) in
            (match reject_at g fuel evs, bad with
             | Some i, _ -> Printf.printf "reject %d %s\n" (int_of_nat i) ks
             | None, Some i -> Printf.printf "reject %d %s\n" i ks
             | None, None -> Printf.printf "ok %s\n" ks)
      end
    done
  with End_of_file -> ()
