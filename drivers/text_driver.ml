(* OCaml driver for the extracted C17 model (TextIO/MoveText.v, MoveTextP.v, UciLine.v + Chess/Fen.v
   + the FIDE Spec for the legal move list).  Reads the operation lines of harness/text_harness.cpp
   (lower-case keyword first), echoes them and prints the observations recomputed by the model. *)
open Text_model

let rec pos_of_int n = if n = 1 then XH else if n land 1 = 0 then XO (pos_of_int (n lsr 1)) else XI (pos_of_int (n lsr 1))
let n_of_int k = if k = 0 then N0 else Npos (pos_of_int k)
let rec int_of_pos = function XH -> 1 | XO p -> 2 * int_of_pos p | XI p -> 2 * int_of_pos p + 1
let int_of_z = function Z0 -> 0 | Zpos p -> int_of_pos p | Zneg p -> - (int_of_pos p)
let int_of_n = function N0 -> 0 | Npos p -> int_of_pos p

let str_of_hex h = if h = "-" then [] else
  let l = ref [] in
  let n = String.length h / 2 in
  for i = n - 1 downto 0 do l := n_of_int (int_of_string ("0x" ^ String.sub h (2 * i) 2)) :: !l done; !l
let hex_of_str s = if s = [] then "-" else String.concat "" (List.map (fun c -> Printf.sprintf "%02x" (int_of_n c)) s)
let string_of_str s = String.concat "" (List.map (fun c -> String.make 1 (Char.chr ((int_of_n c) land 255))) s)

let zk = zk0

let err_code = function
  | ErrTooManyRows -> 0 | ErrInvalidPiece -> 1 | ErrTooManyColumns -> 2 | ErrPawnRank -> 3 | ErrInvalidSide -> 4
  | ErrInvalidCastle -> 5 | ErrInvalidEp -> 6 | ErrWhiteKing -> 7 | ErrBlackKing -> 8 | ErrKingCapture -> 9

let state p =
  let b = Buffer.create 100 in
  List.iter (fun pc -> Buffer.add_char b ".KQRBNPkqrbnp".[min 12 (int_of_n pc)]) p.squares;
  Buffer.add_string b (Printf.sprintf " %c %d %d %d %d" (if p.whiteMove then 'w' else 'b') (int_of_n p.castleMask)
                         (int_of_z p.epSquare) (int_of_z p.halfMoveClock) (int_of_z p.fullMoveCounter));
  Buffer.contents b

let mv_num m = Printf.sprintf "%d.%d.%d" (int_of_n m.mfrom) (int_of_n m.mto) (int_of_n m.mpromote)

let buf = Buffer.create 65536
let out s = Buffer.add_string buf s; Buffer.add_char buf '\n';
  if Buffer.length buf > 60000 then (print_string (Buffer.contents buf); Buffer.clear buf)

(* C17_fen_total evaluated: the index model of readFEN never leaves the string / the board and
   computes the same result as the structural model (model-only line, not compared with the C++) *)
let fen_ix s r =
  let want = (match r with FenOk p -> IxOk p | FenErr e -> IxErr e) in
  let got = readFENix zk s in
  out (match got with
       | IxOut site -> Printf.sprintf "I 0 out-of-range-site-%d" (int_of_n site)
       | IxFuel -> "I 0 fuel"
       | _ -> if got = want then "I 1" else "I 0 result-differs")

let do_pos fenhex =
  let s = str_of_hex fenhex in
  let r = readFEN zk s in
  fen_ix s r;
  match r with
  | FenErr e -> out (Printf.sprintf "E %d" (err_code e))
  | FenOk p ->
    out ("P " ^ state p);
    let f2 = toFEN p in
    let same = (match readFEN zk f2 with FenOk q -> state q = state p | FenErr _ -> false) in
    out (Printf.sprintf "R %d %s" (if same then 1 else 0) (hex_of_str f2));
    let legal = legalOf p in
    (* hypothesis of C17_short_roundtrip / C17_short_injective on this position (model-only line) *)
    out (Printf.sprintf "H %d %d" (if legalShapeb p legal then 1 else 0)
           (if accepted { sp_board = p.squares; sp_white = p.whiteMove; sp_castle = p.castleMask; sp_ep = p.epSquare } then 1 else 0));
    let items = List.map (fun m ->
        let uci = moveToUCIString m in
        let sh = moveToStringL p legal m false in
        let lo = moveToStringL p legal m true in
        let ps = stringToMove p legal sh in
        let pl = stringToMove p legal lo in
        let pu = uciStringToMove uci in
        let sp = { sp_board = p.squares; sp_white = p.whiteMove; sp_castle = p.castleMask; sp_ep = p.epSquare } in
        let ck = if gives_check_spec sp m then "c" ^ string_of_int (List.length (legal_moves_spec (make_spec sp m))) else "n" in
        String.concat ":" [string_of_str uci; string_of_str sh; string_of_str lo; mv_num ps; mv_num pl; mv_num pu; ck]) legal in
    let items = List.sort compare items in
    out (if items = [] then "M -" else "M " ^ String.concat " " items)

let () =
  (try
     while true do
       let line = input_line stdin in
       let t = List.filter (fun s -> s <> "") (String.split_on_char ' ' line) in
       match t with
       | [] -> ()
       | k :: args ->
         (match k with
          | "pos" -> out line; do_pos (List.hd args)
          | "fen" ->
            out line;
            let s = str_of_hex (List.hd args) in
            fen_ix s (readFEN zk s);
            (match readFEN zk s with
             | FenOk p -> out ("P " ^ state p)
             | FenErr e -> out (Printf.sprintf "E %d" (err_code e)))
          | "stm" ->
            out line;
            (match readFEN zk (str_of_hex (List.hd args)) with
             | FenErr e -> out (Printf.sprintf "E %d" (err_code e))
             | FenOk p ->
               let legal = legalOf p in
               out ("S" ^ String.concat "" (List.map (fun h -> " " ^ mv_num (stringToMove p legal (str_of_hex h))) (List.tl args))))
          | "scan" ->
            out line;
            let tk = function
              | TString s -> (0, s) | TInteger s -> (1, s) | TPeriod -> (2, []) | TAsterisk -> (3, [])
              | TLBracket -> (4, []) | TRBracket -> (5, []) | TLParen -> (6, []) | TRParen -> (7, [])
              | TNag s -> (8, s) | TSymbol s -> (9, s) | TComment s -> (10, s) in
            out ("K" ^ String.concat "" (List.map (fun t -> let (k, s) = tk t in Printf.sprintf " %d:%s" k (hex_of_str s))
                                           (scan (str_of_hex (List.hd args)))))
          | "cnt" ->
            (* number of pseudo-legal moves of the position by the FIDE Spec (the C++ MoveList holds 256) *)
            (match readFEN zk (str_of_hex (List.hd args)) with
             | FenErr _ -> out "C -1"
             | FenOk p -> out (Printf.sprintf "C %d" (List.length (pseudo_moves { sp_board = p.squares; sp_white = p.whiteMove; sp_castle = p.castleMask; sp_ep = p.epSquare }))))
          | "ucm" ->
            out line;
            out ("V" ^ String.concat "" (List.map (fun h -> " " ^ mv_num (uciStringToMove (str_of_hex h))) args))
          | "uci" ->
            out line;
            let cur = ref (match readFEN zk startPosFEN with FenOk p -> p | FenErr _ -> failwith "startpos") in
            let mvs = ref [] in
            List.iter (fun h ->
                (match uciLine zk (str_of_hex h) with
                 | Some (PosSet (p, ms)) -> cur := p; mvs := ms
                 | _ -> ());
                out ("U " ^ state !cur ^ " |" ^ String.concat "" (List.map (fun m -> " " ^ mv_num m) !mvs))) args
          | _ -> ())
     done
   with End_of_file -> ());
  print_string (Buffer.contents buf)
