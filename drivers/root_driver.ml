(* OCaml driver for the extracted C03 model (coq/Root/Root.v).  Commands on stdin, one result line each:
     S|legal|sm|infinite|ponder|minT|maxT|maxDepth|maxNodes|strength|rnd0|m:score,...
        -> moves=..|one=.|out=minT,maxT,maxDepth|root=..          (startMoves, startThreadLimits, getRootMoves)
     N|maxPV|mi|move,score,depth,alpha,beta,pv;...                (notifyPV)
        -> lines=info depth D score cp|mate V [upperbound|lowerbound] [multipv K] pv ... / ...
     P|first|rootlegal|zh,hh,legal,ttmove;...                     (extractPVMoves, getPonderMove over the chain world)
        -> pv=..|ponder=..
     T|...   replay of a recorded root trace (see cmd_t)
   Moves are UCI strings; the promotion letter is kept as a code (q=1 r=2 b=3 n=4). *)
open Root_model

let rec pos_of_int n = if n = 1 then XH else if n land 1 = 0 then XO (pos_of_int (n lsr 1)) else XI (pos_of_int (n lsr 1))
let z_of_int n = if n = 0 then Z0 else if n > 0 then Zpos (pos_of_int n) else Zneg (pos_of_int (-n))
let n_of_int n = if n = 0 then N0 else Npos (pos_of_int n)
let rec nat_of_int n = if n <= 0 then O else S (nat_of_int (n - 1))
let rec int_of_pos = function XH -> 1 | XO p -> 2 * int_of_pos p | XI p -> 2 * int_of_pos p + 1
let int_of_z = function Z0 -> 0 | Zpos p -> int_of_pos p | Zneg p -> - (int_of_pos p)
let int_of_n = function N0 -> 0 | Npos p -> int_of_pos p

(* unsigned 64-bit decimal -> N *)
let n_of_u64_string s =
  let v = Int64.of_string ("0u" ^ s) in
  let rec go (v : int64) : positive option =
    if Int64.equal v 0L then None
    else
      let bit = Int64.logand v 1L in
      let rest = go (Int64.shift_right_logical v 1) in
      match rest with
      | None -> Some XH        (* v = 1 (bit must be 1 here) *)
      | Some p -> Some (if Int64.equal bit 0L then XO p else XI p)
  in
  match go v with None -> N0 | Some p -> Npos p

let split c s = String.split_on_char c s
let words s = List.filter (fun x -> x <> "") (split ' ' s)

let promo_code = function 'q' -> 1 | 'r' -> 2 | 'b' -> 3 | 'n' -> 4 | _ -> 0
let promo_char = function 1 -> "q" | 2 -> "r" | 3 -> "b" | 4 -> "n" | _ -> ""

let move_of_string s : move =
  if s = "0000" then emptyMove
  else
    let sq i = (Char.code s.[i] - 97) + 8 * (Char.code s.[i + 1] - 49) in
    let pr = if String.length s > 4 then promo_code s.[4] else 0 in
    { mfrom = n_of_int (sq 0); mto = n_of_int (sq 2); mpromote = n_of_int pr }

let string_of_move (m : move) =
  let f = int_of_n m.mfrom and t = int_of_n m.mto and p = int_of_n m.mpromote in
  if f = 0 && t = 0 && p = 0 then "0000"
  else
    let sq x = String.make 1 (Char.chr (97 + (x land 7))) ^ String.make 1 (Char.chr (49 + (x lsr 3))) in
    sq f ^ sq t ^ promo_char p

let moves_of s = List.map move_of_string (words s)
let string_of_moves l = String.concat " " (List.map string_of_move l)
let bool_of s = s = "1"

let line_to_string (l : line) =
  let b = match l.l_bound with BUpper -> " upperbound" | BLower -> " lowerbound" | BNone -> "" in
  let mp = int_of_z l.l_multipv in
  "info depth " ^ string_of_int (int_of_z l.l_depth) ^ " score " ^ (if l.l_isMate then "mate " else "cp ")
  ^ string_of_int (int_of_z l.l_score) ^ b
  ^ (if mp >= 0 then " multipv " ^ string_of_int (mp + 1) else "")
  ^ " pv" ^ String.concat "" (List.map (fun m -> " " ^ string_of_move m) l.l_pv)

let report_to_string rep = String.concat " / " (List.map line_to_string rep)

(* ---- S: startThread + getRootMoves ---- *)
let cmd_s f =
  let legal = moves_of (List.nth f 1) and sm = moves_of (List.nth f 2) in
  let infinite = bool_of (List.nth f 3) and ponder = bool_of (List.nth f 4) in
  let i k = int_of_string (List.nth f k) in
  let minT = i 5 and maxT = i 6 and maxDepth = i 7 and maxNodes = i 8 and strength = i 9 in
  let rnd0 = n_of_u64_string (List.nth f 10) in
  let ords = List.map (fun p -> match split ':' p with [m; s] -> (move_of_string m, int_of_string s) | _ -> failwith "ord")
      (List.filter (fun x -> x <> "") (split ',' (List.nth f 11))) in
  let ord m = z_of_int (try List.assoc m ords with Not_found -> 0) in
  let moves = startMoves legal sm in
  let (one, ((minT', maxT'), maxDepth')) =
    startThreadLimits (nat_of_int (List.length moves)) infinite ponder (z_of_int minT) (z_of_int maxT) (z_of_int maxDepth) in
  let limited = int_of_z maxT' >= 0 || maxNodes >= 0 || int_of_z maxDepth' >= 0 in
  let root =
    if moves = [] then "-"
    else match getRootMoves moves legal limited false (fun _ -> false) (fun _ -> false) ord (z_of_int strength) rnd0 with
      | None -> "DIVZERO"
      | Some rm -> String.concat " " (List.map (fun x ->
          string_of_move x.mi_move ^ ":" ^ string_of_int (int_of_z x.mi_score)
          ^ (if int_of_z x.mi_depth <> 0 || int_of_z x.mi_nodes <> 0 || x.mi_knownLoss || x.mi_pv <> []
                || int_of_z x.mi_alpha <> 0 || int_of_z x.mi_beta <> 0 then "!notfresh" else "")) rm) in
  "moves=" ^ string_of_moves moves ^ "|one=" ^ (if one then "1" else "0")
  ^ "|out=" ^ string_of_int (int_of_z minT') ^ "," ^ string_of_int (int_of_z maxT') ^ "," ^ string_of_int (int_of_z maxDepth')
  ^ "|root=" ^ root

(* ---- N: notifyPV ---- *)
let entry_of s : moveInfo =
  match split ',' s with
  | [m; sc; d; a; b; pv] ->
    { mi_move = move_of_string m; mi_score = z_of_int (int_of_string sc); mi_nodes = Z0; mi_knownLoss = false;
      mi_depth = z_of_int (int_of_string d); mi_alpha = z_of_int (int_of_string a); mi_beta = z_of_int (int_of_string b);
      mi_pv = moves_of pv }
  | _ -> failwith "entry"

let cmd_n f =
  let maxPV = int_of_string (List.nth f 1) and mi = int_of_string (List.nth f 2) in
  let rm = List.map entry_of (split ';' (List.nth f 3)) in
  match notifyPV rm (nat_of_int mi) (nat_of_int maxPV) with
  | None -> "lines=FUEL"
  | Some rep -> "lines=" ^ report_to_string rep

(* ---- P: extractPVMoves / getPonderMove over the chain world ----
   positions: 0 = root, i >= 1 = chain node i-1, -1 = off the chain *)
type node = { zhv : n; hhv : n; legal : move list; ttm : move option }

let cmd_p f =
  let first = move_of_string (List.nth f 1) in
  let rootlegal = moves_of (List.nth f 2) in
  let nodes = Array.of_list (List.map (fun s ->
      match split ',' s with
      | [zh; hh; lg; tm] -> { zhv = n_of_u64_string zh; hhv = n_of_u64_string hh; legal = moves_of lg;
                              ttm = if tm = "-" then None else Some (move_of_string tm) }
      | _ -> failwith "node") (split ';' (List.nth f 3))) in
  let nn = Array.length nodes in
  let mk p m =
    if p = 0 then (if m = first then 1 else -1)
    else if p >= 1 && p <= nn then
      (match nodes.(p - 1).ttm with
       | Some t when t = m && List.mem m nodes.(p - 1).legal && p < nn -> p + 1
       | _ -> -1)
    else -1 in
  let legalAt p = if p = 0 then rootlegal else if p >= 1 && p <= nn then nodes.(p - 1).legal else [] in
  let zh p = if p >= 1 && p <= nn then nodes.(p - 1).zhv else N0 in
  let hh p = if p >= 1 && p <= nn then nodes.(p - 1).hhv else N0 in
  (* the table: probe by key among the chain's history hashes *)
  let probe () k =
    let r = ref None in
    Array.iter (fun nd -> if nd.hhv = k && !r = None then r := nd.ttm) nodes; !r in
  let pv = match extractPVMoves probe mk legalAt zh hh (nat_of_int 200) () 0 first [] with
    | None -> "FUEL" | Some l -> string_of_moves l in
  let pm = getPonderMove probe mk legalAt hh () 0 first in
  "pv=" ^ pv ^ "|ponder=" ^ string_of_move pm

(* ---- T: replay of a recorded root trace through iterativeDeepeningFrom ----
   T|maxPV|maxDepth|noTime|onlyExact|m:score ...|quiet moves|events        events separated by ';':
       R,score,nodes,tMove,tIter,pv moves   (one per returned negaScoutRoot call)   |   X  (StopSearch)
   World: a position is the list of moves played from the root; hashes are injective; the table content after
   a search is represented by the PV the engine stored for it: probing the position reached by a prefix of
   that PV answers its next move (which the engine found legal), anything else is a miss.  The replay checks
   in passing that the move the model searches with an event is the move the engine searched. *)
let cmd_t f =
  let maxPV = int_of_string (List.nth f 1) and maxDepth = int_of_string (List.nth f 2) in
  let noTime = bool_of (List.nth f 3) and onlyExact = bool_of (List.nth f 4) in
  let roots = List.map (fun p -> match split ':' p with [m; s] -> (move_of_string m, z_of_int (int_of_string s)) | _ -> failwith "root")
      (words (List.nth f 5)) in
  let quiet = moves_of (List.nth f 6) in
  let events = List.map (fun s ->
      match split ',' s with
      | ["X"] -> EvStop
      | [ "R"; sc; nd; tm; ti; pv ] ->
        EvRet (z_of_int (int_of_string sc), z_of_int (int_of_string nd), moves_of pv, bool_of tm, bool_of ti)
      | _ -> failwith "event") (List.filter (fun x -> x <> "") (split ';' (List.nth f 7))) in
  (* positions = reversed move lists, interned to give injective hashes *)
  let ids : (move list, int) Hashtbl.t = Hashtbl.create 256 in
  let back : (int, move list) Hashtbl.t = Hashtbl.create 256 in
  let id_of p = match Hashtbl.find_opt ids p with
    | Some i -> i
    | None -> let i = Hashtbl.length ids + 1 in Hashtbl.replace ids p i; Hashtbl.replace back i p; i in
  let zh p = n_of_int (id_of p) in
  let mk p m = m :: p in
  let rec next_of pv played = match pv, played with
    | x :: _, [] -> Some x
    | x :: t, y :: u -> if x = y then next_of t u else None
    | [], _ -> None in
  let last_answer = ref None in
  let mismatch = ref "" in
  let probe (tab : move list) k =
    let p = try Hashtbl.find back (int_of_n k) with Not_found -> [] in
    let played = List.rev p in
    (match played, tab with
     | [m], t0 :: _ when m <> t0 && !mismatch = "" ->
       mismatch := "model searches " ^ string_of_move m ^ " where the engine searched " ^ string_of_move t0
     | _ -> ());
    let r = next_of tab played in
    last_answer := r; r in
  let rootlegal = List.map fst roots in
  let legalAt p = if p = [] then rootlegal else (match !last_answer with Some m -> [m] | None -> []) in
  let cfg = { c_maxPV = nat_of_int maxPV; c_maxDepth = z_of_int maxDepth; c_onlyExact = onlyExact; c_noTimeLimit = noTime;
              c_quiet = (fun m -> List.mem m quiet); c_fuelPV = nat_of_int 400; c_fuelTB = nat_of_int 1 } in
  let rm = List.map newMI roots in
  match iterativeDeepeningFrom probe mk legalAt zh zh (fun _ _ -> None) (fun _ -> Z0) (fun _ -> true) [] cfg rm events with
  | Answer (b, reps) ->
    "best=" ^ string_of_move b ^ "|mismatch=" ^ !mismatch ^ "|lines=" ^ String.concat " / " (List.map report_to_string (List.filter (fun r -> r <> []) reps))
  | OutOfFuel -> "FUEL"

let () =
  try
    while true do
      let line = input_line stdin in
      if line <> "" then begin
        let f = split '|' line in
        let res =
          try
            (match List.hd f with
             | "S" -> cmd_s f
             | "N" -> cmd_n f
             | "P" -> cmd_p f
             | "T" -> cmd_t f
             | _ -> "ERR bad command")
          with e -> "ERR " ^ Printexc.to_string e in
        print_endline res
      end
    done
  with End_of_file -> ()
