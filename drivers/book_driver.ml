(* OCaml driver for the extracted C18 book model (coq/Book/Polyglot.v, BuiltIn.v).
   stdin commands:
     FILE <path> | NOFILE        the book file (read here, byte by byte, into the model's list)
     POS <64 piece codes> <wtm> <castle> <ep>
     LEGAL <from.to.prom> ...
     PROBE <rnd> ...             polyglot probe with the model's own hash key
     ENTS <from.to.prom:w> ...   explicit entry list (built-in book; weights already transformed)
     PROBEB <rnd> ...            Book::getBookMove on the explicit entries
     GM <wtm> <e1> <e8>          getMove for all 65536 move codes
     CODEC <hash> <move> <weight>
     PGBACK <pgmove> ...         getMove on the current position for each code
     PGENC <from.to.prom> ...    getPGMove on the current position for each move *)
open Book_model

let rec pos_of_int n = if n = 1 then XH else if n land 1 = 0 then XO (pos_of_int (n lsr 1)) else XI (pos_of_int (n lsr 1))
let z_of_int n = if n = 0 then Z0 else if n > 0 then Zpos (pos_of_int n) else Zneg (pos_of_int (-n))
let n_of_int n = if n = 0 then N0 else Npos (pos_of_int n)
let rec int_of_pos = function XH -> 1 | XO p -> 2 * int_of_pos p | XI p -> 2 * int_of_pos p + 1
let int_of_z = function Z0 -> 0 | Zpos p -> int_of_pos p | Zneg p -> - (int_of_pos p)
let int_of_n = function N0 -> 0 | Npos p -> int_of_pos p
let rec nat_to_int = function O -> 0 | S n -> 1 + nat_to_int n

(* unsigned 64-bit <-> N *)
let rec pos_of_u64 (n : int64) =
  if n = 1L then XH
  else if Int64.logand n 1L = 0L then XO (pos_of_u64 (Int64.shift_right_logical n 1))
  else XI (pos_of_u64 (Int64.shift_right_logical n 1))
let n_of_u64 n = if n = 0L then N0 else Npos (pos_of_u64 n)
let rec u64_of_pos = function
  | XH -> 1L
  | XO p -> Int64.shift_left (u64_of_pos p) 1
  | XI p -> Int64.logor (Int64.shift_left (u64_of_pos p) 1) 1L
let u64_of_n = function N0 -> 0L | Npos p -> u64_of_pos p
let hex_of_n n = Printf.sprintf "%016Lx" (u64_of_n n)
let dec_of_n n = Printf.sprintf "%Lu" (u64_of_n n)

let split c s = List.filter (fun x -> x <> "") (String.split_on_char c s)

let move_of_string s =
  match String.split_on_char '.' s with
  | [a; b; c] -> { mfrom = n_of_int (int_of_string a); mto = n_of_int (int_of_string b); mpromote = n_of_int (int_of_string c) }
  | _ -> failwith ("bad move " ^ s)
let string_of_move m = Printf.sprintf "%d.%d.%d" (int_of_n m.mfrom) (int_of_n m.mto) (int_of_n m.mpromote)

let read_file path =
  try
    let ic = open_in_bin path in
    let len = in_channel_length ic in
    let s = really_input_string ic len in
    close_in ic;
    let l = ref [] in
    for i = len - 1 downto 0 do l := n_of_int (Char.code s.[i]) :: !l done;
    Some !l
  with _ -> None

let outcome_str = function OutMove m -> string_of_move m | OutAssert -> "ASSERT"

let () =
  let file = ref None in
  let pos = ref None in
  let legal = ref [] in
  let ents = ref [] in
  (try
     while true do
       let line = input_line stdin in
       match split ' ' line with
       | "FILE" :: p :: _ -> file := read_file p
       | "NOFILE" :: _ -> file := None
       | "POS" :: rest ->
           let a = Array.of_list (List.map int_of_string rest) in
           let sq = List.init 64 (fun i -> n_of_int a.(i)) in
           pos := Some { squares = sq; pieceTypeBB = []; whiteBB = N0; blackBB = N0;
                         whiteMove = (a.(64) <> 0); halfMoveClock = Z0; fullMoveCounter = Z0;
                         castleMask = n_of_int a.(65); epSquare = z_of_int a.(66);
                         hashKey = N0; pHashKey = N0; matId = Z0; wMtrl = Z0; bMtrl = Z0;
                         wMtrlPawns = Z0; bMtrlPawns = Z0 }
       | "LEGAL" :: rest -> legal := List.map move_of_string rest
       | "PROBE" :: rnds ->
           let p = (match !pos with Some p -> p | None -> failwith "no position") in
           let key = getHashKey p in
           (match getBookEntriesPG !file key p with
            | None -> print_endline ("key=" ^ hex_of_n key ^ ";FUEL")
            | Some pr ->
                let cands = pr.pr_cands in
                let cs = String.concat "," (List.map (fun (m, w) -> string_of_move m ^ ":" ^ string_of_int (int_of_z w)) cands) in
                let calls = String.concat "," (List.map (fun r ->
                    r ^ ":" ^ outcome_str (getBookMove pgWeight !legal cands (z_of_int (int_of_string r)))) rnds) in
                let reach = String.concat "," (List.map string_of_move (reachable pgWeight !legal cands)) in
                let sum = (match sumLegal pgWeight !legal cands Z0 with None -> "illegal" | Some s -> string_of_int (int_of_z s)) in
                Printf.printf "key=%s;cands=%s;calls=%s;reach=%s;sum=%s;hi=%d;reads=%d;inint=%d\n"
                  (hex_of_n key) cs calls reach sum (int_of_z pr.pr_hi) (List.length pr.pr_reads)
                  (if sumsInInt pgWeight cands Z0 then 1 else 0))
       | "ENTS" :: rest ->
           ents := List.map (fun s ->
               match String.split_on_char ':' s with
               | [m; w] -> (move_of_string m, z_of_int (int_of_string w))
               | _ -> failwith "bad entry") rest
       | "PROBEB" :: rnds ->
           let cands = !ents in
           let cs = String.concat "," (List.map (fun (m, w) -> string_of_move m ^ ":" ^ string_of_int (int_of_z w)) cands) in
           let calls = String.concat "," (List.map (fun r ->
               r ^ ":" ^ outcome_str (getBookMove pgWeight !legal cands (z_of_int (int_of_string r)))) rnds) in
           let reach = String.concat "," (List.map string_of_move (reachable pgWeight !legal cands)) in
           Printf.printf "cands=%s;calls=%s;reach=%s\n" cs calls reach
       | "GM" :: w :: e1 :: e8 :: _ ->
           let sq = List.init 64 (fun i -> if i = 4 then n_of_int (int_of_string e1)
                                   else if i = 60 then n_of_int (int_of_string e8) else N0) in
           let p = { squares = sq; pieceTypeBB = []; whiteBB = N0; blackBB = N0;
                     whiteMove = (int_of_string w <> 0); halfMoveClock = Z0; fullMoveCounter = Z0;
                     castleMask = N0; epSquare = Zneg XH; hashKey = N0; pHashKey = N0; matId = Z0;
                     wMtrl = Z0; bMtrl = Z0; wMtrlPawns = Z0; bMtrlPawns = Z0 } in
           let b = Buffer.create 600000 in
           Buffer.add_string b "G";
           for mv = 0 to 65535 do
             let m = getMove p (n_of_int mv) in
             Buffer.add_char b ' ';
             Buffer.add_string b (string_of_int ((int_of_n m.mfrom * 64 + int_of_n m.mto) * 16 + int_of_n m.mpromote))
           done;
           print_endline (Buffer.contents b)
       | "CODEC" :: h :: m :: w :: _ ->
           let e = serialize (n_of_u64 (Int64.of_string ("0u" ^ h))) (n_of_int (int_of_string m)) (n_of_int (int_of_string w)) in
           let d = deSerialize e in
           print_string "C";
           List.iter (fun b -> print_string (" " ^ string_of_int (int_of_n b))) e;
           Printf.printf " ; %s %d %d\n" (dec_of_n d.entHash) (int_of_n d.entMove) (int_of_n d.entWeight)
       | "PGBACK" :: rest ->
           let p = (match !pos with Some p -> p | None -> failwith "no position") in
           print_endline ("M " ^ String.concat "," (List.map (fun s -> string_of_move (getMove p (n_of_int (int_of_string s)))) rest))
       | "PGENC" :: rest ->
           let p = (match !pos with Some p -> p | None -> failwith "no position") in
           print_endline ("E " ^ String.concat "," (List.map (fun s -> string_of_int (int_of_n (getPGMove p (move_of_string s)))) rest))
       | _ -> ()
     done
   with End_of_file -> ())
