(* OCaml driver for the extracted position model (C02): reads the operation lines of a trace
   produced by harness/pos_harness.cpp and prints the same trace (operation lines echoed,
   observation lines recomputed by the model).  See the harness for the line formats. *)
open Pos_model

let rec pos_of_int n = if n = 1 then XH else if n land 1 = 0 then XO (pos_of_int (n lsr 1)) else XI (pos_of_int (n lsr 1))
let n_of_int k = if k = 0 then N0 else Npos (pos_of_int k)
let z_of_int k = if k = 0 then Z0 else if k > 0 then Zpos (pos_of_int k) else Zneg (pos_of_int (-k))
let rec int_of_pos = function XH -> 1 | XO p -> 2 * int_of_pos p | XI p -> 2 * int_of_pos p + 1
let int_of_z = function Z0 -> 0 | Zpos p -> int_of_pos p | Zneg p -> - (int_of_pos p)
let int_of_n = function N0 -> 0 | Npos p -> int_of_pos p

(* 64-bit words: hex <-> N through bit lists (OCaml ints are 63 bits) *)
let rec bits_of_pos = function XH -> [1] | XO p -> 0 :: bits_of_pos p | XI p -> 1 :: bits_of_pos p
let hex_of_n = function
  | N0 -> "0"
  | Npos p ->
    let rec go bits acc = match bits with
      | [] -> acc
      | _ ->
        let rec take k l v w = if k = 0 then (v, l) else match l with
          | [] -> (v, []) | b :: t -> take (k - 1) t (v + b * w) (w * 2) in
        let (d, rest) = take 4 bits 0 1 in
        go rest (String.make 1 "0123456789abcdef".[d] ^ acc) in
    go (bits_of_pos p) ""
let n_of_hex s =
  (* most significant digit first *)
  let bits = ref [] in   (* MSB first *)
  String.iter (fun c ->
    let d = if c >= '0' && c <= '9' then Char.code c - 48 else if c >= 'a' && c <= 'f' then Char.code c - 87
            else if c >= 'A' && c <= 'F' then Char.code c - 55 else failwith "hex" in
    bits := !bits @ [ (d lsr 3) land 1; (d lsr 2) land 1; (d lsr 1) land 1; d land 1 ]) s;
  let rec strip = function 0 :: t -> strip t | l -> l in
  match strip !bits with
  | [] -> N0
  | _ :: t -> Npos (List.fold_left (fun p b -> if b = 1 then XI p else XO p) XH t)

let str_of_hex h = if h = "-" then [] else
  let l = ref [] in
  let n = String.length h / 2 in
  for i = n - 1 downto 0 do l := n_of_int (int_of_string ("0x" ^ String.sub h (2 * i) 2)) :: !l done; !l
let hex_of_str s = if s = [] then "-" else String.concat "" (List.map (fun c -> Printf.sprintf "%02x" (int_of_n c)) s)

let zk = zk0
let buf = Buffer.create 65536
let out s = Buffer.add_string buf s; Buffer.add_char buf '\n';
  if Buffer.length buf > 60000 then (print_string (Buffer.contents buf); Buffer.clear buf)

let partial p =
  let b = Buffer.create 600 in
  List.iter (fun pc -> Buffer.add_char b "0123456789abcdef".[(int_of_n pc) land 15]) p.squares;
  List.iter (fun x -> Buffer.add_char b ' '; Buffer.add_string b (hex_of_n x)) p.pieceTypeBB;
  Buffer.add_char b ' '; Buffer.add_string b (hex_of_n p.whiteBB);
  Buffer.add_char b ' '; Buffer.add_string b (hex_of_n p.blackBB);
  Buffer.add_string b (if p.whiteMove then " 1" else " 0");
  Buffer.contents b

let state p =
  let b = Buffer.create 900 in
  Buffer.add_string b (partial p);
  Buffer.add_string b (Printf.sprintf " %d %d %d %d" (int_of_z p.halfMoveClock) (int_of_z p.fullMoveCounter)
                         (int_of_n p.castleMask) (int_of_z p.epSquare));
  Buffer.add_string b (Printf.sprintf " %s %s %d" (hex_of_n p.hashKey) (hex_of_n p.pHashKey) (int_of_z (wrapInt p.matId)));
  Buffer.add_string b (Printf.sprintf " %d %d %d %d" (int_of_z p.wMtrl) (int_of_z p.bMtrl) (int_of_z p.wMtrlPawns) (int_of_z p.bMtrlPawns));
  Buffer.add_string b " |";
  let wkbb = List.nth p.pieceTypeBB 1 and bkbb = List.nth p.pieceTypeBB 7 in
  if wkbb <> N0 && bkbb <> N0 then
    Buffer.add_string b (Printf.sprintf " %d %d %s" (int_of_n (wKingSq p)) (int_of_n (bKingSq p)) (hex_of_n (kingZobristHash zk p)))
  else Buffer.add_string b " - - -";
  Buffer.add_string b (Printf.sprintf " %d" (int_of_n (nPieces p)));
  if int_of_z p.halfMoveClock >= 0 then
    Buffer.add_string b (Printf.sprintf " %s %s" (hex_of_n (historyHash zk maxPieces0 p)) (hex_of_n (bookHash zk p)))
  else Buffer.add_string b " - -";
  Buffer.add_string b " | ";
  List.iter (fun x -> Buffer.add_char b (if x then '1' else '0')) (consistencyBits zk p);
  Buffer.contents b

let err_code = function
  | ErrTooManyRows -> 0 | ErrInvalidPiece -> 1 | ErrTooManyColumns -> 2 | ErrPawnRank -> 3 | ErrInvalidSide -> 4
  | ErrInvalidCastle -> 5 | ErrInvalidEp -> 6 | ErrWhiteKing -> 7 | ErrBlackKing -> 8 | ErrKingCapture -> 9

let b2i b = if b then 1 else 0

let () =
  let pos = ref (emptyPosition zk) in
  let snaps = ref [] and moves = ref [] and undos = ref [] in
  let reset () = snaps := []; moves := []; undos := [] in
  (try
     while true do
       let line = input_line stdin in
       let t = List.filter (fun s -> s <> "") (String.split_on_char ' ' line) in
       match t with
       | [] -> ()
       | k :: args ->
         let ai i = int_of_string (List.nth args i) in
         (match k with
          | "fen" ->
            out line; reset ();
            (match readFEN zk (str_of_hex (List.nth args 0)) with
             | FenOk p -> pos := p; out ("= " ^ state p)
             | FenErr e -> out (Printf.sprintf "E %d" (err_code e)))
          | "mk" ->
            out line;
            let m = { mfrom = n_of_int (ai 0); mto = n_of_int (ai 1); mpromote = n_of_int (ai 2) } in
            out (Printf.sprintf "M %d" (b2i (moveOk !pos m)));
            snaps := !pos :: !snaps;
            let (p, ui) = makeMove zk !pos m in
            pos := p; moves := m :: !moves; undos := ui :: !undos;
            out ("= " ^ state p);
            out (Printf.sprintf "U %d %d %d %d" (int_of_n ui.u_captured) (int_of_n ui.u_castleMask)
                   (int_of_z ui.u_epSquare) (int_of_z ui.u_halfMoveClock))
          | "un" ->
            (match !moves, !undos, !snaps with
             | m :: mt, ui :: ut, before :: st ->
               out line;
               let p = unMakeMove zk !pos m ui in
               pos := p; moves := mt; undos := ut; snaps := st;
               out ("= " ^ state p);
               out (Printf.sprintf "R %d %d" (b2i (normEmpty p = normEmpty before))
                      (b2i (List.hd p.pieceTypeBB = List.hd before.pieceTypeBB)))
             | _ -> ())
          | "mkb" ->
            out line;
            let m = { mfrom = n_of_int (ai 0); mto = n_of_int (ai 1); mpromote = n_of_int (ai 2) } in
            let (p, ui) = makeMoveB !pos m in
            out ("B " ^ partial p);
            let p = unMakeMoveB p m ui in
            pos := p;
            out ("B " ^ partial p)
          | "see" ->
            out line;
            let m = { mfrom = n_of_int (ai 0); mto = n_of_int (ai 1); mpromote = N0 } in
            let (p, ui) = makeSEEMove !pos m in
            out ("B " ^ partial p);
            let p = unMakeSEEMove p m ui in
            pos := p;
            out ("B " ^ partial p)
          | "swm" -> out line; pos := setWhiteMove zk !pos (ai 0 <> 0); out ("= " ^ state !pos)
          | "sep" -> out line; pos := setEpSquare zk !pos (z_of_int (ai 0)); out ("= " ^ state !pos)
          | "scm" -> out line; pos := setCastleMask zk !pos (n_of_int (ai 0)); out ("= " ^ state !pos)
          | "shm" -> out line; pos := setHalfMoveClock !pos (z_of_int (ai 0)); out ("= " ^ state !pos)
          | "sfm" -> out line; pos := setFullMoveCounter !pos (z_of_int (ai 0)); out ("= " ^ state !pos)
          | "ser" ->
            out line;
            let d = serialize !pos in
            out ("S" ^ String.concat "" (List.map (fun w -> " " ^ hex_of_n w) d));
            let q = deSerialize zk d in
            out ("= " ^ state q);
            out (Printf.sprintf "D %d" (b2i (normEmpty q = normEmpty !pos)))
          | "deser" ->
            out line; reset ();
            pos := deSerialize zk (List.map n_of_hex args);
            out ("= " ^ state !pos)
          | "tofen" ->
            out line;
            let f = toFEN !pos in
            out ("F " ^ hex_of_str f);
            (match readFEN zk f with
             | FenOk q -> out ("= " ^ state q)
             | FenErr e -> out (Printf.sprintf "E %d" (err_code e)))
          | "cmp" ->
            let k = ai 0 in
            let l = List.rev !snaps in
            if k >= 0 && k < List.length l then begin
              out line;
              let o = List.nth l k in
              out (Printf.sprintf "Q %d %d %d" (b2i (drawRuleEquals !pos o)) (b2i (positionEquals !pos o)) (b2i (!pos.hashKey = o.hashKey)))
            end
          | "consts" ->
            out ("pieceValue" ^ String.concat "" (List.map (fun v -> " " ^ string_of_int (int_of_z v)) pieceValueTbl));
            out ("materialId" ^ String.concat "" (List.map (fun v -> " " ^ string_of_int (int_of_z v)) materialIdTbl))
          | _ -> ())
     done
   with End_of_file -> ());
  print_string (Buffer.contents buf)
