(* OCaml driver for the extracted C16 models.  stdin, one command per line:
     C <fen> | e2e4 e7e8q ...     certified proof-game checker  -> "1" | "0 illegal <idx>" | "0 end" | "E badfen"
     V <64 hex piece codes>       piece-count rules             -> "V <validatePieceCounts code> <pieceCountsValid>"
     N <64 hex> <64 hex>          enoughRemainingPieces         -> "N <0|1>"  *)
open Pg_model

let rec pos_of_int n = if n = 1 then XH else if n land 1 = 0 then XO (pos_of_int (n lsr 1)) else XI (pos_of_int (n lsr 1))
let n_of_int n = if n = 0 then N0 else Npos (pos_of_int n)
let rec int_of_pos = function XH -> 1 | XO p -> 2 * int_of_pos p | XI p -> 2 * int_of_pos p + 1
let int_of_n = function N0 -> 0 | Npos p -> int_of_pos p

let chars_of_string s = List.init (String.length s) (fun i -> n_of_int (Char.code s.[i]))

let split_ws s = List.filter (fun t -> t <> "") (String.split_on_char ' ' s)

exception Bad of string

let sq_of_str s i =
  let f = Char.code s.[i] - Char.code 'a' and r = Char.code s.[i + 1] - Char.code '1' in
  if f < 0 || f > 7 || r < 0 || r > 7 then raise (Bad s);
  r * 8 + f

(* promotion piece code: colour from the destination rank (rank 8 = white) *)
let parse_move s =
  let l = String.length s in
  if l < 4 || l > 5 then raise (Bad s);
  let fr = sq_of_str s 0 and tt = sq_of_str s 2 in
  let white = tt / 8 = 7 in
  let promo =
    if l = 4 then 0
    else match s.[4] with
      | 'q' -> if white then 2 else 8
      | 'r' -> if white then 3 else 9
      | 'b' -> if white then 4 else 10
      | 'n' -> if white then 5 else 11
      | _ -> raise (Bad s) in
  { mfrom = n_of_int fr; mto = n_of_int tt; mpromote = n_of_int promo }

let hexv c = if c <= '9' then Char.code c - 48 else Char.code c - 87

let board_of_hex h =
  if String.length h <> 64 then raise (Bad h);
  List.init 64 (fun i -> n_of_int (hexv h.[i]))

let () =
  try
    while true do
      let line = input_line stdin in
      if line <> "" then begin
        try
          match line.[0] with
          | 'C' ->
              let k = String.index line '|' in
              let fen = String.trim (String.sub line 1 (k - 1)) in
              let moves = List.map parse_move (split_ws (String.sub line (k + 1) (String.length line - k - 1))) in
              (match check_fen moves (chars_of_string fen) with
               | (N0, _) -> print_endline "1"
               | (Npos XH, i) -> print_endline ("0 illegal " ^ string_of_int (int_of_n i))
               | (Npos (XO XH), _) -> print_endline "0 end"
               | _ -> print_endline "E badfen")
          | 'V' ->
              let t = split_ws line in
              let b = board_of_hex (List.nth t 1) in
              print_endline ("V " ^ string_of_int (int_of_n (validatePieceCounts b)) ^ " " ^ (if pieceCountsValid b then "1" else "0"))
          | 'N' ->
              let t = split_ws line in
              let b = board_of_hex (List.nth t 1) and g = board_of_hex (List.nth t 2) in
              print_endline ("N " ^ (if enoughRemainingPieces b g then "1" else "0"))
          | _ -> print_endline "E unknown"
        with Bad s -> print_endline ("E bad " ^ s)
           | Not_found -> print_endline "E syntax"
      end
    done
  with End_of_file -> ()
