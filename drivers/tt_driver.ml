(* OCaml driver for the extracted transposition-table model: same stdin protocol as
   harness/tt_harness.cpp (session mode), plus the trace validator for multi-threaded runs:
     ATOM g fuel / K key / S key data / P key rdata ... / END   ->  one OK|BAD line per P,
     then "C <fixpoint reached 1|0> <refresh stores added>"                                  *)
open Tt_model

(* ---- signed hexadecimal <-> Coq Z ---- *)
let hexval c = match c with
  | '0'..'9' -> Char.code c - 48 | 'a'..'f' -> Char.code c - 87 | 'A'..'F' -> Char.code c - 55
  | _ -> failwith "bad hex digit"

(* positive from a list of bits, most significant first (leading 1 present) *)
let pos_of_bits_msb bits =
  match bits with
  | [] -> failwith "empty"
  | _ :: rest -> List.fold_left (fun acc b -> if b then XI acc else XO acc) XH rest

let z_of_hex s =
  let neg = String.length s > 0 && s.[0] = '-' in
  let s = if neg then String.sub s 1 (String.length s - 1) else s in
  let bits = ref [] in
  String.iter (fun c -> let v = hexval c in
    bits := (v land 1 <> 0) :: (v land 2 <> 0) :: (v land 4 <> 0) :: (v land 8 <> 0) :: !bits) s;
  (* !bits is LSB-first reversed: currently most recent nibble first, within nibble bit0 first *)
  let msb_first = List.rev !bits in       (* now: first nibble bit3..bit0? fix below *)
  ignore msb_first;
  (* rebuild carefully: collect bits MSB first *)
  let l = ref [] in
  String.iter (fun c -> let v = hexval c in
    l := !l @ [v land 8 <> 0; v land 4 <> 0; v land 2 <> 0; v land 1 <> 0]) s;
  let rec strip = function false :: r -> strip r | x -> x in
  match strip !l with
  | [] -> Z0
  | bs -> let p = pos_of_bits_msb bs in if neg then Zneg p else Zpos p

let rec bits_lsb = function XH -> [true] | XO p -> false :: bits_lsb p | XI p -> true :: bits_lsb p

let hex_of_pos p =
  let bits = bits_lsb p in
  let rec nibbles = function
    | [] -> []
    | b0 :: r ->
      let b1, r = (match r with [] -> false, [] | x :: r -> x, r) in
      let b2, r = (match r with [] -> false, [] | x :: r -> x, r) in
      let b3, r = (match r with [] -> false, [] | x :: r -> x, r) in
      ((if b0 then 1 else 0) + (if b1 then 2 else 0) + (if b2 then 4 else 0) + (if b3 then 8 else 0)) :: nibbles r in
  let ns = List.rev (nibbles bits) in
  let rec strip = function 0 :: (_ :: _ as r) -> strip r | x -> x in
  String.concat "" (List.map (fun n -> String.make 1 "0123456789abcdef".[n]) (strip ns))

let hex_of_z = function Z0 -> "0" | Zpos p -> hex_of_pos p | Zneg p -> "-" ^ hex_of_pos p
let b01 b = if b then "1" else "0"

let cur_valid = ref true
let state_line t =
  Printf.sprintf "S %s %s %s %s %s %s %s %s %s" (hex_of_z t.tableSize) (hex_of_z t.usedSize) (hex_of_z t.topBits)
    (hex_of_z t.usedShift) (hex_of_z t.usedMask) (hex_of_z t.generation) (hex_of_z t.contemptHash) (b01 t.tbResident)
    (b01 !cur_valid)

let z1 = Zpos XH
let zadd = Z.add
let rec mget m i = match m with
  | [] -> (Z0, Z0)
  | (j, v) :: r -> if Z.eqb i j then v else mget r i

let z_of_int n = z_of_hex (if n < 0 then Printf.sprintf "-%x" (-n) else Printf.sprintf "%x" n)

let bucket_line t key =
  let idx0 = getIndex t (Z.coq_lxor key t.contemptHash) in
  let b = Buffer.create 100 in
  Buffer.add_string b ("B " ^ hex_of_z idx0);
  List.iter (fun i -> let (k, d) = mget t.mem (zadd idx0 (z_of_int i)) in
    Buffer.add_string b (" " ^ hex_of_z k ^ " " ^ hex_of_z d)) [0; 1; 2; 3];
  Buffer.contents b

let overrun t key =
  let idx0 = getIndex t (Z.coq_lxor key t.contemptHash) in
  not (Z.ltb (zadd idx0 (z_of_int 3)) t.tableSize)

let words line = List.filter (fun s -> s <> "") (String.split_on_char ' ' line)

let leaf args =
  let a k = z_of_hex (List.nth args k) in
  let bo k = List.nth args k <> "0" in
  let h = hex_of_z in
  let q4 (((x, y), z), w) = Printf.sprintf " %s %s %s %s" (h x) (h y) (h z) (h w) in
  let p2 (x, y) = Printf.sprintf " %s %s" (h x) (h y) in
  match List.hd args with
  | "isWinScore" -> " " ^ b01 (searchConst_isWinScore (a 1))
  | "isLoseScore" -> " " ^ b01 (searchConst_isLoseScore (a 1))
  | "getCompressedMove" -> " " ^ h (move_getCompressedMove (a 1) (a 2) (a 3))
  | "setFromCompressed" -> q4 (move_setFromCompressed (a 1) (a 2))
  | "isEmpty" -> " " ^ b01 (move_isEmpty (a 1) (a 2))
  | "getBits" -> " " ^ h (tTEntry_getBits (a 2) (a 3) (a 4))
  | "setBits" -> " " ^ h (tTEntry_setBits (a 2) (a 3) (a 4) (a 5))
  | "getKey" -> " " ^ h (tTEntry_getKey (a 1))
  | "setKey" -> " " ^ h (tTEntry_setKey (a 3))
  | "getData" -> " " ^ h (tTEntry_getData (a 2))
  | "store" -> p2 (tTEntry_store (a 1) (a 2))
  | "load" -> p2 (tTEntry_load (a 1) (a 2))
  | "clear" -> p2 tTEntry_clear
  | "getMove" -> q4 (tTEntry_getMove (a 2) (a 3))
  | "setMove" -> " " ^ h (tTEntry_setMove (a 2) (a 3) (a 4) (a 5))
  | "getScore" -> " " ^ h (tTEntry_getScore (a 2) (a 3))
  | "setScore" -> " " ^ h (tTEntry_setScore (a 2) (a 3) (a 4))
  | "getDepth" -> " " ^ h (tTEntry_getDepth (a 2))
  | "setDepth" -> " " ^ h (tTEntry_setDepth (a 2) (a 3))
  | "getBusy" -> " " ^ b01 (tTEntry_getBusy (a 2))
  | "setBusy" -> " " ^ h (tTEntry_setBusy (a 2) (bo 3))
  | "getGeneration" -> " " ^ h (tTEntry_getGeneration (a 2))
  | "setGeneration" -> " " ^ h (tTEntry_setGeneration (a 2) (a 3))
  | "getType" -> " " ^ h (tTEntry_getType (a 2))
  | "setType" -> " " ^ h (tTEntry_setType (a 2) (a 3))
  | "getEvalScore" -> " " ^ h (tTEntry_getEvalScore (a 2))
  | "setEvalScore" -> " " ^ h (tTEntry_setEvalScore (a 2) (a 3))
  | "isCutOff" -> " " ^ b01 (tTEntry_isCutOff (a 2) (a 3) (a 4) (a 5) (a 6))
  | "betterThan" -> " " ^ b01 (tTEntry_betterThan (a 2) (a 4) (a 5))
  | "getIndex" -> " " ^ h (tT_getIndex (a 1) (a 2) (a 3) (a 4))
  | "nextGeneration" -> " " ^ h (tT_nextGeneration (a 1))
  | f -> " ?unknown " ^ f

let allocfail = ref Z0

let () =
  let tt = ref None in
  let set_state = function
    | Ok t -> tt := Some t; print_endline (state_line t)
    | OutOfRange j -> print_endline ("ERR out of range " ^ hex_of_z j)
    | OutOfFuel -> print_endline "ERR out of fuel" in
  (* trace validation state *)
  let atom_g = ref Z0 and atom_fuel = ref 3 and atom_keys = ref [] and atom_stores = ref [] and atom_probes = ref [] in
  (try
    while true do
      let line = input_line stdin in
      match words line with
      | [] -> ()
      | "L" :: args -> print_endline ("V" ^ leaf args)
      | ["ATOM"; g; fuel] -> atom_g := z_of_hex g; atom_fuel := int_of_string fuel; atom_keys := []; atom_stores := []; atom_probes := []
      | ["K"; k] -> atom_keys := z_of_hex k :: !atom_keys
      | ["S"; k; d] -> atom_stores := (z_of_hex k, z_of_hex d) :: !atom_stores
      | ["P"; k; d] -> atom_probes := (z_of_hex k, z_of_hex d) :: !atom_probes
      | ["END"] ->
          let rec nat_of_int n = if n <= 0 then O else S (nat_of_int (n - 1)) in
          let n0 = List.length !atom_stores in
          let (closed, fix) = close_log (nat_of_int !atom_fuel) !atom_g !atom_keys !atom_stores in
          let p = prep !atom_g closed in
          List.iter (fun (k, d) -> print_endline (if allowed_prep p k (k, d) then "OK" else "BAD")) (List.rev !atom_probes);
          Printf.printf "C %s %d\n" (b01 fix) (List.length closed - n0)
      | "NEW" :: n :: _ ->
          (match reSizeA fresh (z_of_hex n) true with
           | Returned o -> cur_valid := o.valid; set_state (Ok o.st)
           | _ -> print_endline "ERR new")
      | ["ALLOCFAIL"; thr] -> allocfail := z_of_hex thr; print_endline ("A " ^ hex_of_z !allocfail)
      | cmd :: args when (match !tt with Some _ -> (cmd = "RESIZE" || cmd = "SETUPTT") | None -> false) ->
          let t = (match !tt with Some t -> t | None -> assert false) in
          let n = z_of_hex (List.hd args) in
          let o = { valid = !cur_valid; st = t } in
          let grant sz = not (Z.gtb !allocfail Z0 && Z.geb (round_size sz) !allocfail) in
          let fin o' x = cur_valid := o'.valid; tt := Some o'.st; print_endline (state_line o'.st ^ " x=" ^ string_of_int x) in
          if cmd = "RESIZE" then
            (match reSizeA o n (grant n) with
             | Returned o' -> fin o' 0
             | Threw o' -> fin o' 1
             | RErr -> print_endline "ERR resize")
          else begin
            let rec sizes k sz = if k = 0 then [] else sz :: sizes (k - 1) (Z.div sz (z_of_int 2)) in
            let oracle = List.map grant (sizes 70 n) in
            let rec nat_to_int = function O -> 0 | S m -> 1 + nat_to_int m in
            let (o', k) = setupTT setupFuel o n oracle in
            fin o' (nat_to_int k)
          end
      | cmd :: args when (not !cur_valid) && List.mem cmd ["CLEAR"; "TBON"; "TBOFF"; "INS"; "PROBE"; "BUSY"; "PUTB"; "GETB"; "TBW"; "TBR"; "TBSUM"] ->
          (match !tt with
           | Some t -> print_endline ("NULL " ^ hex_of_z t.tableSize ^ " sig=?")
           | None -> print_endline "ERR no table")
      | cmd :: args ->
        (match !tt with
         | None -> print_endline "ERR no table"
         | Some t ->
           let a k = z_of_hex (List.nth args k) in
           (match cmd with
            | "RESIZE" -> set_state (reSize t (a 0))
            | "CLEAR" -> set_state (clear t)
            | "GEN" -> set_state (Ok (nextGeneration t))
            | "CONTEMPT" -> set_state (Ok (setWhiteContempt t (a 0)))
            | "TBON" ->
                (match tbOn t with
                 | Ok (t', ok) -> tt := Some t'; print_endline (state_line t' ^ " " ^ b01 ok)
                 | _ -> print_endline "ERR tbOn")
            | "TBOFF" -> set_state (tbOff t)
            | "INS" ->
                let key = a 0 in
                if overrun t key then print_endline "OOR" else
                let m = { m_from = a 1; m_to = a 2; m_promote = a 3; m_score = a 4 } in
                (match insert t key m (a 5) (a 6) (a 7) (a 8) (List.nth args 9 <> "0") with
                 | Ok t' -> tt := Some t'; print_endline (bucket_line t' key)
                 | OutOfRange j -> print_endline ("ERR out of range " ^ hex_of_z j)
                 | OutOfFuel -> print_endline "ERR out of fuel")
            | "PROBE" ->
                let key = a 0 in
                if overrun t key then print_endline "OOR" else
                (match probe t key (a 1, a 2) with
                 | Ok (t', (rk, rd)) -> tt := Some t';
                     print_endline ("R " ^ hex_of_z rk ^ " " ^ hex_of_z rd ^ " " ^ bucket_line t' key)
                 | OutOfRange j -> print_endline ("ERR out of range " ^ hex_of_z j)
                 | OutOfFuel -> print_endline "ERR out of fuel")
            | "BUSY" ->
                let key = a 0 in
                if overrun t key then print_endline "OOR" else
                (match probe t key (Z0, Z0) with
                 | Ok (t1, (rk, rd)) ->
                     let fin t2 = tt := Some t2;
                       print_endline ("R " ^ hex_of_z rk ^ " " ^ hex_of_z rd ^ " " ^ bucket_line t2 key ^
                                      (if Z.eqb (getType rd) Z0 then "" else " " ^ bucket_line t2 rk)) in
                     if Z.eqb (getType rd) Z0 then fin t1
                     else if overrun t1 rk then (tt := Some t1; print_endline "OOR")
                     else (match setBusy t1 (rk, rd) (a 1) with
                           | Ok t2 -> fin t2
                           | OutOfRange j -> print_endline ("ERR out of range " ^ hex_of_z j)
                           | OutOfFuel -> print_endline "ERR out of fuel")
                 | OutOfRange j -> print_endline ("ERR out of range " ^ hex_of_z j)
                 | OutOfFuel -> print_endline "ERR out of fuel")
            | "IDX" -> print_endline ("I " ^ hex_of_z (getIndex t (Z.coq_lxor (a 0) t.contemptHash)))
            | "PUTB" ->
                (match putByte t (a 0) (a 1) with
                 | Ok t' -> tt := Some t'; let (k, d) = mget t'.mem (Z.div (a 0) (z_of_int 16)) in
                     print_endline ("Y " ^ hex_of_z k ^ " " ^ hex_of_z d)
                 | _ -> print_endline "OOR")
            | "GETB" -> (match getByte t (a 0) with Ok v -> print_endline ("Y " ^ hex_of_z v) | _ -> print_endline "OOR")
            | "TBW" ->
                if not (Z.gtb (Z.mul t.tableSize (z_of_int 16)) (a 0)) then print_endline "OOR" else
                let b = zadd (tb_idx0 t (a 0)) (a 1) in
                (match tbStore t (a 0) (a 1) (a 2) with
                 | Ok t' -> tt := Some t'; let e = Z.div b (z_of_int 16) in let (k, d) = mget t'.mem e in
                     print_endline ("Y " ^ hex_of_z e ^ " " ^ hex_of_z k ^ " " ^ hex_of_z d)
                 | _ -> print_endline "OOR")
            | "TBR" ->
                if not (Z.gtb (Z.mul t.tableSize (z_of_int 16)) (a 0)) then print_endline "OOR" else
                let b = zadd (tb_idx0 t (a 0)) (a 1) in
                (match tbLoad t (a 0) (a 1) with
                 | Ok v -> print_endline ("Y " ^ hex_of_z (Z.div b (z_of_int 16)) ^ " " ^ hex_of_z v)
                 | _ -> print_endline "OOR")
            | "TBSUM" -> print_endline "T ?"       (* tablebase bytes are not modelled; checked against the Spec by the check *)
            | c -> print_endline ("ERR unknown command " ^ c)))
    done
  with End_of_file -> ())
