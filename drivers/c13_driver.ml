(* OCaml driver for the extracted C13 leaf model (Search/TBRules.v); same protocol as the R and X
   requests of harness/c04_harness.cpp:
     R dtm ply hmc old   -> "margin evalScoreAfter"
     X eval dist         -> swindleScore *)
open Tb_model

let rec pos_of_int n = if n = 1 then XH else if n land 1 = 0 then XO (pos_of_int (n lsr 1)) else XI (pos_of_int (n lsr 1))
let z_of_int n = if n = 0 then Z0 else if n > 0 then Zpos (pos_of_int n) else Zneg (pos_of_int (-n))
let rec int_of_pos = function XH -> 1 | XO p -> 2 * int_of_pos p | XI p -> 2 * int_of_pos p + 1
let int_of_z = function Z0 -> 0 | Zpos p -> int_of_pos p | Zneg p -> - (int_of_pos p)

let () =
  try
    while true do
      let line = input_line stdin in
      let t = Array.of_list (List.filter (fun s -> s <> "") (String.split_on_char ' ' line)) in
      if Array.length t > 0 then begin
        let z k = z_of_int (int_of_string t.(k)) in
        match t.(0) with
        | "R" -> let (m, ev) = rule50Margin (z 1) (z 2) (z 3) (z 4) in Printf.printf "%d %d\n" (int_of_z m) (int_of_z ev)
        | "X" -> Printf.printf "%d\n" (int_of_z (swindleScore (z 1) (z 2)))
        | s -> failwith ("bad request " ^ s)
      end
    done
  with End_of_file -> ()
