(* OCaml driver for the extracted C13 model (Search/TBRules.v).
   Leaf requests (same protocol as the R and X requests of harness/c04_harness.cpp):
     R dtm ply hmc old   -> "margin evalScoreAfter"
     X eval dist         -> swindleScore
   Probe / return-site requests (same inputs as harness/c13_harness.cpp mode probe, with the
   table's value of the position instead of the position: sign 1 = side to move mates, -1 = is
   mated, 0 = draw; k = distance in plies):
     P sign k hmc ply                          -> "type score evalScore"      (probe_of)
     S sign k hmc ply alpha beta depth eval    -> "cut score type"            (tb_node: SCut)
                                                | "go lo hi alpha' beta'"     (SGo: the node is searched
                                                  on with the window (alpha', beta'); its final result,
                                                  clamped by tbAdjust, lies in [lo, hi]) *)
open Tb_model

let rec pos_of_int n = if n = 1 then XH else if n land 1 = 0 then XO (pos_of_int (n lsr 1)) else XI (pos_of_int (n lsr 1))
let z_of_int n = if n = 0 then Z0 else if n > 0 then Zpos (pos_of_int n) else Zneg (pos_of_int (-n))
let rec int_of_pos = function XH -> 1 | XO p -> 2 * int_of_pos p | XI p -> 2 * int_of_pos p + 1
let int_of_z = function Z0 -> 0 | Zpos p -> int_of_pos p | Zneg p -> - (int_of_pos p)
let rec nat_of_int n = if n <= 0 then O else S (nat_of_int (n - 1))

let tbval_of sign k = if sign > 0 then TWin (nat_of_int ((k + 1) / 2)) else if sign < 0 then TLoss (nat_of_int (k / 2)) else TDraw

let inf = 99999

let () =
  try
    while true do
      let line = input_line stdin in
      let t = Array.of_list (List.filter (fun s -> s <> "") (String.split_on_char ' ' line)) in
      if Array.length t > 0 then begin
        let i k = int_of_string t.(k) in
        let z k = z_of_int (i k) in
        match t.(0) with
        | "R" -> let (m, ev) = rule50Margin (z 1) (z 2) (z 3) (z 4) in Printf.printf "%d %d\n" (int_of_z m) (int_of_z ev)
        | "X" -> Printf.printf "%d\n" (int_of_z (swindleScore (z 1) (z 2)))
        | "P" ->
            let ((ty, sc), ev) = probe_of (tbval_of (i 1) (i 2)) (z 4) (z 3) in
            Printf.printf "%d %d %d\n" (int_of_z ty) (int_of_z sc) (int_of_z ev)
        | "S" ->
            (match tb_node (tbval_of (i 1) (i 2)) (z 4) (z 3) (z 5) (z 6) (z 7) (z 8) with
             | SCut (s, ty) -> Printf.printf "cut %d %d\n" (int_of_z s) (int_of_z ty)
             | SGo (a, b, tbs, tbt) ->
                 let tbt = int_of_z tbt and tbs = int_of_z tbs in
                 let lo = if tbt = int_of_z t_GE then tbs else - inf in
                 let hi = if tbt = int_of_z t_LE then tbs else inf in
                 Printf.printf "go %d %d %d %d\n" lo hi (int_of_z a) (int_of_z b))
        | s -> failwith ("bad request " ^ s)
      end
    done
  with End_of_file -> ()
