(* OCaml driver for the extracted draw model (C11).  One request per line, one answer per line.
   Hashes are hexadecimal, everything else decimal.
     R hmc h size firstNew n e0 .. e(n-1)      -> "<model> <spec>"   model: 1 0 E, spec: 1 0
     F hmc                                     -> "1"/"0"
     P hmc inCheck hasLegal ply h size firstNew n e..  -> "S <score>" | "C" | "E"   + " | <spec>"
     S clk0 k h0 z0 .. h(k-1) z(k-1)           -> "<size> <clk> | e.. | <spec e..> <specclk>"
     C hmc h size hmcA hA n e..                -> claim code 0..5
     M wq wr wp bq br bp wb wn bb bn dark light -> insufficientMaterial
     GN pos | GM pos | GR 0 | GR 1 pos | G5 .. | GO .. | GA | GS | GU    (game commands)
        pos = id white hmc inCheck nLegal wq wr wp bq br bp wb wn bb bn dark light
        -> "<ret> <state> <pending> <haveOffer> <currentMove> <curId> h:<ids of getHistory>" *)
open Draw_model

let rec pos_of_int n = if n = 1 then XH else if n land 1 = 0 then XO (pos_of_int (n lsr 1)) else XI (pos_of_int (n lsr 1))
let z_of_int n = if n = 0 then Z0 else if n > 0 then Zpos (pos_of_int n) else Zneg (pos_of_int (-n))
let n_of_int n = if n = 0 then N0 else Npos (pos_of_int n)
let rec int_of_pos = function XH -> 1 | XO p -> 2 * int_of_pos p | XI p -> 2 * int_of_pos p + 1
let int_of_z = function Z0 -> 0 | Zpos p -> int_of_pos p | Zneg p -> - (int_of_pos p)
let int_of_n = function N0 -> 0 | Npos p -> int_of_pos p
let rec nat_to_int = function O -> 0 | S n -> 1 + nat_to_int n

(* hexadecimal -> N, any length (64-bit values do not fit OCaml's int) *)
let hexval c = match c with
  | '0'..'9' -> Char.code c - 48 | 'a'..'f' -> Char.code c - 87 | 'A'..'F' -> Char.code c - 55
  | _ -> failwith "hex"
let n_of_hex s =
  (* build the positive from the most significant bit downwards *)
  let bits = ref [] in
  String.iter (fun c -> let v = hexval c in
    bits := (v land 1 = 1) :: (v land 2 = 2) :: (v land 4 = 4) :: (v land 8 = 8) :: !bits) s;
  (* !bits is least-significant first *)
  let rec strip = function [] -> [] | l -> l in
  let lsb_first = strip !bits in
  let rec build = function
    | [] -> None
    | b :: r -> (match build r with
                 | None -> if b then Some XH else None
                 | Some p -> Some (if b then XI p else XO p)) in
  match build lsb_first with None -> N0 | Some p -> Npos p
let hex_of_n n =
  let rec go p acc = match p with
    | XH -> 1 :: acc | XO q -> go q (0 :: acc) | XI q -> go q (1 :: acc) in
  match n with
  | N0 -> "0"
  | Npos p ->
    let bits = List.rev (go p []) in            (* least significant first *)
    let rec nibbles l = match l with
      | [] -> []
      | a :: b :: c :: d :: r -> (a + 2*b + 4*c + 8*d) :: nibbles r
      | a :: b :: c :: [] -> [a + 2*b + 4*c]
      | a :: b :: [] -> [a + 2*b]
      | a :: [] -> [a] in
    let ns = List.rev (nibbles bits) in
    String.concat "" (List.map (Printf.sprintf "%x") ns)

let toks line = Array.of_list (List.filter (fun s -> s <> "") (String.split_on_char ' ' line))
let b_of s = s <> "0"
let sb b = if b then "1" else "0"

let state_code = function
  | ALIVE -> 0 | WHITE_MATE -> 1 | BLACK_MATE -> 2 | WHITE_STALEMATE -> 3 | BLACK_STALEMATE -> 4
  | DRAW_REP -> 5 | DRAW_50 -> 6 | DRAW_NO_MATE -> 7 | DRAW_AGREE -> 8 | RESIGN_WHITE -> 9 | RESIGN_BLACK -> 10

let parse_pos t k =
  let i j = int_of_string t.(k + j) in
  let m = { nWQ = n_of_int (i 5); nWR = n_of_int (i 6); nWP = n_of_int (i 7); nBQ = n_of_int (i 8);
            nBR = n_of_int (i 9); nBP = n_of_int (i 10); nWB = n_of_int (i 11); nWN = n_of_int (i 12);
            nBB = n_of_int (i 13); nBN = n_of_int (i 14); bishDark = n_of_int (i 15); bishLight = n_of_int (i 16) } in
  { a_id = n_of_int (i 0); a_white = b_of t.(k + 1); a_hmc = z_of_int (i 2); a_inCheck = b_of t.(k + 3);
    a_nLegal = n_of_int (i 4); a_mat = m }

let opt_pos t k = if t.(k) = "0" then None else Some (parse_pos t (k + 1))

let list_from t k n = List.init n (fun j -> n_of_hex t.(k + j))

let cur_game = ref None

let game_answer ret g =
  Printf.sprintf "%s %d %s %s %d %d h:%s" (sb ret) (state_code (gState g)) (sb g.g_pending)
    (sb (haveDrawOffer g)) (List.length g.g_hist) (int_of_n g.g_cur.a_id)
    (String.concat "," (List.map (fun p -> string_of_int (int_of_n p.a_id)) (getHistory g)))

let () =
  let out = Buffer.create 65536 in
  (try
     while true do
       let line = input_line stdin in
       let t = toks line in
       if Array.length t > 0 then begin
         let i k = int_of_string t.(k) in
         let ans =
           match t.(0) with
           | "R" ->
             let n = i 5 in
             let l = list_from t 6 n in
             let hmc = z_of_int (i 1) and h = n_of_hex t.(2) and size = z_of_int (i 3) and fn = z_of_int (i 4) in
             let m = (match canClaimDrawRep hmc h l size fn with Some true -> "1" | Some false -> "0" | None -> "E") in
             m ^ " " ^ sb (repSpecb hmc h l size fn)
           | "F" -> sb (canClaimDraw50 (z_of_int (i 1)))
           | "P" ->
             let n = i 8 in
             let l = list_from t 9 n in
             let hmc = z_of_int (i 1) in
             let inchk = b_of t.(2) and legal = b_of t.(3) in
             let ply = z_of_int (i 4) in
             let r = (match drawPrefix hmc inchk legal ply (n_of_hex t.(5)) l (z_of_int (i 6)) (z_of_int (i 7)) with
                 | Score s -> "S " ^ string_of_int (int_of_z s) | Continue -> "C" | PrefixErr -> "E") in
             let sp = (match verdictScore (fiftySpec hmc (inchk && not legal)) ply with
                 | Some s -> "S " ^ string_of_int (int_of_z s) | None -> "-") in
             r ^ " | " ^ sp
           | "S" ->
             let k = i 2 in
             let steps = List.init k (fun j -> (n_of_hex t.(3 + 2 * j), b_of t.(4 + 2 * j))) in
             let clk0 = z_of_int (i 1) in
             let ((l, size), clk) = setupPosition steps clk0 in
             Printf.sprintf "%d %d | %s | %s %d" (int_of_z size) (int_of_z clk)
               (String.concat " " (List.map hex_of_n l))
               (String.concat " " (List.map hex_of_n (historySpec steps))) (int_of_z (clockAfter steps clk0))
           | "C" ->
             let n = i 6 in
             let l = list_from t 7 n in
             (match cpCanClaimDraw (z_of_int (i 1)) (n_of_hex t.(2)) l (z_of_int (i 3)) (z_of_int (i 4)) (n_of_hex t.(5)) with
              | NoClaim -> "0" | Claim50 -> "1" | ClaimRep -> "2" | Claim50Move -> "3" | ClaimRepMove -> "4" | ClaimErr -> "5")
           | "M" ->
             let g j = n_of_int (i j) in
             sb (insufficientMaterial { nWQ = g 1; nWR = g 2; nWP = g 3; nBQ = g 4; nBR = g 5; nBP = g 6;
                                        nWB = g 7; nWN = g 8; nBB = g 9; nBN = g 10; bishDark = g 11; bishLight = g 12 })
           | "GN" -> let g = newGame (parse_pos t 1) in cur_game := Some g; game_answer true g
           | c when String.length c = 2 && c.[0] = 'G' ->
             let g = (match !cur_game with Some g -> g | None -> failwith "no game") in
             let cmd = (match c with
                 | "GM" -> CMove (parse_pos t 1)
                 | "GR" -> CDrawRep (opt_pos t 1)
                 | "G5" -> CDraw50 (opt_pos t 1)
                 | "GO" -> CDrawOffer (opt_pos t 1)
                 | "GA" -> CDrawAccept
                 | "GS" -> CResign
                 | "GU" -> CUndo
                 | _ -> failwith ("bad game command " ^ c)) in
             let (g', ret) = processCommand g cmd in
             cur_game := Some g'; game_answer ret g'
           | s -> failwith ("bad request " ^ s) in
         Buffer.add_string out ans; Buffer.add_char out '\n';
         if Buffer.length out > 60000 then (print_string (Buffer.contents out); Buffer.clear out)
       end
     done
   with End_of_file -> ());
  print_string (Buffer.contents out)
