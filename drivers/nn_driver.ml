(* OCaml driver for the extracted C07 model (coq/Extract/ExtractNN.v).
   Reads the op stream printed by harness/nn_harness.cpp ("OP " prefix stripped by the caller):
     W <file> <inFeatures> <n1>      little-endian int16 rows of weight1, then bias1
     N b0 .. b63                      new history: model := init16, ghost := ginit board
     P kw kb n p1 s1 ..               pushState        O b0 .. b63      popState (board after)
     S sq old new                     setPiece         F clear b0..b63  forceFullEval (board after)
     C kw kb n p1 s1 ..               computeL1WB      D wtm clip       print the state line
   evaluation-cache scripts:  KT (new table)  KV <historyHash> <contempt> <fresh value>
   and unit-level kernel references:  KC <256 lanes>   KA <256 lanes> ; <adds> ; <subs>
   Every D prints one line in the format of the harness' "R" lines; the ghost semantics (gstep)
   runs alongside and an op stream that is not consistent with a board history is flagged. *)
open Nn_model

let rec pos_of_int n = if n = 1 then XH else if n land 1 = 0 then XO (pos_of_int (n lsr 1)) else XI (pos_of_int (n lsr 1))
let z_of_int n = if n = 0 then Z0 else if n > 0 then Zpos (pos_of_int n) else Zneg (pos_of_int (-n))
let rec nat_of_int n = if n <= 0 then O else S (nat_of_int (n - 1))
let rec int_of_pos = function XH -> 1 | XO p -> 2 * int_of_pos p | XI p -> 2 * int_of_pos p + 1
let int_of_z = function Z0 -> 0 | Zpos p -> int_of_pos p | Zneg p -> - (int_of_pos p)
(* 64-bit keys do not fit OCaml's 63-bit int: parse decimal strings into Z *)
let z_of_string s =
  let ten = z_of_int 10 in
  let acc = ref Z0 in
  String.iter (fun ch -> acc := Z.add (Z.mul !acc ten) (z_of_int (Char.code ch - 48))) s;
  !acc

let weights = ref (Bytes.create 0)
let nfeat = ref 0
let n1 = ref 0

let lane_at off = (* unsigned residue of the int16 at byte offset off *)
  Char.code (Bytes.get !weights off) lor (Char.code (Bytes.get !weights (off + 1)) lsl 8)

let row_cache : (int, z list) Hashtbl.t = Hashtbl.create 4096
let wraw (i : z) : z list =
  let i = int_of_z i in
  if i < 0 || i >= !nfeat then []            (* out-of-range row: the model pads with zeros *)
  else match Hashtbl.find_opt row_cache i with
    | Some r -> r
    | None ->
      let r = List.init !n1 (fun k -> z_of_int (lane_at ((i * !n1 + k) * 2))) in
      Hashtbl.replace row_cache i r; r
let biasraw () = List.init !n1 (fun k -> z_of_int (lane_at ((!nfeat * !n1 + k) * 2)))

let hash_list l =
  List.fold_left (fun h v -> (h * 1000003 + int_of_z v) land ((1 lsl 40) - 1)) 7 l

let ints_of toks = List.map int_of_string toks
let board_of toks = boardOfList (List.map z_of_int (ints_of toks))
let rec pairs = function a :: b :: r -> (z_of_int a, z_of_int b) :: pairs r | _ -> []

let () =
  let st = ref None in          (* model state, None after a model error *)
  let gh = ref None in          (* ghost, None after an inconsistency *)
  let started = ref false in
  let nn = ref O in
  let bias = ref [] in
  let table = ref emptyTable in
  let apply o =
    (match !st with Some s -> st := step16 !nn wraw !bias s o | None -> ());
    (match !gh with Some g -> gh := gstep g o | None -> ()) in
  let buf = Buffer.create 65536 in
  (try
     while true do
       let line = input_line stdin in
       let toks = List.filter (fun s -> s <> "") (String.split_on_char ' ' line) in
       match toks with
       | "W" :: path :: f :: n :: _ ->
         let ic = open_in_bin path in
         let len = in_channel_length ic in
         let b = Bytes.create len in
         really_input ic b 0 len; close_in ic;
         weights := b; nfeat := int_of_string f; n1 := int_of_string n;
         nn := nat_of_int !n1; bias := biasraw (); Hashtbl.reset row_cache
       | "N" :: b ->
         st := Some (init16 !nn); gh := Some (ginit (board_of b)); started := true
       | "P" :: kw :: kb :: _ :: r ->
         apply (OPush (z_of_int (int_of_string kw), z_of_int (int_of_string kb), pairs (ints_of r)))
       | "C" :: kw :: kb :: _ :: r ->
         apply (OCompute (z_of_int (int_of_string kw), z_of_int (int_of_string kb), pairs (ints_of r)))
       | "O" :: b -> apply (OPop (board_of b))
       | "S" :: sq :: o :: n :: _ ->
         apply (OSet (z_of_int (int_of_string sq), z_of_int (int_of_string o), z_of_int (int_of_string n)))
       | "F" :: c :: b -> apply (OForce (c = "1", board_of b))
       | "D" :: wtm :: clip :: _ ->
         (match !st, !gh with
          | None, _ -> Buffer.add_string buf "MODELERR\n"
          | _, None -> Buffer.add_string buf "INCONSISTENT\n"
          | Some s, Some _ ->
            Buffer.add_string buf ("R " ^ string_of_int (int_of_z (stackTop s)));
            List.iter (fun white ->
                let (((k, a), sb), l) = observe !nn white s in
                let k = int_of_z k in
                Buffer.add_string buf (" | " ^ string_of_int k ^ " [");
                Buffer.add_string buf (String.concat "," (List.map (fun x -> string_of_int (int_of_z x)) a));
                Buffer.add_string buf "] [";
                Buffer.add_string buf (String.concat "," (List.map (fun x -> string_of_int (int_of_z x)) sb));
                Buffer.add_string buf "] ";
                Buffer.add_string buf (if k = -1 then "-" else string_of_int (hash_list l)))
              [true; false];
            Buffer.add_string buf " | ";
            Buffer.add_string buf (if clip = "1" then string_of_int (hash_list (l1OutClipped !nn (wtm = "1") s)) else "-");
            Buffer.add_char buf '\n');
         if Buffer.length buf > 60000 then (print_string (Buffer.contents buf); Buffer.clear buf)
       | "KC" :: lanes ->           (* scaleClipPack on one accumulator: model of the loop and the spec *)
         let l = List.map z_of_int (ints_of lanes) in
         let a = List.map clipLaneG l and b = List.map (fun x -> scaleClipSpec (s16val x)) l in
         Buffer.add_string buf ("K scp " ^ string_of_int (hash_list b) ^ (if a = b then "" else " MODEL<>SPEC") ^ "\n")
       | "KA" :: rest ->            (* addSubWeights: lanes ; adds ; subs  (rows from the W file) *)
         let rec split acc = function ";" :: r -> (List.rev acc, r) | x :: r -> split (x :: acc) r | [] -> (List.rev acc, []) in
         let (l, r1) = split [] rest in
         let (ad, sb) = split [] r1 in
         let zl x = List.map z_of_int (ints_of x) in
         Buffer.add_string buf ("K asw " ^ string_of_int (hash_list (addSub16 !nn wraw (zl l) (zl ad) (zl sb))) ^ "\n")
       | "KT" :: _ -> table := emptyTable
       | "KV" :: hk :: c :: fresh :: _ ->
         let (v, t') = evalPosM evalKeyContemptMul !table (z_of_string hk) (z_of_int (int_of_string c)) (z_of_int (int_of_string fresh)) in
         table := t';
         Buffer.add_string buf ("V " ^ string_of_int (int_of_z v) ^ "\n")
       | _ -> ()
     done
   with End_of_file -> ());
  print_string (Buffer.contents buf)
