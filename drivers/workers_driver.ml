(* OCaml driver for the extracted C10 trace checker (coq/Workers/Checker.v).
   usage: workers_driver <trace-file>          validate one H5 event trace
          workers_driver --explore <parents, e.g. 0,1> <maxjob> <maxsearches>
                                               exhaustive exploration: deadlock freedom and fair termination of the stop phase
          workers_driver --sim <seed> <n> <steps> [rand]
                                               random walk of the LTS (self-test of the model)
   Trace line format (lib/texellib/hw/verifsync.hpp):  <thread> <KIND> a b c d
   Output: one line "OK events=<n> transitions=<m> searches=<k> bestmoves=<k> reconfigs=<r> maxN=<n>"
           or       "BAD line <n>: <text> | <event> | <model state of the thread>"            *)
open Workers_model

let rec nat_of_int n = if n <= 0 then O else S (nat_of_int (n - 1))
let rec int_of_nat = function O -> 0 | S n -> 1 + int_of_nat n
let rec pos_of_int n = if n = 1 then XH else if n land 1 = 0 then XO (pos_of_int (n lsr 1)) else XI (pos_of_int (n lsr 1))
let z_of_int n = if n = 0 then Z0 else if n > 0 then Zpos (pos_of_int n) else Zneg (pos_of_int (-n))
let rec int_of_pos = function XH -> 1 | XO p -> 2 * int_of_pos p | XI p -> 2 * int_of_pos p + 1
let int_of_z = function Z0 -> 0 | Zpos p -> int_of_pos p | Zneg p -> - (int_of_pos p)

let maxt = 16

(* keep the function-valued fields shallow *)
let tab (s : state) : state =
  let a1 = Array.init maxt (fun i -> s.th (nat_of_int i)) in
  let a2 = Array.init maxt (fun i -> s.qu (nat_of_int i)) in
  let a3 = Array.init maxt (fun i -> s.flag (nat_of_int i)) in
  let g a d t = let i = int_of_nat t in if i < maxt then a.(i) else d t in
  { s with th = g a1 s.th; qu = g a2 s.qu; flag = g a3 s.flag }

let tabc (c : cstate) : cstate =
  let a = Array.init maxt (fun i -> c.pend (nat_of_int i)) in
  { cs = tab c.cs; pend = (fun t -> let i = int_of_nat t in if i < maxt then a.(i) else None); pendres = c.pendres; copt = c.copt }

let code_text = function
  | 1 -> "event is not an enabled transition of the model"
  | 2 -> "second PUSH before the notify of the first"
  | 3 -> "notify on a different notifier than the mailbox just pushed to"
  | 4 -> "result pushed although hasResult is set in the model"
  | 5 -> "pushed command / jobId / mailbox length differs from the model"
  | 6 -> "notify on a foreign notifier without a push"
  | 7 -> "popped command / jobId differs from the head of the model's mailbox"
  | 8 -> "mailbox length after pop differs from the model"
  | 9 -> "stopAckWaitSelf / stopAckWaitChildren after sendStopSearch differ from the model"
  | 10 -> "stopAckWaitSelf / stopAckWaitChildren differ from the model"
  | 11 -> "jobId differs from the model"
  | 12 -> "Search::jobId differs from the model"
  | 13 -> "quitFlag read differs from the model"
  | 14 -> "search flag read differs from the model"
  | 15 | 16 -> "quitAckWaitChildren differs from the model"
  | 17 -> "result handler of the search ran outside iterativeDeepening"
  | 18 -> "a helper result was accepted although its jobId is not the current one (or rejected although it is)"
  | 19 -> "option hand-shake: the engine thread went on (read search / cleared it) before setOptions() finished, or a search was set up while optionsSetFinished is false in the model"
  | 30 -> "C10_options_applied_before_ready: the UCI thread got past waitOptionsSet (readyok / go set-up) although an option is still pending or being applied"
  | 31 -> "setOptions took pendingOptions outside the engine thread's setOptions() window"
  | 32 -> "pendingOptions emptiness differs from the model"
  | 33 -> "option applied (params.set) without having been taken"
  | 20 -> "worker tree changed while the protocol is not quiescent"
  | 21 -> "worker tree is not the shape createWorkers builds (parent >= child)"
  | 22 -> "event by a thread on another thread's mailbox/notifier"
  | 23 -> "malformed trace line"
  | 24 -> "trace ends with a push whose notify never came"
  | n -> "code " ^ string_of_int n

let pc_str = function
  | PWait _ -> "PWait" | PPoll KMain -> "PPoll(main)" | PPoll (KSearch j) -> Printf.sprintf "PPoll(search %d)" (int_of_z j)
  | PPoll KMSearch -> "PPoll(msearch)" | PPoll KAck -> "PPoll(ack)" | PPoll KQuit -> "PPoll(quit)" | PPoll KTop -> "PPoll(top)"
  | PFwd (w, _, r) -> Printf.sprintf "PFwd(%s,%d left)" (match w with FInit -> "init" | FStart j -> "start " ^ string_of_int (int_of_z j) | FStop -> "stop" | FQuit -> "quit") (List.length r)
  | PStopNotify _ -> "PStopNotify" | PSend (c, _) -> Printf.sprintf "PSend(type %d)" (int_of_nat (cmd_type c))
  | PSendW _ -> "PSendW" | PExit -> "PExit" | MRdQuit -> "MRdQuit" | MRdSearch -> "MRdSearch"
  | MStopPre -> "MStopPre" | MFinalNotify -> "MFinalNotify" | MClear -> "MClear"

let thread_str (s : state) t =
  if t < 0 then Printf.sprintf "uci: search=%b quit=%b ponder=%b" s.search s.quitf s.ponder else
  let l = s.th (nat_of_int t) in
  Printf.sprintf "thread %d: pc=%s job=%d hasres=%b self=%b wc=%d qa=%d flag=%b queue=[%s]" t (pc_str l.pc)
    (int_of_z l.job) l.hasres l.self (int_of_z l.wc) (int_of_z l.qa) (s.flag (nat_of_int t))
    (String.concat "," (List.map (fun c -> Printf.sprintf "%d:%d" (int_of_nat (cmd_type c)) (int_of_z (cmd_job c))) (s.qu (nat_of_int t))))

exception Stop of string

let has_h5b file =
  let ic = open_in file in
  let found = ref false in
  (try while not !found do
     let l = input_line ic in
     (match String.split_on_char ' ' l with _ :: "OPTTAKE" :: _ -> found := true | _ -> ())
   done with End_of_file -> ());
  close_in ic; !found

let validate file =
  let h5b = has_h5b file in
  let ic = open_in file in
  let par = Array.make maxt (-2) in          (* current configuration *)
  let alive = Array.make maxt false in
  let newpar = Array.make maxt (-2) in       (* pending changes *)
  let started = Array.make maxt false in     (* TSTART since last GO *)
  let dying = Array.make maxt false in
  let dirty = ref false in
  let n = ref 0 in
  let c = ref (cinit h5b) in
  let uci = nat_of_int (maxt + 1) in
  let parent_fn () = let p = Array.copy par in
    fun t -> let i = int_of_nat t in if i >= 1 && i < maxt && p.(i) >= 0 then Some (nat_of_int p.(i)) else None in
  let pf = ref (parent_fn ()) in
  let nevents = ref 0 and ntrans = ref 0 and nreconf = ref 0 and maxn = ref 0 in
  let lineno = ref 0 in
  let finished = ref false in
  let bad code line t = raise (Stop (Printf.sprintf "BAD line %d: %s | %s | %s" !lineno (code_text code) line (thread_str !c.cs t))) in
  let feed line t e =
    match check_ev (nat_of_int !n) !pf uci !c e with
    | Ok c' -> c := tabc c'; incr ntrans
    | Bad code -> bad (int_of_nat code) line t in
  let reconfigure line =
    if not (quiescentb (nat_of_int !n) !c.cs) then begin
      (* find the offending thread for the message *)
      let off = ref 0 in
      for t = !n downto 1 do if alive.(t) && not dying.(t) then begin
        let l = !c.cs.th (nat_of_int t) in
        if int_of_z l.job <> -1 || l.self || int_of_z l.wc <> 0 || !c.cs.qu (nat_of_int t) <> [] then off := t end done;
      bad 20 line !off
    end;
    let keep = Array.init maxt (fun t -> t >= 1 && alive.(t) && not dying.(t) && not started.(t)) in
    for t = 1 to maxt - 1 do
      if dying.(t) && not started.(t) then (alive.(t) <- false; par.(t) <- -2);
      if started.(t) then (alive.(t) <- true; par.(t) <- newpar.(t));
      dying.(t) <- false; started.(t) <- false
    done;
    n := 0;
    for t = 1 to maxt - 1 do if alive.(t) then n := t done;
    for t = 1 to !n do
      if not alive.(t) || par.(t) < 0 || par.(t) >= t || (par.(t) > 0 && not alive.(par.(t))) then bad 21 line t
    done;
    if !n > !maxn then maxn := !n;
    pf := parent_fn ();
    c := tabc { !c with cs = reconf !c.cs (fun t -> let i = int_of_nat t in i < maxt && keep.(i)) };
    dirty := false; incr nreconf in
  (try
    while true do
      let line = input_line ic in
      incr lineno;
      if not !finished && String.trim line <> "" then begin
        incr nevents;
        let tk = Array.of_list (List.filter (fun s -> s <> "") (String.split_on_char ' ' line)) in
        if Array.length tk < 6 then bad 23 line (-1);
        let t = (try int_of_string tk.(0) with _ -> bad 23 line (-1)) in
        let a = int_of_string tk.(2) and b = int_of_string tk.(3) and d3 = int_of_string tk.(4) and d4 = int_of_string tk.(5) in
        let nt x = if x < 0 then uci else nat_of_int x in
        let own x = if x <> t then bad 22 line t in
        let skip = t >= 1 && t < maxt && (dying.(t) || (started.(t) && false)) in
        match tk.(1) with
        | "TSTART" -> if a >= 1 && a < maxt then (started.(a) <- true; newpar.(a) <- b; dirty := true) else bad 23 line t
        | "TERM" -> if a >= 1 && a < maxt then (dying.(a) <- true; dirty := true)
        | "TJOIN" -> ()
        | "ACQ" | "REL" | "RDSEARCHU" | "RDPARAMS" | "ROPT" | "WTT" | "RTT" -> decr nevents
        | "SETOPT" -> feed line t EvSetOpt
        | "OPTTAKE" -> feed line t (EvOptTake (a <> 0))
        | "WOPT" -> feed line t EvWOpt
        | "RDFIN" -> feed line t EvRdFin   (* C09 lock / access events: not part of the C10 replay *)
        | "TEXIT" -> if a = 0 then finished := true
        | _ when skip -> ()
        | "N" ->
            if t < 0 && a >= 1 then ()     (* ~WorkerThread: terminate notification *)
            else feed line t (EvN (nt t, nat_of_int a))
        | "W" -> own a; feed line t (EvW (nat_of_int t))
        | "PUSH" -> feed line t (EvPush (nt t, nat_of_int a, nat_of_int b, z_of_int d3, nat_of_int d4))
        | "POP" -> own a; feed line t (EvPop (nat_of_int t, nat_of_int b, z_of_int d3, nat_of_int d4))
        | "EMPTY" -> own a; feed line t (EvEmpty (nat_of_int t))
        | "STOPSEARCH" -> own a; feed line t (EvStopSearch (nat_of_int t, b <> 0, z_of_int d3))
        | "ACK" -> own a; feed line t (EvAck (nat_of_int t, d3 <> 0, z_of_int d4))
        | "JOB" -> own a; feed line t (EvJob (nat_of_int t, z_of_int b))
        | "MAXD" -> own a; feed line t (EvMaxD (nat_of_int t))
        | "START" -> own a; feed line t (EvStart (nat_of_int t, z_of_int b))
        | "INIT" -> own a; feed line t (EvInit (nat_of_int t))
        | "BEST" -> feed line t EvBest
        | "CLEAR" -> feed line t EvClear
        | "RDQUIT" -> feed line t (EvRdQuit (a <> 0))
        | "RDSEARCH" -> feed line t (EvRdSearch (a <> 0))
        | "GO" -> if !dirty then reconfigure line; feed line t (EvGo (a <> 0))
        | "QUIT" -> feed line t EvQuit
        | "UNPONDER" -> feed line t EvUnponder
        | "RESULT" -> feed line t (EvResult (z_of_int a, z_of_int b))
        | "SENDQUIT" -> own a; feed line t (EvSendQuit (nat_of_int t, z_of_int b))
        | "QACK" -> own a; feed line t (EvQAck (nat_of_int t, z_of_int b))
        | _ -> bad 23 line t
      end
    done
  with End_of_file -> ());
  close_in ic;
  for t = 0 to !n do
    if !c.pend (nat_of_int t) <> None then raise (Stop (Printf.sprintf "BAD line %d: %s | <end of trace> | %s" !lineno (code_text 24) (thread_str !c.cs t)))
  done;
  let s = !c.cs in
  let idle = (match (s.th O).pc with PWait KTop | MRdQuit | MRdSearch | PExit -> true | _ -> false) in
  Printf.printf "OK events=%d transitions=%d searches=%d bestmoves=%d reconfigs=%d maxN=%d exited=%b idle_at_end=%b options=%b\n"
    !nevents !ntrans (int_of_nat s.sid) (int_of_nat s.nbest) !nreconf !maxn !finished idle h5b

(* ---- random walk of the LTS with the trace checker's quiescence test as a monitor ---- *)
let simulate seed n steps rand =
  Random.init seed;
  let par = Array.make (n + 1) (-1) in
  if not rand then begin
    let rec cw first p num =
      if num > 0 then begin
        let nc = min num 4 in
        let first = ref first and num = ref num in
        for i = 0 to nc - 1 do
          let k = (!num + nc - i - 1) / (nc - i) in
          par.(!first) <- p; cw (!first + 1) !first (k - 1);
          first := !first + k; num := !num - k
        done
      end in
    cw 1 0 n
  end else for c = 1 to n do par.(c) <- Random.int c done;
  let parent t = let i = int_of_nat t in if i >= 1 && i <= n then Some (nat_of_int par.(i)) else None in
  let nn = nat_of_int n in
  let kids t = List.filter (fun c -> par.(c) = t) (List.init n (fun i -> i + 1)) in
  let acts t =
    [AWait; APollEmpty; APop; ANotifySelf; AFinish; AMaxDepth; ARdQuit; ARdSearch; AInitSearch; AStartJob; ABest; AStopSearch; AClear]
    @ List.map (fun x -> APush (nat_of_int x)) ((if t > 0 then [par.(t)] else []) @ kids t) in
  let s = ref (tab init) in
  let nidle = ref 0 and term = ref false in
  let i = ref 0 in
  while not !term && !i < steps do
    incr i;
    let l = ref [LE (EGo false); LE (EGo true); LE ENotify; LE ESpur] in
    if !s.ponder then l := LE EUnponder :: !l;
    if !i > steps * 9 / 10 then l := LE EQuit :: !l;
    for t = 0 to n do List.iter (fun a -> l := LT (nat_of_int t, a) :: !l) (acts t) done;
    let en = List.filter (fun lb -> match lstep nn parent !s lb with Some _ -> true | None -> false) !l in
    if en = [] then term := true else begin
      let lb = List.nth en (Random.int (List.length en)) in
      (match lstep nn parent !s lb with Some s' -> s := tab s' | None -> ());
      (* monitor: bestmoves never exceed searches; quiescent whenever the engine thread waits idle with search=false *)
      if int_of_nat !s.nbest > int_of_nat !s.sid then (Printf.printf "BAD sim: more bestmoves than searches\n"; exit 1);
      (match (!s.th O).pc with
       | PWait KTop when not !s.search && not !s.quitf && !s.epc = EIdle ->
           incr nidle;
           if not (quiescentb nn !s) then begin
             (* helpers may still be finishing their post-ack steps: only jobs/mailboxes must be clean *)
             for t = 1 to n do
               let lc = !s.th (nat_of_int t) in
               if int_of_z lc.job <> -1 || lc.self || int_of_z lc.wc <> 0 then
                 (Printf.printf "BAD sim: helper %d not idle after barrier: %s\n" t (thread_str !s t); exit 1)
             done
           end
       | _ -> ())
    end
  done;
  Printf.printf "OK sim steps=%d searches=%d bestmoves=%d idle_checks=%d terminated=%b\n" !i (int_of_nat !s.sid) (int_of_nat !s.nbest) !nidle !term


(* ---- exhaustive exploration of the LTS for a small tree with bounded jobs / searches:
        deadlock freedom and fair termination of the stop phase (C10_stop_terminates) ---- *)
let explore par_list maxjob maxsid =
  let n = List.length par_list in
  let par = Array.of_list (-1 :: par_list) in
  let parent t = let i = int_of_nat t in if i >= 1 && i <= n then Some (nat_of_int par.(i)) else None in
  let nn = nat_of_int n in
  let kids t = List.filter (fun c -> par.(c) = t) (List.init n (fun i -> i + 1)) in
  let acts t =
    [AWait; APollEmpty; APop; ANotifySelf; AFinish; AMaxDepth; ARdQuit; ARdSearch; AInitSearch; AStartJob; ABest; AStopSearch; AClear]
    @ List.map (fun x -> APush (nat_of_int x)) ((if t > 0 then [par.(t)] else []) @ kids t) in
  let key ((s : state), (initdone : bool)) =
    let ths = List.init (n + 1) (fun t -> let l = s.th (nat_of_int t) in
      (l.pc, int_of_z l.job, l.hasres, l.self, int_of_z l.wc, int_of_z l.qa, int_of_nat l.se, int_of_nat l.ae)) in
    let qs = List.init (n + 1) (fun t -> s.qu (nat_of_int t)) in
    let fl = List.init (n + 1) (fun t -> s.flag (nat_of_int t)) in
    Marshal.to_string (ths, qs, fl, s.search, s.quitf, s.ponder, s.epc, int_of_nat s.sid, int_of_nat s.nbest, initdone) [] in
  let ids = Hashtbl.create 100000 in
  let states = ref [||] and nstates = ref 0 in
  let add s =
    let k = key s in
    match Hashtbl.find_opt ids k with
    | Some i -> i
    | None ->
        let i = !nstates in
        Hashtbl.add ids k i;
        if i >= Array.length !states then states := Array.append !states (Array.make (max 1024 i) s);
        !states.(i) <- s; incr nstates; i in
  let succ = Hashtbl.create 100000 in    (* id -> (thread(-1 env) * target) list, state-changing only *)
  let _ = add (tab init, false) in
  let cur = ref 0 in
  let in_stop ((s : state), _) = match (s.th O).pc with
    | PStopNotify KAck | PFwd (FStop, KAck, _) | PPoll KAck | PWait KAck -> true | _ -> false in
  while !cur < !nstates do
    let i = !cur in incr cur;
    let (s, initdone) = !states.(i) in
    let out = ref [] in
    let try_lb th lb =
      match lstep nn parent s lb with
      | Some s' ->
          let s' = tab s' in
          let d' = (match lb with LT (_, AInitSearch) -> true | LT (_, ARdSearch) -> false | _ -> initdone) in
          let j = add (s', d') in
          if j <> i then out := (th, j) :: !out
      | None -> () in
    for t = 0 to n do
      List.iter (fun a ->
        match a with
        | AStartJob when int_of_z (s.th O).job >= maxjob -> ()
        | AInitSearch when initdone -> ()     (* iterativeDeepening calls sendInitSearch at most once *)
        | _ -> try_lb t (LT (nat_of_int t, a))) (acts t)
    done;
    if int_of_nat s.sid < maxsid then (try_lb (-1) (LE (EGo false)); try_lb (-1) (LE (EGo true)));
    try_lb (-1) (LE ENotify); try_lb (-1) (LE EUnponder); try_lb (-1) (LE ESpur); try_lb (-1) (LE EQuit);
    Hashtbl.replace succ i !out
  done;
  let ns = !nstates in
  (* deadlock: a stop-phase state without a state-changing thread step *)
  let dead = ref 0 and nstop = ref 0 in
  for i = 0 to ns - 1 do
    if in_stop !states.(i) then begin
      incr nstop;
      if not (List.exists (fun (t, _) -> t >= 0) (Hashtbl.find succ i)) then incr dead
    end
  done;

  (* the termination measure of the stop phase (coq/Workers/WorkersMeasure.v, extracted): every
     state-changing thread transition inside the stop phase strictly decreases it, except the
     engine thread's idle wake-up cycle in the ack loop (unchanged); UCI transitions leave it
     unchanged (theorem C10_stop_terminates; re-checked here on every explored edge) *)
  let muv = Array.make ns (-1) in
  let mu_of i = if muv.(i) < 0 then muv.(i) <- int_of_nat (mu nn parent (fst !states.(i))); muv.(i) in
  let mbad = ref 0 and medges = ref 0 in
  for i = 0 to ns - 1 do
    if in_stop !states.(i) then
      List.iter (fun (t, j) -> if in_stop !states.(j) then begin
        incr medges;
        let a = mu_of i and b = mu_of j in
        let si = fst !states.(i) and sj = fst !states.(j) in
        let ackloop (s : state) = (match (s.th O).pc with PPoll KAck | PWait KAck -> true | _ -> false) in
        let neutral = (t < 0) || (t = 0 && ackloop si && ackloop sj && si.qu O = sj.qu O) in
        if not (if neutral then b = a else b < a) then begin
          incr mbad;
          if !mbad <= 3 then begin
            Printf.printf "MEASURE edge thread=%d mu %d -> %d\n" t a b;
            for v = 0 to n do Printf.printf "   %s\n      -> %s\n" (thread_str si v) (thread_str sj v) done
          end
        end
      end) (Hashtbl.find succ i)
  done;
  (* SCCs of the stop-phase subgraph (iterative Tarjan) *)
  let index = Array.make ns (-1) and low = Array.make ns 0 and onst = Array.make ns false in
  let comp = Array.make ns (-1) in
  let idx = ref 0 and ncomp = ref 0 in
  let stack = ref [] in
  let sub i = List.filter (fun (_, j) -> in_stop !states.(j)) (Hashtbl.find succ i) in
  for r = 0 to ns - 1 do
    if in_stop !states.(r) && index.(r) < 0 then begin
      let work = ref [(r, sub r)] in
      index.(r) <- !idx; low.(r) <- !idx; incr idx; stack := r :: !stack; onst.(r) <- true;
      while !work <> [] do
        match !work with
        | (v, []) :: rest ->
            work := rest;
            (match rest with (u, _) :: _ -> if low.(v) < low.(u) then low.(u) <- low.(v) | [] -> ());
            if low.(v) = index.(v) then begin
              let rec pop () = match !stack with
                | w :: tl -> stack := tl; onst.(w) <- false; comp.(w) <- !ncomp; if w <> v then pop ()
                | [] -> () in
              pop (); incr ncomp
            end
        | (v, (_, w) :: es) :: rest ->
            work := (v, es) :: rest;
            if index.(w) < 0 then begin
              index.(w) <- !idx; low.(w) <- !idx; incr idx; stack := w :: !stack; onst.(w) <- true;
              work := (w, sub w) :: !work
            end else if onst.(w) then (if index.(w) < low.(v) then low.(v) <- index.(w))
        | [] -> ()
      done
    end
  done;
  (* fairness of every SCC that contains a cycle *)
  let took = Array.make_matrix !ncomp (n + 1) false in
  let always = Array.make_matrix !ncomp (n + 1) true in
  let hasedge = Array.make !ncomp false in
  for i = 0 to ns - 1 do
    if comp.(i) >= 0 then begin
      let c = comp.(i) in
      let all = Hashtbl.find succ i in
      for t = 0 to n do
        if not (List.exists (fun (u, _) -> u = t) all) then always.(c).(t) <- false
      done;
      List.iter (fun (t, j) -> if comp.(j) = c then begin
        hasedge.(c) <- true; if t >= 0 then took.(c).(t) <- true end) all
    end
  done;
  let unfair_ok = ref 0 and fair_cycles = ref 0 in
  for c = 0 to !ncomp - 1 do
    if hasedge.(c) then begin
      let starved = ref false in
      for t = 0 to n do if always.(c).(t) && not took.(c).(t) then starved := true done;
      if !starved then incr unfair_ok else incr fair_cycles
    end
  done;
  Printf.printf "%s explore tree=[%s] maxjob=%d maxsearch=%d states=%d stop_states=%d deadlocks=%d cyclic_sccs=%d fair_cycles=%d measure_edges=%d measure_bad=%d\n"
    (if !dead = 0 && !fair_cycles = 0 && !mbad = 0 then "OK" else "BAD")
    (String.concat "," (List.map string_of_int par_list)) maxjob maxsid ns !nstop !dead (!unfair_ok + !fair_cycles) !fair_cycles !medges !mbad;
  if !dead > 0 || !fair_cycles > 0 || !mbad > 0 then exit 1

let () =
  match Array.to_list Sys.argv with
  | _ :: "--explore" :: tree :: mj :: ms :: _ ->
      explore (if tree = "" then [] else List.map int_of_string (String.split_on_char ',' tree)) (int_of_string mj) (int_of_string ms)
  | _ :: "--sim" :: seed :: n :: steps :: rest ->
      simulate (int_of_string seed) (int_of_string n) (int_of_string steps) (rest <> [])
  | _ :: file :: _ ->
      (try validate file with Stop msg -> print_endline msg; exit 1)
  | _ -> prerr_endline "usage: workers_driver <trace> | --sim seed n steps [rand]"; exit 2
