(* OCaml driver for the extracted C04 model (Search/Score.v leaf functions and the certificate
   checker Search/Justify.v).  One request per stdin line, one answer per line.
     S s p1 p2                      -> field noovf getScore(field,p2)
     G field ply                    -> getScore
     W s                            -> isWin isLose mate|none
     C ty edepth score alpha beta depth -> isCutOff
     M n                            -> score_of_mate n
     RESET                          -> (no output) forget all accepted nodes / table facts
     N id key fn ply depth a b s site ty ic ttty ttf ttd mg q oic nm c1 .. cnm   -> OK | BAD
     RW cid alpha beta score n      -> OK | BAD
     RL score n nm c1 .. cnm        -> OK | BAD
     RETRY                          -> re-submits the requests answered BAD so far (in their original
                                       order, repeatedly, until a whole round accepts nothing new) and
                                       prints one final verdict line per such request, in order.  Used
                                       for multi-threaded traces, whose files carry no common clock: a
                                       node may rely on a table entry stored by another thread that
                                       comes later in the stream.  Every acceptance is still made by
                                       [step] on the state built from earlier acceptances.
   ids: decimal, 0 = none; key: hex (64 bit). *)
open Search_model

let rec pos_of_int n = if n = 1 then XH else if n land 1 = 0 then XO (pos_of_int (n lsr 1)) else XI (pos_of_int (n lsr 1))
let z_of_int n = if n = 0 then Z0 else if n > 0 then Zpos (pos_of_int n) else Zneg (pos_of_int (-n))
let rec int_of_pos = function XH -> 1 | XO p -> 2 * int_of_pos p | XI p -> 2 * int_of_pos p + 1
let int_of_z = function Z0 -> 0 | Zpos p -> int_of_pos p | Zneg p -> - (int_of_pos p)

(* 64-bit key -> positive 2^64 + key *)
let pos_of_key (hex : string) : positive =
  let k = Int64.of_string ("0x" ^ hex) in
  let p = ref XH in
  for i = 63 downto 0 do
    let bit = Int64.logand (Int64.shift_right_logical k i) 1L in
    p := if bit = 1L then XI !p else XO !p
  done;
  (* the loop above builds the number MSB first by appending bits at the low end *)
  !p

let opt_id n = if n = 0 then None else Some (pos_of_int n)
let b_of_int n = n <> 0
let pb b = if b then "1" else "0"

let () =
  let acc = ref PositiveMap.empty in
  let st = ref PositiveMap.empty in
  let pending : (unit -> bool) list ref = ref [] in   (* rejected requests, newest first *)
  (try
     while true do
       let line = input_line stdin in
       let t = Array.of_list (List.filter (fun s -> s <> "") (String.split_on_char ' ' line)) in
       if Array.length t > 0 then begin
         let i k = int_of_string t.(k) in
         let z k = z_of_int (i k) in
         match t.(0) with
         | "S" ->
             let f = ttSetScore (z 1) (z 2) in
             Printf.printf "%d %s %d\n" (int_of_z f) (pb (ttSetScore_noovf (z 1) (z 2))) (int_of_z (ttGetScore f (z 3)))
         | "G" -> Printf.printf "%d\n" (int_of_z (ttGetScore (z 1) (z 2)))
         | "W" ->
             let m = match mate_of_score (z 1) with Some n -> string_of_int (int_of_z n) | None -> "none" in
             Printf.printf "%s %s %s\n" (pb (isWinScore (z 1))) (pb (isLoseScore (z 1))) m
         | "C" -> Printf.printf "%s\n" (pb (isCutOff (z 1) (z 2) (z 3) (z 4) (z 5) (z 6)))
         | "M" -> Printf.printf "%d\n" (int_of_z (score_of_mate (z 1)))
         | "RESET" -> acc := PositiveMap.empty; st := PositiveMap.empty
         | "N" ->
             let id = pos_of_int (i 1) in
             let n = { r_key = pos_of_key t.(2); r_fn = z 3; r_ply = z 4; r_depth = z 5; r_a = z 6; r_b = z 7;
                       r_s = z 8; r_site = z 9; r_ty = z 10; r_ic = b_of_int (i 11);
                       r_ttty = z 12; r_ttf = z 13; r_ttd = z 14; r_mg = z 15; r_q = opt_id (i 16) } in
             let nm = i 18 in
             let ms = List.init nm (fun k -> opt_id (i (19 + k))) in
             let o = { o_ic = b_of_int (i 17); o_moves = ms } in
             let attempt () = match step !acc !st id n o with
               | Some (a, s) -> acc := a; st := s; true
               | None -> false in
             if attempt () then print_endline "OK"
             else begin pending := attempt :: !pending; print_endline "BAD" end
         | "RW" ->
             let cid = pos_of_int (i 1) and a = z 2 and b = z 3 and s = z 4 and n = z 5 in
             let attempt () = check_root_win !acc cid a b s n in
             if attempt () then print_endline "OK"
             else begin pending := attempt :: !pending; print_endline "BAD" end
         | "RL" ->
             let nm = i 3 in
             let ms = List.init nm (fun k -> opt_id (i (4 + k))) in
             let s = z 1 and n = z 2 in
             let attempt () = check_root_loss !acc { o_ic = false; o_moves = ms } s n in
             if attempt () then print_endline "OK"
             else begin pending := attempt :: !pending; print_endline "BAD" end
         | "RETRY" ->
             let items = Array.of_list (List.rev !pending) in
             let ok = Array.make (Array.length items) false in
             let progress = ref true in
             while !progress do
               progress := false;
               Array.iteri (fun k f -> if not ok.(k) && f () then begin ok.(k) <- true; progress := true end) items
             done;
             Array.iter (fun b -> print_endline (if b then "OK" else "BAD")) ok;
             pending := []
         | s -> failwith ("bad request " ^ s)
       end
     done
   with End_of_file -> ())
