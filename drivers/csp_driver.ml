(* OCaml driver for the extracted CSP model: same stdin protocol as harness/csp_harness.cpp *)
open Csp_model

let rec pos_of_int n = if n = 1 then XH else if n land 1 = 0 then XO (pos_of_int (n lsr 1)) else XI (pos_of_int (n lsr 1))
let z_of_int n = if n = 0 then Z0 else if n > 0 then Zpos (pos_of_int n) else Zneg (pos_of_int (-n))
let rec nat_of_int n = if n <= 0 then O else S (nat_of_int (n - 1))
let rec int_of_pos = function XH -> 1 | XO p -> 2 * int_of_pos p | XI p -> 2 * int_of_pos p + 1
let int_of_z = function Z0 -> 0 | Zpos p -> int_of_pos p | Zneg p -> - (int_of_pos p)
let int_of_n = function N0 -> 0 | Npos p -> int_of_pos p

let pref_of_int = function 0 -> SMALL | 1 -> LARGE | 2 -> MIDDLE_SMALL | _ -> MIDDLE_LARGE

let parse_op line =
  let t = List.filter (fun s -> s <> "") (String.split_on_char ' ' line) in
  let i k = int_of_string (List.nth t k) in
  match List.hd t with
  | "V" -> AddVar (pref_of_int (i 1), z_of_int (i 2), z_of_int (i 3))
  | "E" -> MakeEven (nat_of_int (i 1))
  | "O" -> MakeOdd (nat_of_int (i 1))
  | "m" -> AddMin (nat_of_int (i 1), z_of_int (i 2))
  | "M" -> AddMax (nat_of_int (i 1), z_of_int (i 2))
  | "L" -> AddLE (nat_of_int (i 1), nat_of_int (i 2), z_of_int (i 3))
  | "G" -> AddGE (nat_of_int (i 1), nat_of_int (i 2), z_of_int (i 3))
  | "Q" -> AddEq (nat_of_int (i 1), nat_of_int (i 2), z_of_int (i 3))
  | s -> failwith ("bad op " ^ s)

let rec nat_to_int = function O -> 0 | S n -> 1 + nat_to_int n

let () =
  let ops = ref [] in
  let nvars = ref 0 in
  (try
     while true do
       let line = input_line stdin in
       if String.length line >= 3 && String.sub line 0 3 = "SYS" then (ops := []; nvars := 0)
       else if line = "SOLVE" then begin
         let l = List.rev !ops in
         (match run l with
          | Sat (vals, n) ->
              print_string ("1 " ^ string_of_int (int_of_n n));
              List.iter (fun v -> print_string (" " ^ string_of_int (int_of_z v))) vals;
              print_newline ()
          | Unsat n ->
              print_string ("0 " ^ string_of_int (int_of_n n));
              (match build l with
               | Some s -> List.iter (fun _ -> print_string " -1") s.doms
               | None -> ());
              print_newline ()
          | Err -> print_endline "ERR")
       end else if line <> "" then ops := parse_op line :: !ops
     done
   with End_of_file -> ())
