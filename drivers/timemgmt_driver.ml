(* OCaml driver for the extracted C06 time-management model: same stdin protocol as
   harness/timemgmt_harness.cpp (the model additionally prints its no-overflow flags).

   A buf ponderOpt white wtime btime winc binc movestogo depth nodes mate movetime infinite nMoves ponderCmd
     -> A <ok> | min max esp maxDepth maxNodes | scMin scMax scEsp searchDepth one inf ponder
              | ecMin ecMax scMin scMax scEsp inf | scMin scMax scEsp
        (computeTimeLimit | after startSearch/startPonder | after ponderHit | after stopThread)
   P minT maxT esp hfbits needMore elapsed
     -> P <stop> <limit> <ok>                      (Search::shouldStop, time part)
   R minT maxT esp firstIter needMoreTime elapsed  -> R <stop>   (test after a root move)
   I minT maxT esp hfbits elapsed                  -> I <stop>   (test after an iteration)
   H hfbits hardbits     -> H <failHigh bits> <failLow bits> <iterEnd bits>
   N firstMoveNodes totalNodes -> N <fraction bits> <hardOf bits>
   U moves               -> U <usageFactor bits>
   B oTimeLimit timeLimit -> B <bonus double bits> <truncInt> <ok>                       *)
open Timemgmt_model

let rec pos_of_int n = if n = 1 then XH else if n land 1 = 0 then XO (pos_of_int (n lsr 1)) else XI (pos_of_int (n lsr 1))
let z_of_int n = if n = 0 then Z0 else if n > 0 then Zpos (pos_of_int n) else Zneg (pos_of_int (-n))
let rec int_of_pos = function XH -> 1 | XO p -> 2 * int_of_pos p | XI p -> 2 * int_of_pos p + 1
let int_of_z = function Z0 -> 0 | Zpos p -> int_of_pos p | Zneg p -> - (int_of_pos p)
(* decimal printing of arbitrary z (values may exceed 63 bits only for S64_MIN-like results) *)
let string_of_z z =
  let rec big p = (* positive -> decimal string via repeated division is overkill: values fit int64 *)
    match p with XH -> 1L | XO q -> Int64.mul 2L (big q) | XI q -> Int64.add (Int64.mul 2L (big q)) 1L in
  match z with
  | Z0 -> "0"
  | Zpos p -> Printf.sprintf "%Lu" (big p)
  | Zneg p -> "-" ^ Printf.sprintf "%Lu" (big p)

let b2i b = if b then 1 else 0
let float_of_bits s = Float64.of_float (Int64.float_of_bits (Int64.of_string s))
let bits_of_float (f : Float64.t) = Printf.sprintf "0x%016Lx" (Int64.bits_of_float (Obj.magic f : float))

let sl_str = function
  | Some sl -> Printf.sprintf "%s %s %s" (string_of_z sl.minTimeMillis) (string_of_z sl.maxTimeMillis)
                 (string_of_z sl.earlyStopPercentage)
  | None -> "- - -"

let () =
  (try
     while true do
       let line = input_line stdin in
       let t = Array.of_list (List.filter (fun s -> s <> "") (String.split_on_char ' ' line)) in
       if Array.length t > 0 then begin
         let i k = z_of_int (int_of_string t.(k)) in
         let b k = int_of_string t.(k) <> 0 in
         match t.(0) with
         | "A" ->
             let buf = i 1 and ponderOpt = b 2 and white = b 3 in
             let sp = { wTime = i 4; bTime = i 5; wInc = i 6; bInc = i 7; movesToGo = i 8;
                        depth = i 9; nodes = i 10; mate = i 11; moveTime = i 12; infinite = b 13 } in
             let nMoves = i 14 and ponderCmd = b 15 in
             let (lim, ok) = ctl_full buf ponderOpt white sp in
             let st1 = if ponderCmd then startPonder buf ponderOpt white sp nMoves
                       else startSearch buf ponderOpt white sp nMoves in
             let st2 = ponderHit st1 in
             let st3 = stopThread st2 in
             Printf.printf "A %d | %s %s %s %s %s | %s %s %d %d %d | %s %s %s %d | %s\n"
               (b2i ok)
               (string_of_z lim.minTimeLimit) (string_of_z lim.maxTimeLimit) (string_of_z lim.earlyStop)
               (string_of_z lim.maxDepth) (string_of_z lim.maxNodes)
               (sl_str st1.ecSearch) (string_of_z st1.ecSearchDepth) (b2i st1.ecOneMove)
               (b2i st1.ecInfinite) (b2i st1.ecPonder)
               (string_of_z st2.ecLim.minTimeLimit) (string_of_z st2.ecLim.maxTimeLimit)
               (sl_str st2.ecSearch) (b2i st2.ecInfinite)
               (sl_str st3.ecSearch)
         | "P" ->
             let sl = { minTimeMillis = i 1; maxTimeMillis = i 2; earlyStopPercentage = i 3 } in
             let hf = float_of_bits t.(4) and nm = b 5 and el = i 6 in
             Printf.printf "P %d %s %d\n" (b2i (shouldStopTime sl hf nm Z0 el))
               (string_of_z (pollLimit sl hf nm)) (b2i (pollLimit_noovf sl hf))
         | "R" ->
             let sl = { minTimeMillis = i 1; maxTimeMillis = i 2; earlyStopPercentage = i 3 } in
             Printf.printf "R %d\n" (b2i (rootMoveStop sl (b 4) (b 5) Z0 (i 6)))
         | "I" ->
             let sl = { minTimeMillis = i 1; maxTimeMillis = i 2; earlyStopPercentage = i 3 } in
             Printf.printf "I %d\n" (b2i (iterEndStop sl (float_of_bits t.(4)) Z0 (i 5)))
         | "H" ->
             let hf = float_of_bits t.(1) and hard = float_of_bits t.(2) in
             Printf.printf "H %s %s %s\n" (bits_of_float (hf_failHigh hf)) (bits_of_float (hf_failLow hf))
               (bits_of_float (hf_iterEnd hf hard))
         | "N" ->
             let f = nodeFraction (i 1) (i 2) in
             Printf.printf "N %s %s\n" (bits_of_float f) (bits_of_float (hardOf f))
         | "U" -> Printf.printf "U %s\n" (bits_of_float (usageFactor (i 1)))
         | "B" ->
             let f = ponderBonusF (i 1) (i 2) in
             Printf.printf "B %s %s %d\n" (bits_of_float f) (string_of_z (truncInt f)) (b2i (truncInt_ok f))
         | s -> failwith ("bad case " ^ s)
       end
     done
   with End_of_file -> ())
