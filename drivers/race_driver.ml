(* OCaml driver for the extracted race decision procedure (coq/Workers/Race.v, proved exact in
   RaceProofs.v).  Input (stdin): one event per line
     A <tid> <loc> <w:0|1> <kind:p|a|r>    loc:   q<t> mailbox  f<t> notifier flag  s search  x quitFlag  p search parameters
                                                  o ponder/infinite  d pendingOptions  e optionsSetFinished  v option values  g TT geometry/generation
     Q <tid> <mutex>    acquire             mutex: q<t> f<t> e
     R <tid> <mutex>    release
   argv: the location classes to decide, e.g. "p v g" (each letter as above; q and f stand for all mailboxes / flags)
   Output: "<class>=<true|false> ... events=<n>"                                                          *)
open Race_model
let rec nat_of_int n = if n <= 0 then O else S (nat_of_int (n - 1))
let num s = nat_of_int (int_of_string (String.sub s 1 (String.length s - 1)))
let loc_of s = match s.[0] with
  | 'q' -> LQueue (num s) | 'f' -> LFlag (num s)
  | 's' -> LSearch | 'x' -> LQuit | 'p' -> LParams | 'o' -> LPonder
  | 'd' -> LPend | 'e' -> LFin | 'v' -> LOpt | _ -> LTT
let mutex_of s = match s.[0] with 'q' -> MQ (num s) | 'f' -> MN (num s) | _ -> ME
let kind_of = function "a" -> Atomic | "r" -> Relaxed | _ -> Plain
let cls c (l : loc) = match c, l with
  | 'q', LQueue _ | 'f', LFlag _ | 's', LSearch | 'x', LQuit | 'p', LParams | 'o', LPonder
  | 'd', LPend | 'e', LFin | 'v', LOpt | 'g', LTT -> true
  | _ -> false
let () =
  let evs = ref [] in
  (try while true do
    let line = input_line stdin in
    match List.filter (fun s -> s <> "") (String.split_on_char ' ' line) with
    | ["A"; t; l; w; k] -> evs := Acc (nat_of_int (int_of_string t), loc_of l, w = "1", kind_of k) :: !evs
    | ["Q"; t; m] -> evs := Acq (nat_of_int (int_of_string t), mutex_of m) :: !evs
    | ["R"; t; m] -> evs := Rel (nat_of_int (int_of_string t), mutex_of m) :: !evs
    | _ -> ()
  done with End_of_file -> ());
  let tr = List.rev !evs in
  for i = 1 to Array.length Sys.argv - 1 do
    let c = Sys.argv.(i).[0] in
    Printf.printf "%c=%b " c (raceb_on (cls c) tr)
  done;
  Printf.printf "events=%d\n" (List.length tr)
