(* OCaml driver for the extracted race decision procedure (coq/Workers/Race.v, proved exact in
   RaceProofs.v).  Input (stdin): one event per line
     A <tid> <loc> <w:0|1> <atomic:0|1>    loc:   q<t> mailbox  f<t> notifier flag  s search  x quitFlag  p params  o ponder
     Q <tid> <mutex>    acquire             mutex: q<t> f<t> e
     R <tid> <mutex>    release
   Output: "search=<b> quit=<b> params=<b> guarded=<b|skipped> events=<n>"                         *)
open Race_model
let rec nat_of_int n = if n <= 0 then O else S (nat_of_int (n - 1))
let loc_of s = match s.[0] with
  | 'q' -> LQueue (nat_of_int (int_of_string (String.sub s 1 (String.length s - 1))))
  | 'f' -> LFlag (nat_of_int (int_of_string (String.sub s 1 (String.length s - 1))))
  | 's' -> LSearch | 'x' -> LQuit | 'p' -> LParams | _ -> LPonder
let mutex_of s = match s.[0] with
  | 'q' -> MQ (nat_of_int (int_of_string (String.sub s 1 (String.length s - 1))))
  | 'f' -> MN (nat_of_int (int_of_string (String.sub s 1 (String.length s - 1))))
  | _ -> ME
let () =
  let evs = ref [] in
  (try while true do
    let line = input_line stdin in
    match List.filter (fun s -> s <> "") (String.split_on_char ' ' line) with
    | ["A"; t; l; w; a] -> evs := Acc (nat_of_int (int_of_string t), loc_of l, w = "1", a = "1") :: !evs
    | ["Q"; t; m] -> evs := Acq (nat_of_int (int_of_string t), mutex_of m) :: !evs
    | ["R"; t; m] -> evs := Rel (nat_of_int (int_of_string t), mutex_of m) :: !evs
    | _ -> ()
  done with End_of_file -> ());
  let tr = List.rev !evs in
  let n = List.length tr in
  let full = Array.length Sys.argv > 1 && Sys.argv.(1) = "--guarded" in
  Printf.printf "search=%b quit=%b params=%b guarded=%s events=%d\n"
    (raceb_on is_search tr) (raceb_on is_quit tr) (raceb_on is_params tr)
    (if full then string_of_bool (raceb_on guarded tr) else "skipped") n
