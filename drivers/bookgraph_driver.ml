(* OCaml driver for the extracted book-graph model and equation checker (C19).
   Reads the output of harness/bookgraph_harness.cpp on stdin: concrete operations are applied to
   the extracted model; every state dump ("S n k x" + the k changed node lines + x removed hashes:
   the complete state of all n nodes, nodes unchanged since the previous dump are not repeated) is
     (a) compared field by field with the model state, and
     (b) checked against the extracted defining equations (Equations.check_all) -- this part
         never looks at the model state.
   One result line per state dump:
     R <idx> <op> n=<nodes> M=<ok|description> E=<#failing equations> <hash:code:signature>* [flags]
   signature of a failing equation (computed from the previous and the current C++ state only):
     persist        the same equation of the same node already failed after the previous operation
     stale-own-nm   path error: held before, path errors unchanged, the node's own negamax score
                    changed, none of its parents changed (nm, path errors, parent set)
     uninit         the node is not in state INITIALIZED (only after a read of a file with a lost
                    record: unreachable nodes are never initialised)
     new            anything else
   Last line:  FIN ... statistics and the acyclicity certificate check.
   usage: bookgraph_driver <requeue:0|1> *)
open Bookgraph_model

let rec pos_of_int64 (x : int64) : positive =
  if Int64.equal x 1L then XH
  else if Int64.equal (Int64.logand x 1L) 0L then XO (pos_of_int64 (Int64.shift_right_logical x 1))
  else XI (pos_of_int64 (Int64.shift_right_logical x 1))
let n_of_int64 x = if Int64.equal x 0L then N0 else Npos (pos_of_int64 x)
let rec int64_of_pos = function
  | XH -> 1L
  | XO p -> Int64.shift_left (int64_of_pos p) 1
  | XI p -> Int64.logor (Int64.shift_left (int64_of_pos p) 1) 1L
let int64_of_n = function N0 -> 0L | Npos p -> int64_of_pos p
let n_of_string s = n_of_int64 (Int64.of_string ("0u" ^ s))
let string_of_n x = Printf.sprintf "%Lu" (int64_of_n x)
let z_of_int i =
  if i = 0 then Z0 else if i > 0 then Zpos (pos_of_int64 (Int64.of_int i)) else Zneg (pos_of_int64 (Int64.of_int (-i)))
let int_of_z = function Z0 -> 0 | Zpos p -> Int64.to_int (int64_of_pos p) | Zneg p -> - (Int64.to_int (int64_of_pos p))
let n_of_int i = n_of_int64 (Int64.of_int i)
let int_of_n x = Int64.to_int (int64_of_n x)
let rec nat_of_int n = if n <= 0 then O else S (nat_of_int (n - 1))

let ncache : (string, n) Hashtbl.t = Hashtbl.create 4096
let nstr s = match Hashtbl.find_opt ncache s with
  | Some v -> v
  | None -> let v = n_of_string s in Hashtbl.replace ncache s v; v

let split line = List.filter (fun s -> s <> "") (String.split_on_char ' ' line)

(* token cursor *)
type cur = { mutable toks : string list }
let next c = match c.toks with t :: r -> c.toks <- r; t | [] -> failwith "short line"
let next_int c = int_of_string (next c)
let next_n c = nstr (next c)
let pairs_mh c k = (* k times "move hash" -> (move, hash) *)
  let rec go k acc = if k = 0 then List.rev acc else
      let m = n_of_int (next_int c) in let h = next_n c in go (k - 1) ((m, h) :: acc) in
  go k []

let hex_to_bytes s =
  let n = String.length s / 2 in
  List.init n (fun i -> n_of_int (int_of_string ("0x" ^ String.sub s (2 * i) 2)))
let bytes_to_hex l = String.concat "" (List.map (fun b -> Printf.sprintf "%02x" (int_of_n b)) l)

(* ---- C++ state as a [book] value, maintained from the incremental dumps ---- *)
let update_state (prev : book) root pending (changed : string list) (removed : string list) : book =
  let im = ref prev.bk_info and cm = ref prev.bk_children and pm = ref prev.bk_parents
  and dm = ref prev.bk_depth and sm = ref prev.bk_sc in
  let newkeys = ref [] in
  List.iter (fun line ->
      let c = { toks = split line } in
      let h = next_n c in
      let d = z_of_int (next_int c) in
      let nm = z_of_int (next_int c) in let ecw = z_of_int (next_int c) in let ecb = z_of_int (next_int c) in
      let pew = z_of_int (next_int c) in let peb = z_of_int (next_int c) in
      let mv = n_of_int (next_int c) in let sc = z_of_int (next_int c) in
      let tm = nstr (next c) in let st = n_of_int (next_int c) in
      let nch = next_int c in let ch = pairs_mh c nch in
      let npar = next_int c in let pa = pairs_mh c npar in
      (match nget h !im with None -> newkeys := h :: !newkeys | Some _ -> ());
      im := nset h { ni_addr = N0; ni_move = mv; ni_score = sc; ni_time = tm; ni_state = st } !im;
      cm := nset h ch !cm; pm := nset h pa !pm; dm := nset h d !dm;
      sm := nset h { s_nm = nm; s_ecw = ecw; s_ecb = ecb; s_pew = pew; s_peb = peb } !sm) changed;
  let keys = !newkeys @ prev.bk_keys in
  if removed = [] then
    { bk_root = root; bk_keys = keys; bk_info = !im; bk_children = !cm; bk_parents = !pm; bk_depth = !dm;
      bk_sc = !sm; bk_pending = pending; bk_err = N0 }
  else begin
    (* nodes disappeared (only after a read of a damaged file): rebuild the maps without them *)
    let gone = List.map nstr removed in
    let keys = List.filter (fun k -> not (List.mem k gone)) keys in
    let pick m = List.fold_left (fun acc k -> match nget k m with Some v -> nset k v acc | None -> acc) nempty keys in
    { bk_root = root; bk_keys = keys; bk_info = pick !im; bk_children = pick !cm; bk_parents = pick !pm;
      bk_depth = pick !dm; bk_sc = pick !sm; bk_pending = pending; bk_err = N0 }
  end

let cmp_pair (m1, h1) (m2, h2) =
  let c = compare (int_of_n m1) (int_of_n m2) in
  if c <> 0 then c else Int64.unsigned_compare (int64_of_n h1) (int64_of_n h2)

let links_str l = String.concat "," (List.map (fun (m, h) -> string_of_int (int_of_n m) ^ ">" ^ string_of_n h) l)

(* first difference between model and C++ state, or None *)
let compare_states (m : book) (c : book) : string option =
  let ck = c.bk_keys in
  if List.length m.bk_keys <> List.length ck || List.exists (fun h -> not (has_node m h)) ck then
    Some (Printf.sprintf "keys:model=%d,cpp=%d" (List.length m.bk_keys) (List.length ck))
  else begin
    let res = ref None in
    let zi z = string_of_int (int_of_z z) in
    List.iter (fun h ->
        if !res = None then begin
          let bad name a b = if !res = None then
              res := Some (Printf.sprintf "node=%s,%s:model=%s,cpp=%s" (string_of_n h) name a b) in
          let fz name a b = if a <> b then bad name (zi a) (zi b) in
          let fn name a b = if a <> b then bad name (string_of_n a) (string_of_n b) in
          fz "depth" (depth m h) (depth c h);
          let sm = score_of m h and sc = score_of c h in
          fz "nm" sm.s_nm sc.s_nm; fz "ecw" sm.s_ecw sc.s_ecw; fz "ecb" sm.s_ecb sc.s_ecb;
          fz "pew" sm.s_pew sc.s_pew; fz "peb" sm.s_peb sc.s_peb;
          let im = info m h and ic = info c h in
          fn "move" im.ni_move ic.ni_move;
          fz "score" im.ni_score ic.ni_score;
          fn "time" im.ni_time ic.ni_time;
          fn "state" im.ni_state ic.ni_state;
          if children m h <> children c h then bad "children" (links_str (children m h)) (links_str (children c h));
          let pm = List.sort cmp_pair (parents m h) and pc = List.sort cmp_pair (parents c h) in
          if pm <> pc then bad "parents" (links_str pm) (links_str pc)
        end) ck;
    !res
  end

let () =
  if Array.length Sys.argv > 1 && Sys.argv.(1) = "negate" then begin
    (* the regenerated Gallina negateScore on all 16-bit values (translator self-validation) *)
    for s = -32768 to 32767 do Printf.printf "%d %d\n" s (int_of_z (negateScore (z_of_int s))) done;
    exit 0
  end;
  let requeue = Array.length Sys.argv > 1 && Sys.argv.(1) = "1" in
  let bd = ref { bd_depthCost = z_of_int 100; bd_ownCost = z_of_int 200; bd_otherCost = z_of_int 50 } in
  let model = ref (empty_book N0) in
  let root = ref N0 in
  let pending = ref [] in
  let prev : book option ref = ref None in
  let prev_fail : (string, unit) Hashtbl.t ref = ref (Hashtbl.create 16) in
  let idx = ref 0 in
  let opname = ref "?" in
  let flags = ref [] in
  let last_cpp = ref None in
  let tot_fail = ref 0 in
  (* links that chess dictates for the nodes touched by the current operation (from the harness'
     own move generation): (parent, move, child); checked against the C++ state, not the model *)
  let expect_links : (n * n * n) list ref = ref [] in
  let reload_check = ref false in
  let reloads = ref 0 in
  let apply o = model := apply_op requeue !bd !model o in
  (try
     while true do
       let line = input_line stdin in
       let c = { toks = split line } in
       match c.toks with
       | [] -> ()
       | k :: _ ->
         ignore (next c);
         (match k with
          | "NEW" ->
            let r = next_n c in let a = next_n c in
            let dc = next_int c in let oc = next_int c in let xc = next_int c in
            bd := { bd_depthCost = z_of_int dc; bd_ownCost = z_of_int oc; bd_otherCost = z_of_int xc };
            root := r; pending := []; prev := None; prev_fail := Hashtbl.create 16;
            model := newBook r a; opname := "NEW"
          | "ADD" ->
            let h = next_n c in let a = next_n c in
            let np = next_int c in
            (* harness prints parent links as "move parent" *)
            let pl = pairs_mh c np in
            let nc = next_int c in let cl = pairs_mh c nc in
            let nts = next_int c in
            let ts = List.init nts (fun _ -> string_of_n (next_n c)) in
            let expect = List.sort compare (string_of_n h :: List.map (fun (_, p) -> string_of_n p) pl) in
            if List.sort compare ts <> expect then flags := "toSearch-mismatch" :: !flags;
            expect_links := List.map (fun (m, p) -> (p, m, h)) pl @ List.map (fun (m, ch) -> (h, m, ch)) cl @ !expect_links;
            apply (OpAdd (h, a, pl, cl));
            opname := (if !opname = "ADD" || !opname = "IMPORT" then "IMPORT" else "ADD")
          | "SET" ->
            let h = next_n c in let mv = n_of_int (next_int c) in
            let s = z_of_int (next_int c) in let t = nstr (next c) in
            apply (OpSet (h, mv, s, t)); opname := "SET"
          | "PEND" -> let h = next_n c in
            if not (List.exists (fun x -> x = h) !pending) then pending := h :: !pending;
            apply (OpPend h); opname := "PEND"
          | "UNPEND" -> let h = next_n c in
            pending := List.filter (fun x -> x <> h) !pending;
            apply (OpUnpend h); opname := "UNPEND"
          | "WRITE" ->
            let n = next_int c in
            let recs = List.init n (fun _ -> next c) in
            let mine = List.sort compare (List.map bytes_to_hex (serializeBook !model)) in
            if mine <> List.sort compare recs then flags := "write-mismatch" :: !flags;
            opname := "WRITE"
          | "READ" ->
            let n = next_int c in
            let recs = List.init n (fun _ -> hex_to_bytes (next c)) in
            let na = next_int c in
            let addrs = List.init na (fun _ -> let h = next_n c in let a = next_n c in (h, a)) in
            let ns = next_int c in
            let succ = List.init ns (fun _ -> let h = next_n c in let k = next_int c in (h, pairs_mh c k)) in
            (* complete files (every node has a record) with no search pending: the reloaded state must
               equal the saved one on every per-node value (C19_reload_reproduces) *)
            let nprev = match !prev with Some p -> List.length p.bk_keys | None -> 0 in
            reload_check := (!pending = [] && na = nprev && List.length recs >= na);
            pending := [];
            (* complete files only: every successor link between two nodes of the file must exist *)
            if List.length recs = na then
              expect_links := List.concat (List.map (fun (h, l) -> List.map (fun (m, ch) -> (h, m, ch)) l) succ);
            apply (OpRead (recs, addrs, succ)); opname := "READ"
          | "NOP" -> opname := "NOP"
          | "G" -> if next c <> "ok" then flags := ("getPosition-bad:" ^ next c) :: !flags
          | "IMPORTMISMATCH" -> flags := "import-count-mismatch" :: !flags
          | "ERROR" -> flags := "harness-error" :: !flags
          | "S" ->
            let n = next_int c in
            let k = next_int c in let x = next_int c in
            let lines = List.init k (fun _ -> input_line stdin) in
            let removed = List.init x (fun _ -> String.trim (input_line stdin)) in
            let base = match !prev with Some p when !opname <> "NEW" -> p | _ -> empty_book !root in
            let cpp = update_state base !root !pending lines removed in
            if List.length cpp.bk_keys <> n then flags := "dump-count-mismatch" :: !flags;
            if !reload_check then begin
              reload_check := false; incr reloads;
              (match !prev with
               | Some p ->
                 (* the harness repeats only nodes whose text changed: after a faithful reload nothing is repeated *)
                 if k <> 0 || x <> 0 then begin
                   let same h =
                     has_node p h && depth p h = depth cpp h && score_of p h = score_of cpp h &&
                     (info p h).ni_move = (info cpp h).ni_move && (info p h).ni_score = (info cpp h).ni_score &&
                     (info p h).ni_time = (info cpp h).ni_time &&
                     children p h = children cpp h &&
                     List.sort cmp_pair (parents p h) = List.sort cmp_pair (parents cpp h) in
                   if not (List.for_all same cpp.bk_keys) then flags := "reload-differs-from-saved" :: !flags
                 end
               | None -> ())
            end;
            let m = if !model.bk_err <> N0 then Some ("modelerr=" ^ string_of_n !model.bk_err) else compare_states !model cpp in
            let missing = List.filter (fun (p, m, ch) ->
                not (List.exists (fun (m', c') -> m' = m && c' = ch) (children cpp p) &&
                     List.exists (fun (m', p') -> m' = m && p' = p) (parents cpp ch))) !expect_links in
            let missing = List.sort_uniq compare (List.map (fun (p, _, _) -> (p, n_of_int 7)) missing) in
            expect_links := [];
            let fails = check_all !bd cpp @ missing in
            let cur_fail = Hashtbl.create 16 in
            let descr = List.map (fun (h, code) ->
                let key = string_of_n h ^ ":" ^ string_of_n code in
                Hashtbl.replace cur_fail key ();
                let sg =
                  if Hashtbl.mem !prev_fail key then "persist"
                  else if int_of_n (info cpp h).ni_state <> 2 then "uninit"
                  else match !prev with
                    | Some p when int_of_n code = 4 && has_node p h ->
                      let a = score_of p h and b = score_of cpp h in
                      let pe_same = a.s_pew = b.s_pew && a.s_peb = b.s_peb in
                      let nm_changed = a.s_nm <> b.s_nm in
                      let pars = parents cpp h in
                      let par_changed =
                        List.sort cmp_pair (parents p h) <> List.sort cmp_pair pars ||
                        List.exists (fun (_, q) ->
                            let x = score_of p q and y = score_of cpp q in
                            x.s_nm <> y.s_nm || x.s_pew <> y.s_pew || x.s_peb <> y.s_peb) pars in
                      if pe_same && nm_changed && not par_changed then "stale-own-nm" else "new"
                    | _ -> "new" in
                key ^ ":" ^ sg) fails in
            tot_fail := !tot_fail + List.length fails;
            Printf.printf "R %d %s n=%d M=%s E=%d%s%s\n" !idx !opname n
              (match m with None -> "ok" | Some d -> d) (List.length fails)
              (String.concat "" (List.map (fun s -> " " ^ s) descr))
              (String.concat "" (List.map (fun s -> " !" ^ s) !flags));
            prev := Some cpp; prev_fail := cur_fail; last_cpp := Some cpp;
            incr idx; flags := []; opname := "?"
          | _ -> flags := ("unknown-line:" ^ k) :: !flags)
     done
   with End_of_file -> ());
  (match !last_cpp with
   | None -> print_endline "FIN empty"
   | Some g ->
     let multi = List.length (List.filter (fun h -> List.length (parents g h) >= 2) g.bk_keys) in
     let multidepth = List.length (List.filter (fun h ->
         match parents g h with
         | [] -> false
         | (_, p) :: r -> List.exists (fun (_, q) -> depth g q <> depth g p) r) g.bk_keys) in
     let maxd = List.fold_left (fun a h -> let d = int_of_z (depth g h) in if d < 1000000 && d > a then d else a) 0 g.bk_keys in
     let mates = List.length (List.filter (fun h -> abs (int_of_z (score_of g h).s_nm) > 16000 && abs (int_of_z (score_of g h).s_nm) <= 32000) g.bk_keys) in
     Printf.printf "FIN nodes=%d multiparent=%d multidepth=%d maxdepth=%d matenodes=%d acyclic=%d eqfail=%d reloads=%d\n"
       (List.length g.bk_keys) multi multidepth maxd mates (if acyclic_check g then 1 else 0) !tot_fail !reloads)
