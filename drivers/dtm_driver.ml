(* OCaml driver for the extracted C12 model (coq/TB/{DtmCert,MiniChess,Checker,Probe}.v).
   The table [T] handed to the extracted checker is a lookup into the dump written by
   harness/tbgen_harness.cpp (same index convention, see there):
       idx = side * 65^k + d0 * 65^(k-1) + ... + d(k-1)      side 0 = white to move
   entry = int16 LE: -32768 not a chess position, -32767 probeDTM said "not found", else score.
   Decoding of entries is the extracted [tlabel_of_answer] (Checker.v), nothing here. *)
open Dtm_model

let int_of_z (x : int) : int = x          (* ExtrOcamlZInt: Coq Z/N/positive are OCaml int *)
let z_of_int (x : int) : int = x
let rec nat_of_int n = if n <= 0 then O else S (nat_of_int (n - 1))
let rec int_of_nat = function O -> 0 | S n -> 1 + int_of_nat n

let parse_class (s : string) : (bool * kind) list =
  let white = ref true in
  let out = ref [] in
  String.iteri (fun i c ->
    if i > 0 && c = 'K' then white := false;
    let k = match c with
      | 'K' -> King | 'Q' -> Queen | 'R' -> Rook | 'B' -> Bishop | 'N' -> Knight
      | _ -> failwith "bad class" in
    out := (!white, k) :: !out) s;
  List.rev !out

let pow65 k = let r = ref 1 in for _ = 1 to k do r := !r * 65 done; !r

let read_dump path expect =
  let ic = open_in_bin path in
  let n = in_channel_length ic in
  if n <> 2 * expect then failwith (Printf.sprintf "dump %s has %d bytes, expected %d" path n (2 * expect));
  let b = Bytes.create n in
  really_input ic b 0 n;
  close_in ic;
  b

let raw (b : Bytes.t) (idx : int) : int = Bytes.get_int16_le b (2 * idx)

let tlabel_of_raw (r : int) : tlabel =
  tlabel_of_answer (r <> -32768) (r <> -32767 && r <> -32768) (z_of_int r)

let index_of k n65 (ds : int list) (w : bool) : int =
  ignore k;
  (if w then 0 else n65) + List.fold_left (fun a d -> a * 65 + int_of_z d) 0 ds

let table_of k n65 (b : Bytes.t) : int list -> bool -> tlabel =
  fun ds w -> tlabel_of_raw (raw b (index_of k n65 ds w))

let digits_of_index k r : int list =
  let rec go i r acc = if i = 0 then acc else go (i - 1) (r / 65) (z_of_int (r mod 65) :: acc) in
  go k r []

let string_of_label = function
  | Win n -> Printf.sprintf "Win %d" (int_of_nat n)
  | Loss n -> Printf.sprintf "Loss %d" (int_of_nat n)
  | Draw -> "Draw"
let string_of_tlabel = function
  | TL l -> string_of_label l | TNotFound -> "NotFound" | TUnrep -> "NotAPosition" | TBad -> "BadScore"

let sq_name d =
  let d = int_of_z d in
  if d = 64 then "--" else Printf.sprintf "%c%c" (Char.chr (97 + d mod 8)) (Char.chr (49 + d / 8))

let describe cname (ds : int list) (w : bool) =
  let buf = Buffer.create 32 in
  List.iteri (fun i d -> Buffer.add_string buf (Printf.sprintf "%c%s " cname.[i] (sq_name d))) ds;
  Buffer.add_string buf (if w then "w" else "b");
  Buffer.contents buf

let explain cname cls k n65 b idx =
  let w = idx < n65 in
  let ds = digits_of_index k (idx mod n65) in
  let t = table_of k n65 b in
  let p = pos_of ds w in
  Printf.printf "EXPLAIN idx=%d %s (class order: white men then black men) raw=%d engine=%s\n" idx (describe cname ds w)
    (raw b idx) (string_of_tlabel (t ds w));
  if not (wfb cls p) then Printf.printf "  not a chess position; expected NotAPosition\n"
  else if not (legalb cls p) then Printf.printf "  side not to move is in check (illegal); expected NotFound\n"
  else begin
    let cs = moves cls p in
    Printf.printf "  legal, in_check=%b, %d legal moves\n" (in_check cls p) (List.length cs);
    List.iter (fun c ->
      let cd = digits_of c in
      Printf.printf "    -> %s idx=%d engine=%s\n" (describe cname cd c.wtm) (index_of k n65 cd c.wtm)
        (string_of_tlabel (t cd c.wtm))) cs;
    Printf.printf "  expected from the children's labels: %s\n"
      (string_of_label (expected (moves cls) (in_check cls) (lab t) p))
  end

(* ---------- independent solver on the MiniChess rules (finder / reference) ---------- *)
let solve cls k n65 : int array =
  (* value codes: 0 draw/unknown, 1000+n win n, -1000-n loss n, min_int not legal, min_int+1 not a position *)
  let n = 2 * n65 in
  let v = Array.make n min_int in
  let cstart = Array.make (n + 1) 0 in
  let children = Buffer.create (1 lsl 20) in
  let nedges = ref 0 in
  for idx = 0 to n - 1 do
    cstart.(idx) <- !nedges;
    let w = idx < n65 in
    let ds = digits_of_index k (idx mod n65) in
    let p = pos_of ds w in
    if not (wfb cls p) then v.(idx) <- min_int + 1
    else if legalb cls p then begin
      let cs = moves cls p in
      List.iter (fun c -> Buffer.add_int32_le children (Int32.of_int (index_of k n65 (digits_of c) c.wtm)); incr nedges) cs;
      if cs = [] then v.(idx) <- (if in_check cls p then -1000 else 0) else v.(idx) <- 0
    end
  done;
  cstart.(n) <- !nedges;
  let cb = Buffer.to_bytes children in
  let child e = Int32.to_int (Bytes.get_int32_le cb (4 * e)) in
  (* layer by layer: Win n needs a child Loss (n-1); Loss n needs all children Win (<= n) *)
  let changed = ref true in
  let layer = ref 1 in
  while !changed do
    changed := false;
    let nl = !layer in
    (* wins in nl *)
    for idx = 0 to n - 1 do
      if v.(idx) = 0 && cstart.(idx + 1) > cstart.(idx) then begin
        let hit = ref false in
        for e = cstart.(idx) to cstart.(idx + 1) - 1 do
          if v.(child e) = -1000 - (nl - 1) then hit := true
        done;
        if !hit then (v.(idx) <- 1000 + nl; changed := true)
      end
    done;
    (* losses in nl *)
    let newloss = ref [] in
    for idx = 0 to n - 1 do
      if v.(idx) = 0 && cstart.(idx + 1) > cstart.(idx) then begin
        let all = ref true in
        for e = cstart.(idx) to cstart.(idx + 1) - 1 do
          let c = v.(child e) in
          if not (c >= 1001 && c <= 1000 + nl) then all := false
        done;
        if !all then newloss := idx :: !newloss
      end
    done;
    List.iter (fun idx -> v.(idx) <- -1000 - nl; changed := true) !newloss;
    incr layer
  done;
  v

let label_of_code c = if c >= 1001 then Some (Win (nat_of_int (c - 1000)))
  else if c <= -1000 && c > min_int + 1 then Some (Loss (nat_of_int (-1000 - c)))
  else if c = 0 then Some Draw else None

let () =
  let a = Sys.argv in
  let mode = a.(1) in
  match mode with
  | "check" ->
      (* check CLASS DUMP LO HI : placements whose first digit is in [LO,HI) *)
      let cname = a.(2) in
      let cls = parse_class cname in
      let k = List.length cls in
      let n65 = pow65 k in
      let b = read_dump a.(3) (2 * n65) in
      let lo = int_of_string a.(4) and hi = int_of_string a.(5) in
      let t = table_of k n65 b in
      let t0 = Sys.time () in
      let allok = ref true in
      for d = lo to hi - 1 do
        let ok = check_prefix cls t [z_of_int d] in
        if not ok then begin
          allok := false;
          (* locate the first failing placement for the replay *)
          let sub = n65 / 65 in
          (try
             for r = d * sub to (d + 1) * sub - 1 do
               let ds = digits_of_index k r in
               List.iter (fun w ->
                 if not (check_pos cls t ds w) then begin
                   let idx = index_of k n65 ds w in
                   Printf.printf "FAIL %d\n" idx;
                   explain cname cls k n65 b idx;
                   raise Exit
                 end) [true; false]
             done
           with Exit -> ())
        end
      done;
      Printf.printf "CHECK %s first_digit=[%d,%d) placements=%d ok=%b secs=%.2f\n" cname lo hi
        ((hi - lo) * (n65 / 65) * 2) !allok (Sys.time () -. t0)
  | "slice" ->
      (* slice CLASS DUMP SEED N : N random placements, children looked up in the dump *)
      let cname = a.(2) in
      let cls = parse_class cname in
      let k = List.length cls in
      let n65 = pow65 k in
      let b = read_dump a.(3) (2 * n65) in
      Random.init (int_of_string a.(4));
      let n = int_of_string a.(5) in
      let t = table_of k n65 b in
      let t0 = Sys.time () in
      let bad = ref 0 and legal = ref 0 and illegal = ref 0 and unrep = ref 0 and nchildren = ref 0 in
      let hist = Hashtbl.create 64 in
      for _ = 1 to n do
        let idx = Random.int (2 * n65) in
        let w = idx < n65 in
        let ds = digits_of_index k (idx mod n65) in
        let p = pos_of ds w in
        if legalb cls p then begin
          incr legal; nchildren := !nchildren + List.length (moves cls p);
          let key = string_of_tlabel (t ds w) in
          Hashtbl.replace hist key (1 + try Hashtbl.find hist key with Not_found -> 0)
        end
        else if wfb cls p then incr illegal else incr unrep;
        if not (check_pos cls t ds w) then begin
          incr bad;
          if !bad <= 3 then (Printf.printf "FAIL %d\n" idx; explain cname cls k n65 b idx)
        end
      done;
      let hs = Hashtbl.fold (fun key c acc -> Printf.sprintf "%s=%d" key c :: acc) hist [] in
      Printf.printf "SLICE %s n=%d legal=%d illegal=%d notaposition=%d children=%d bad=%d secs=%.2f labels: %s\n" cname n
        !legal !illegal !unrep !nchildren !bad (Sys.time () -. t0) (String.concat " " (List.sort compare hs))
  | "ply" ->
      (* ply CLASS DUMP : stdin lines "PLY idx ply found score": the same position probed at
         another ply must give score_of_label ply (label at ply 0) *)
      let cname = a.(2) in
      let cls = parse_class cname in
      let k = List.length cls in
      let n65 = pow65 k in
      let b = read_dump a.(3) (2 * n65) in
      let n = ref 0 and bad = ref 0 and wins = ref 0 and losses = ref 0 in
      (try
         while true do
           let line = input_line stdin in
           match String.split_on_char ' ' line with
           | ["PLY"; idx; ply; found; score] ->
               let idx = int_of_string idx and ply = int_of_string ply and found = found = "1"
               and score = int_of_string score in
               incr n;
               let ok = match tlabel_of_raw (raw b idx) with
                 | TL l ->
                     (match l with Win _ -> incr wins | Loss _ -> incr losses | Draw -> ());
                     found && int_of_z (score_of_label (z_of_int ply) l) = score
                 | TNotFound -> not found
                 | _ -> false in
               if not ok then begin
                 incr bad;
                 if !bad <= 3 then Printf.printf "PLYFAIL idx=%d ply=%d found=%b score=%d ply0=%s\n" idx ply found score
                     (string_of_tlabel (tlabel_of_raw (raw b idx)))
               end
           | _ -> ()
         done
       with End_of_file -> ());
      Printf.printf "PLYCHECK %s n=%d wins=%d losses=%d bad=%d\n" cname !n !wins !losses !bad
  | "stats" ->
      let cname = a.(2) in
      let cls = parse_class cname in
      let k = List.length cls in
      let n65 = pow65 k in
      let b = read_dump a.(3) (2 * n65) in
      let maxw = ref 0 and maxl = ref 0 and nw = ref 0 and nl = ref 0 and nd = ref 0 and nf = ref 0 and nu = ref 0 and nb = ref 0 in
      for idx = 0 to 2 * n65 - 1 do
        match tlabel_of_raw (raw b idx) with
        | TL (Win n) -> incr nw; maxw := max !maxw (int_of_nat n)
        | TL (Loss n) -> incr nl; maxl := max !maxl (int_of_nat n)
        | TL Draw -> incr nd
        | TNotFound -> incr nf
        | TUnrep -> incr nu
        | TBad -> incr nb
      done;
      Printf.printf "STATS %s win=%d loss=%d draw=%d notfound=%d notaposition=%d badscore=%d max_win=%d max_loss=%d\n"
        cname !nw !nl !nd !nf !nu !nb !maxw !maxl
  | "solve" ->
      (* solve CLASS OUT : reference dump computed from the MiniChess rules alone *)
      let cname = a.(2) in
      let cls = parse_class cname in
      let k = List.length cls in
      let n65 = pow65 k in
      let t0 = Sys.time () in
      let v = solve cls k n65 in
      let out = Bytes.create (4 * n65) in
      Array.iteri (fun idx c ->
        let r = if c = min_int + 1 then -32768 else if c = min_int then -32767
          else match label_of_code c with
            | Some l -> int_of_z (score_of_label (z_of_int 0) l)
            | None -> -32767 in
        Bytes.set_int16_le out (2 * idx) r) v;
      let oc = open_out_bin a.(3) in
      output_bytes oc out; close_out oc;
      Printf.printf "SOLVED %s secs=%.2f\n" cname (Sys.time () -. t0)
  | "rules" ->
      (* rules CLASS : stdin "RULES idx illegal" | "RULES idx incheck succ..." from the engine's
         MoveGen; the MiniChess rules must say the same *)
      let cname = a.(2) in
      let cls = parse_class cname in
      let k = List.length cls in
      let n65 = pow65 k in
      let n = ref 0 and bad = ref 0 and nmoves = ref 0 and nillegal = ref 0 and ncheck = ref 0 in
      (try
         while true do
           let line = input_line stdin in
           match String.split_on_char ' ' (String.trim line) with
           | "RULES" :: idx :: rest ->
               let idx = int_of_string idx in
               incr n;
               let w = idx < n65 in
               let ds = digits_of_index k (idx mod n65) in
               let p = pos_of ds w in
               let ok =
                 match rest with
                 | ["illegal"] -> incr nillegal; wfb cls p && not (legalb cls p)
                 | chk :: succ ->
                     let succ = List.map int_of_string succ in
                     let mine = List.sort compare (List.map (fun c -> index_of k n65 (digits_of c) c.wtm) (moves cls p)) in
                     nmoves := !nmoves + List.length succ;
                     if chk = "1" then incr ncheck;
                     legalb cls p && in_check cls p = (chk = "1") && mine = succ
                 | [] -> false in
               if not ok then begin
                 incr bad;
                 if !bad <= 3 then Printf.printf "RULESFAIL %s engine: %s\n" (describe cname ds w) line
               end
           | _ -> ()
         done
       with End_of_file -> ());
      Printf.printf "RULESCHECK %s n=%d illegal=%d incheck=%d moves=%d bad=%d\n" cname !n !nillegal !ncheck !nmoves !bad
  | "failures" ->
      (* failures CLASS DUMP LO HI : every placement with first digit in [LO,HI) that fails check_pos *)
      let cname = a.(2) in
      let cls = parse_class cname in
      let k = List.length cls in
      let n65 = pow65 k in
      let b = read_dump a.(3) (2 * n65) in
      let lo = int_of_string a.(4) and hi = int_of_string a.(5) in
      let t = table_of k n65 b in
      let sub = n65 / 65 in
      let nbad = ref 0 in
      for r = lo * sub to hi * sub - 1 do
        let ds = digits_of_index k r in
        List.iter (fun w ->
          if not (check_pos cls t ds w) then begin
            incr nbad;
            let idx = index_of k n65 ds w in
            Printf.printf "BAD %d %s engine=%s\n" idx (describe cname ds w) (string_of_tlabel (t ds w))
          end) [true; false]
      done;
      Printf.printf "FAILURES %s first_digit=[%d,%d) bad=%d\n" cname lo hi !nbad
  | "points" ->
      (* points CLASS DUMP : stdin = dump indices (corpus of past failures); check_pos at each *)
      let cname = a.(2) in
      let cls = parse_class cname in
      let k = List.length cls in
      let n65 = pow65 k in
      let b = read_dump a.(3) (2 * n65) in
      let t = table_of k n65 b in
      let n = ref 0 and bad = ref 0 in
      (try
         while true do
           let line = String.trim (input_line stdin) in
           if line <> "" then begin
             let idx = int_of_string line in
             incr n;
             let ds = digits_of_index k (idx mod n65) in
             if not (check_pos cls t ds (idx < n65)) then begin
               incr bad;
               Printf.printf "FAIL %d\n" idx;
               explain cname cls k n65 b idx
             end
           end
         done
       with End_of_file -> ());
      Printf.printf "POINTS %s n=%d bad=%d\n" cname !n !bad
  | "explain" ->
      let cname = a.(2) in
      let cls = parse_class cname in
      let k = List.length cls in
      let n65 = pow65 k in
      let b = read_dump a.(3) (2 * n65) in
      explain cname cls k n65 b (int_of_string a.(4))
  | "probe" ->
      (* stdin: "U c pre enough ok|aPHASE" | "X" | "C" | "H" | "P c"; prints per line the prediction
         of the three variants of Probe.v (Current | Fixed | KeepOld), each as
         "ret installed_class(-1 = none) unsound_read" *)
      let ops = ref [] in
      (try
         while true do
           let line = input_line stdin in
           match String.split_on_char ' ' (String.trim line) with
           | ["U"; c; pre; enough; out] ->
               let o = if out = "ok" then GenOk
                 else GenAborted (nat_of_int (int_of_string (String.sub out 1 (String.length out - 1)))) in
               ops := OUpdate (nat_of_int (int_of_string c), pre = "1", enough = "1", o) :: !ops
           | ["X"] -> ops := OUnsuitable :: !ops
           | ["C"] -> ops := OClear :: !ops
           | ["H"] -> ops := OHash :: !ops
           | ["P"; c] -> ops := OProbe (nat_of_int (int_of_string c)) :: !ops
           | _ -> ()
         done
       with End_of_file -> ());
      let ops = List.rev !ops in
      let run v = prun Nat.eqb v pinit ops in
      let rc = run Current and rf = run Fixed and rk = run KeepOld in
      let b x = if x then 1 else 0 in
      let g = function Some c -> int_of_nat c | None -> -1 in
      let rec go a b' c = match a, b', c with
        | ((r1, i1), p1) :: ta, ((r2, i2), p2) :: tb, ((r3, i3), p3) :: tc ->
            Printf.printf "%d %d %d | %d %d %d | %d %d %d\n" (b r1) (g i1) (b p1) (b r2) (g i2) (b p2) (b r3) (g i3) (b p3);
            go ta tb tc
        | _ -> () in
      go rc rf rk
  | _ -> failwith "bad mode"
