(* OCaml driver for the extracted C14 model: same op stream as `persist_harness ops`
   (harness/persist_harness.cpp); prints one line per DUMP / DUMPF / PRB op.
   usage: persist_driver <g> <e> <k> <t> <l>   (the Variant booleans decided by the DETECT op) *)
open Persist_model

(* ---- numbers: 64-bit values travel as unsigned decimal strings ---- *)
let rec pos_of_int64 (x : int64) : positive =
  (* x <> 0, treated as unsigned *)
  let lo = Int64.logand x 1L = 1L in
  let hi = Int64.shift_right_logical x 1 in
  if hi = 0L then XH else if lo then XI (pos_of_int64 hi) else XO (pos_of_int64 hi)
let n_of_int64 (x : int64) : n = if x = 0L then N0 else Npos (pos_of_int64 x)
let n_of_string (s : string) : n = n_of_int64 (Int64.of_string ("0u" ^ s))
let n_of_int (i : int) : n = n_of_int64 (Int64.of_int i)
let z_of_int (i : int) : z =
  if i = 0 then Z0 else if i > 0 then Zpos (pos_of_int64 (Int64.of_int i)) else Zneg (pos_of_int64 (Int64.of_int (- i)))
let rec int64_of_pos = function
  | XH -> 1L
  | XO p -> Int64.shift_left (int64_of_pos p) 1
  | XI p -> Int64.logor (Int64.shift_left (int64_of_pos p) 1) 1L
let int64_of_n = function N0 -> 0L | Npos p -> int64_of_pos p
let str_n (x : n) : string = Printf.sprintf "%Lu" (int64_of_n x)
let str_z = function Z0 -> "0" | Zpos p -> Printf.sprintf "%Lu" (int64_of_pos p) | Zneg p -> "-" ^ Printf.sprintf "%Lu" (int64_of_pos p)
let b01 b = if b then "1" else "0"
let z_of_string s = z_of_int (int_of_string s)

let tokens line = List.filter (fun s -> s <> "") (String.split_on_char ' ' line)

let opt_of_name (name : string) : opt =
  match String.lowercase_ascii name with
  | "hash" -> OHash
  | "contempt" -> OContempt
  | "uci_analysemode" -> OAnalyseMode
  | "analyzecontempt" -> OAnalyzeContempt
  | "analysisagehash" -> OAnalysisAgeHash
  | "autocontempt" -> OAutoContempt
  | "strength" -> OStrength
  | "uci_limitstrength" -> OLimitStrength
  | s -> OOther (n_of_int (Hashtbl.hash s land 0xffffff))

let value_of (v : string) : z =
  match String.lowercase_ascii v with "true" -> z_of_int 1 | "false" -> z_of_int 0 | s -> z_of_string s

let entry_is_empty (e : entry) =
  e.e_key = N0 && e.e_move = N0 && e.e_score = N0 && e.e_depth = N0 && not e.e_busy && e.e_gen = N0
  && e.e_type = N0 && e.e_eval = N0

let str_entry (e : entry) =
  String.concat ":" [str_n e.e_key; str_n e.e_move; str_n e.e_score; str_n e.e_depth; b01 e.e_busy;
                     str_n e.e_gen; str_n e.e_type; str_n e.e_eval]

let sorted l = List.sort (fun (a, _) (b, _) -> compare (int64_of_n a) (int64_of_n b)) l

(* parameters of a `go ...` line (the text after the second '|') *)
let go_params (txt : string) : goParams =
  let t = Array.of_list (tokens txt) in
  let n = Array.length t in
  let num key = let r = ref 0 in Array.iteri (fun i x -> if x = key && i + 1 < n then r := int_of_string t.(i + 1)) t; !r in
  let has key = Array.exists (fun x -> x = key) t in
  let keywords = ["searchmoves"; "ponder"; "wtime"; "btime"; "winc"; "binc"; "movestogo"; "depth"; "nodes"; "mate"; "movetime"; "infinite"] in
  let sm = ref [] and ins = ref false in
  Array.iter (fun x -> if x = "searchmoves" then ins := true
                       else if List.mem x keywords then ins := false
                       else if !ins then sm := n_of_int (Hashtbl.hash x land 0xffff) :: !sm) t;
  { g_depth = z_of_int (num "depth"); g_mate = z_of_int (num "mate"); g_nodes = z_of_int (num "nodes");
    g_movetime = z_of_int (num "movetime"); g_clock = None; g_infinite = has "infinite"; g_ponder = has "ponder";
    g_searchmoves = List.rev !sm }

let rec list_len = function [] -> 0 | _ :: r -> 1 + list_len r

let limits (s : state) : string =
  match s.st_limits with
  | None -> " lim=?"
  | Some l -> Printf.sprintf " lim=%s,%s,%s,%s,%s,%d" (str_z l.l_minTime) (str_z l.l_maxTime) (str_z l.l_earlyStop)
                (str_z l.l_maxDepth) (str_z l.l_maxNodes) (list_len l.l_searchMoves)

let frame (s : state) : string =
  let t = s.st_tt and o = s.st_opts in
  (fun x -> x ^ limits s) @@
  Printf.sprintf "gen=%s tsize=%s used=%s tb=%s nuc=%s ch=%s chash=%s seed0=%s opts=%s,%s,%s,%s,%s,%s,%s,%s"
    (str_n t.generation) (str_n t.tableSize) (str_n t.usedSize)
    (match t.tbResident with None -> "0" | Some _ -> "1") (str_z t.notUsedCnt) (b01 s.st_clearHistory)
    (str_n t.contemptHash) (b01 (s.st_randomSeed = N0))
    (str_n o.o_hashMB) (str_z o.o_contempt) (b01 o.o_analyseMode) (str_z o.o_analyzeContempt)
    (b01 o.o_analysisAgeHash) (b01 o.o_autoContempt) (str_z o.o_strength) (b01 o.o_limitStrength)

let tt_items s = List.filter (fun (_, e) -> not (entry_is_empty e)) (sorted s.st_tt.slots)
let hist_items s = List.filter (fun (_, (a, b)) -> not (a = N0 && b = N0)) (sorted s.st_hist)
let kt_items s = List.filter (fun (_, (a, b)) -> not (a = N0 && b = N0)) (sorted s.st_killers)
let ev_items s = List.filter (fun (_, (d, _)) -> d <> eval_default) (sorted s.st_evalCache)

let content (s : state) : string =
  let t = String.concat "" (List.map (fun (i, e) -> " " ^ str_n i ^ ":" ^ str_entry e) (tt_items s)) in
  let h = String.concat "" (List.map (fun (i, (a, b)) -> " " ^ str_n i ^ ":" ^ str_n a ^ ":" ^ str_n b) (hist_items s)) in
  let k = String.concat "" (List.map (fun (i, (a, b)) -> " " ^ str_n i ^ ":" ^ str_n a ^ ":" ^ str_n b) (kt_items s)) in
  let e = String.concat "" (List.map (fun (i, (d, _)) -> " " ^ str_n i ^ ":" ^ str_n d) (ev_items s)) in
  " | T" ^ t ^ " | H" ^ h ^ " | K" ^ k ^ " | E" ^ e

let () =
  let flag i = Array.length Sys.argv > i && Sys.argv.(i) = "1" in
  let v = { clear_resets_generation = flag 1; clear_clears_evalcache = flag 2; evalkey_has_contempt = flag 3;
            tbabort_drops_tb = flag 4; go_resets_limits = flag 5 } in
  let st = ref fresh in
  let do_cmd c = st := step v ex_oracle !st c in
  let write w = st := apply_write Z0 !st w in
  let set_tt t = st := { !st with st_tt = t } in
  (try
     while true do
       let line = input_line stdin in
       match tokens line with
       | [] -> ()
       | k :: _ when String.length k > 0 && k.[0] = '#' -> ()
       | ["RESET"] -> st := fresh
       | "UCI" :: "setoption" :: "name" :: "Clear" :: "Hash" :: _ -> do_cmd ClearHash
       | ["UCI"; "setoption"; "name"; name; "value"; value] -> do_cmd (SetOption (opt_of_name name, value_of value))
       | ["UCI"; "ucinewgame"] -> do_cmd (UciNewGame (n_of_int 1))
       | "GO" :: _mode :: _wait :: white :: limited :: infinite :: tbkind :: maxt :: _ ->
           let gotxt = let i = String.rindex line '|' in String.sub line (i + 1) (String.length line - i - 1) in
           let c = { sc_text = n_of_int 0; sc_white = white = "1"; sc_limited = limited = "1";
                     sc_infinite = infinite = "1";
                     sc_tbkind = (if tbkind = "-1" then None else Some (n_of_string tbkind));
                     sc_maxTime = z_of_string maxt; sc_go = go_params gotxt } in
           do_cmd (Search (c, N0, true, Z0))
       | ["NEXTGEN"] -> set_tt (tt_nextGeneration !st.st_tt)
       | ["RESIZE"; n] -> set_tt (tt_resize v.clear_resets_generation !st.st_tt (n_of_string n))
       | ["WC"; c] -> set_tt (tt_setWhiteContempt !st.st_tt (z_of_string c))
       | ["TTCLEAR"] -> set_tt (tt_clear v.clear_resets_generation !st.st_tt)
       | ["INS"; key; mv; score; ty; ply; depth; ev; busy] ->
           write (WInsert (n_of_string key, n_of_string mv, z_of_string score, n_of_string ty, z_of_string ply,
                           z_of_string depth, z_of_string ev, busy <> "0"))
       | ["PRB"; key] ->
           let (t, r) = tt_probe !st.st_tt (n_of_string key) in
           set_tt t;
           (match r with
            | None -> print_endline "P none"
            | Some e -> if entry_is_empty e then print_endline "P none" else print_endline ("P " ^ str_entry e))
       | ["HS"; p; sq; d] -> write (WHistSuccess (n_of_string p, n_of_string sq, z_of_string d))
       | ["HF"; p; sq; d] -> write (WHistFail (n_of_string p, n_of_string sq, z_of_string d))
       | ["HRESCALE"] -> st := { !st with st_hist = hist_reScale !st.st_hist }
       | ["HINIT"] -> st := { !st with st_hist = hist_init }
       | ["KA"; ply; mv] -> write (WKiller (z_of_string ply, n_of_string mv))
       | ["KCLEAR"] -> st := { !st with st_killers = killers_clear }
       | ["EV"; idx; data] -> write (WEval (n_of_string idx, n_of_string data))
       | "UPDTB" :: maxt :: kind :: _ ->
           let (t, rt) = tt_updateTB v.tbabort_drops_tb !st.st_tt !st.st_requiredTime
                           (if kind = "-1" then None else Some (n_of_string kind)) (z_of_string maxt) true Z0 in
           st := { !st with st_tt = t; st_requiredTime = rt }
       | "UPDTBA" :: kind :: _ ->
           let (t, rt) = tt_updateTB v.tbabort_drops_tb !st.st_tt !st.st_requiredTime
                           (Some (n_of_string kind)) (z_of_int (-1)) false Z0 in
           st := { !st with st_tt = t; st_requiredTime = rt }
       | ["DUMP"] -> print_endline (frame !st ^ content !st)
       | ["DUMPF"] ->
           print_endline (frame !st ^ " empty=" ^ b01 (tt_items !st = []) ^ b01 (hist_items !st = [])
                          ^ b01 (kt_items !st = []) ^ b01 (ev_items !st = []))
       | _ -> prerr_endline ("bad op: " ^ line); exit 3
     done
   with End_of_file -> ())
