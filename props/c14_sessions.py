"""C14 end-to-end part: UCI session generation, engine driver, canonicaliser, pair runner,
delta-debugging of prior sessions.  Used by props/c14.py (kept separate only for size).

A *session* is a list of steps (JSON-serialisable dicts):
  {"k":"opt","name":N,"value":V}          setoption name N value V   (+ isready/readyok)
  {"k":"newgame"}                         ucinewgame                 (+ isready/readyok)
  {"k":"clear"}                           setoption name Clear Hash  (+ isready/readyok)
  {"k":"go","pos":P,"go":G,"mode":M,"wait":ms,"probe":bool}
        position P ; go G ; M = "wait" (wait for bestmove) | "stop" (sleep wait ms, stop)
        | "ponderhit" (sleep, ponderhit, then wait; a final stop guards against F8)
        | "ponderstop" (sleep, stop)
"""
import json
import os
import re
import select
import subprocess
import time

# option name -> (default, alternatives used for change+revert steps)
OPTIONS = {
    "Hash": ("16", ["1", "2", "4", "8", "32"]),
    "Contempt": ("0", ["-60", "-25", "25", "40", "150"]),
    "MultiPV": ("1", ["2", "3", "5"]),
    "UseNullMove": ("true", ["false"]),
    "Strength": ("1000", ["0", "300", "700", "999"]),
    "UCI_AnalyseMode": ("false", ["true"]),
    "AnalyzeContempt": ("0", ["30", "-45"]),
    "AnalysisAgeHash": ("true", ["false"]),
    "Ponder": ("false", ["true"]),
    "OwnBook": ("false", ["true"]),
    "MinProbeDepth": ("1", ["0", "3"]),
    "UCI_LimitStrength": ("false", ["true"]),
    "UCI_Elo": ("1500", ["800", "2500"]),
    "MaxNPS": ("0", ["200000"]),
    "AutoContempt": ("false", ["true"]),
    "UCI_Opponent": ("", ["GM 2800 computer Stockfish"]),
    "Threads": ("1", ["2", "3"]),
}
CONTEMPT_OPTS = ("Contempt", "UCI_AnalyseMode", "AnalyzeContempt", "AutoContempt")


class EngineError(Exception):
    pass


class Engine:
    def __init__(self, exe, vclock=True):
        # hook H1 (TEXEL_VERIF builds): the engine's clock is driven by searched nodes (100 per ms),
        # so time-limited prior searches (movetime, clocks, ponderhit) do the same work on every run
        # and under any machine load; only `stop` after `go infinite` / `go ponder` stays wall-clock
        env = dict(os.environ)
        if vclock:
            env.setdefault("TEXEL_VERIF_VCLOCK", "100")
        else:
            env.pop("TEXEL_VERIF_VCLOCK", None)
        self.p = subprocess.Popen([exe], stdin=subprocess.PIPE, stdout=subprocess.PIPE,
                                  stderr=subprocess.PIPE, bufsize=0, env=env)
        self.buf = b""
        self.send("uci")
        self.read_until("uciok", 30)

    def send(self, line):
        try:
            self.p.stdin.write((line + "\n").encode())
            self.p.stdin.flush()
        except (BrokenPipeError, OSError):
            raise EngineError("engine died before %r (rc=%s)" % (line, self.p.poll()))

    def readline(self, deadline):
        while b"\n" not in self.buf:
            left = deadline - time.time()
            if left <= 0:
                raise EngineError("timeout")
            r, _, _ = select.select([self.p.stdout], [], [], min(left, 1.0))
            if r:
                chunk = os.read(self.p.stdout.fileno(), 65536)
                if not chunk:
                    try:
                        self.p.wait(timeout=5)
                        err = self.p.stderr.read().decode(errors="replace")[-800:]
                    except Exception:
                        err = ""
                    raise EngineError("engine closed stdout (rc=%s) stderr: %s" % (self.p.poll(), err))
                self.buf += chunk
        line, self.buf = self.buf.split(b"\n", 1)
        return line.decode(errors="replace").rstrip("\r")

    def read_until(self, prefix, timeout):
        deadline = time.time() + timeout
        out = []
        while True:
            l = self.readline(deadline)
            out.append(l)
            if l.startswith(prefix):
                return out

    def ready(self, timeout=120):
        self.send("isready")
        self.read_until("readyok", timeout)

    def close(self):
        try:
            self.send("quit")
            self.p.wait(timeout=5)
        except Exception:
            pass
        if self.p.poll() is None:
            self.p.kill()
            self.p.wait()
        for f in (self.p.stdin, self.p.stdout, self.p.stderr):
            try:
                f.close()
            except Exception:
                pass


_PV_RE = re.compile(r"^info depth (\d+) score (cp|mate) (-?\d+)( upperbound| lowerbound)? time \d+ nodes (\d+) nps \d+( tbhits \d+)?( multipv \d+)? pv(.*)$")


def canonicalise(lines):
    """Observable result of one search without wall-clock fields.  `info currmove` lines (only
    printed after one second) and the periodic `info nodes` lines (once per second) are
    dropped; the final `info nodes` line keeps its node and tbhits counts."""
    out = []
    last_stats = None
    for l in lines:
        if l.startswith("info currmove"):
            continue
        m = _PV_RE.match(l)
        if m:
            out.append("pv d=%s %s=%s%s nodes=%s%s%s pv=%s" % (m.group(1), m.group(2), m.group(3), (m.group(4) or "").strip() and " " + m.group(4).strip(),
                                                              m.group(5), m.group(6) or "", m.group(7) or "", m.group(8).strip()))
            continue
        if l.startswith("info nodes"):
            t = l.split()
            s = "final nodes=%s" % t[2]
            if "tbhits" in t:
                s += " tbhits=%s" % t[t.index("tbhits") + 1]
            last_stats = s
            continue
        if l.startswith("info depth"):
            out.append(l)
            continue
        if l.startswith("bestmove"):
            if last_stats:
                out.append(last_stats)
            out.append(l)
            continue
        out.append(l)          # info string ... and anything unexpected stays visible
    return out


def run_session(exe, steps, search_timeout=120):
    """Run the steps in one engine process; return list of canonicalised outputs of the probe
    searches (in order)."""
    # throttled searches (MaxNPS, UCI_LimitStrength) sleep in real time until nodes/time drops below
    # the limit: under the node-driven clock that never happens, so such sessions use the wall clock
    throttled = any(st["k"] == "opt" and ((st["name"] == "MaxNPS" and st["value"] != "0") or
                                          (st["name"] == "UCI_LimitStrength" and st["value"] == "true")) for st in steps)
    eng = Engine(exe, vclock=not throttled)
    probes = []
    cur = None
    try:
        for si, st in enumerate(steps):
            cur = (si, st)
            k = st["k"]
            if k == "opt":
                if st["value"] == "":
                    eng.send("setoption name %s value <empty>" % st["name"])
                else:
                    eng.send("setoption name %s value %s" % (st["name"], st["value"]))
                eng.ready()
            elif k == "newgame":
                eng.send("ucinewgame")
                eng.ready()
            elif k == "clear":
                eng.send("setoption name Clear Hash")
                eng.ready()
            elif k == "go":
                eng.send("position " + st["pos"])
                eng.send("go " + st["go"])
                mode = st.get("mode", "wait")
                if mode == "wait":
                    lines = eng.read_until("bestmove", search_timeout)
                elif mode == "stop_after_info":
                    # `go infinite` that must not be stopped before the search proper has begun (the
                    # on-demand tablebase is generated before the first `info depth` line): no fixed wait
                    lines = eng.read_until("info depth", search_timeout)
                    eng.send("stop")
                    lines += eng.read_until("bestmove", search_timeout)
                else:
                    time.sleep(st.get("wait", 20) / 1000.0)
                    if mode == "ponderhit":
                        eng.send("ponderhit")
                        try:
                            lines = eng.read_until("bestmove", st.get("hit_wait", 1500) / 1000.0)
                        except EngineError as ex:
                            if str(ex) != "timeout":
                                raise
                            eng.send("stop")
                            lines = eng.read_until("bestmove", search_timeout)
                    else:
                        eng.send("stop")
                        lines = eng.read_until("bestmove", search_timeout)
                if st.get("probe"):
                    probes.append(canonicalise(lines))
            else:
                raise ValueError("bad step %r" % (st,))
    except EngineError as ex:
        opts = [json.dumps(x) for x in steps[:cur[0]] if x["k"] == "opt"][-6:]
        raise EngineError("%s at step %d %s (last option steps: %s)" % (ex, cur[0], json.dumps(cur[1]), opts))
    finally:
        eng.close()
    return probes


# ---------------------------------------------------------------------------------------------
# tracking of the transposition-table generation counter along a session (mirrors
# EngineControl::startThread / TranspositionTable::reSize; only used to *classify* sessions)
def fen_white(pos):
    """side to move of a `position` argument (fen ... [moves ...] | startpos [moves ...])"""
    head = pos.split(" moves ")[0]
    white = head.split()[2] == "w" if head.startswith("fen") else True
    nm = len(pos.split(" moves ")[1].split()) if " moves " in pos else 0
    return white if nm % 2 == 0 else not white


def track(steps, variant=(0, 0, 0, 0)):
    """Follow the generation counter and the contempt values under which searches ran
    (mirrors EngineControl::startThread / getWhiteContempt / TranspositionTable::reSize; used
    only to CLASSIFY sessions, never to decide a verdict by itself).  Returns one record per
    probe search: generation the probe runs with, number of earlier searches, the set of
    white-contempt values of earlier searches whose eval-cache entries may still be there,
    and the probe's own white contempt."""
    g_fix, e_fix, k_fix = variant[:3]
    opts = {n: d for n, (d, _) in OPTIONS.items()}
    gen = 0
    size = opts["Hash"]
    n_search = 0
    contempts = set()
    out = []
    for st in steps:
        if st["k"] == "opt":
            if st["name"] in opts:
                opts[st["name"]] = st["value"]
            if st["name"] == "Hash" and st["value"] != size:
                size = st["value"]
                gen = 0
        elif st["k"] in ("clear", "newgame"):
            if g_fix:
                gen = 0
            if e_fix:
                contempts = set()
        elif st["k"] == "go":
            g = st["go"]
            infinite = g.strip() == "infinite"
            analyse = opts["UCI_AnalyseMode"] == "true"
            if not ((analyse or infinite) and opts["AnalysisAgeHash"] == "false"):
                gen = (gen + 1) & 15
            white = fen_white(st["pos"])
            if analyse:
                wc = int(opts["AnalyzeContempt"])
            else:
                c = 0 if opts["AutoContempt"] == "true" else int(opts["Contempt"])
                wc = c if white else -c
            if st.get("probe"):
                out.append({"probe_generation": gen, "n_prior": n_search,
                            "stale_contempts": sorted(x for x in contempts if x != wc and not k_fix),
                            "white_contempt": wc})
            n_search += 1
            contempts.add(wc)
    return out


# ---------------------------------------------------------------------------------------------
def gen_go(rng, budget, only=None):
    """A prior search command of a random limit kind.  Returns (go string, mode, wait).
    only = "nodes" | "depth" | "time": restrict to one family of limits."""
    if only == "nodes":
        return "nodes %d" % rng.choice([1, 30, 200, 1000, 1500, budget["nodes"]]), "wait", 0
    if only == "depth":
        return rng.choice(["depth %d" % rng.randint(1, budget["depth"]), "mate %d" % rng.randint(1, 2)]), "wait", 0
    if only == "time":
        if rng.random() < 0.5:
            return "movetime %d" % rng.randint(3, budget["ms"]), "wait", 0
        return "wtime %d btime %d movestogo %d" % (rng.randint(60, budget["ms"] * 30), rng.randint(60, budget["ms"] * 30), rng.randint(1, 40)), "wait", 0
    r = rng.random()
    if r < 0.22:
        return "depth %d" % rng.randint(1, budget["depth"]), "wait", 0
    if r < 0.42:
        return "nodes %d" % rng.choice([1, 30, 200, 1000, budget["nodes"] // 4, budget["nodes"]]), "wait", 0
    if r < 0.54:
        return "movetime %d" % rng.randint(3, budget["ms"]), "wait", 0
    if r < 0.66:
        t = rng.randint(60, budget["ms"] * 30)
        s = "wtime %d btime %d" % (t, rng.randint(60, budget["ms"] * 30))
        if rng.random() < 0.5:
            s += " winc %d binc %d" % (rng.randint(0, 30), rng.randint(0, 30))
        if rng.random() < 0.5:
            s += " movestogo %d" % rng.randint(1, 40)
        return s, "wait", 0
    if r < 0.72:
        return "mate %d" % rng.randint(1, 2), "wait", 0
    if r < 0.82:
        return "infinite", "stop", rng.randint(1, budget["ms"])
    if r < 0.88:
        return "depth %d nodes %d" % (rng.randint(2, budget["depth"] + 1), rng.randint(100, budget["nodes"])), "wait", 0
    if r < 0.94:
        return "ponder wtime %d btime %d" % (rng.randint(100, 2000), rng.randint(100, 2000)), "ponderhit", rng.randint(1, budget["ms"])
    return "ponder movetime %d" % rng.randint(5, budget["ms"]), "ponderstop", rng.randint(1, budget["ms"])


def pos_cmd(p):
    fen, moves = p
    return "fen " + fen


def related_positions(p):
    """The probe position's predecessors (same game, other side to move one ply earlier ...)."""
    fen, moves = p
    mv = moves.split()
    out = []
    for back in (1, 2, 3):
        if len(mv) >= back:
            out.append("startpos moves " + " ".join(mv[:len(mv) - back]) if len(mv) > back else "startpos")
    return out


TB_POSITIONS = ["fen 8/8/8/4k3/8/8/3QK3/8 w - - 0 1", "fen 8/8/3k4/8/8/8/3RK3/8 b - - 0 1",
                "fen 8/8/3k4/8/8/2B5/3NK3/8 w - - 0 1"]


def gen_prior(rng, positions, probe_pos, n_prior, base_opts, flavour, budget):
    """The prior session: n_prior searches of all limit kinds interleaved (depending on the
    flavour) with option changes, ucinewgame and Clear Hash.  Options are reverted by
    `assemble`, not here."""
    cur = {n: d for n, (d, _) in OPTIONS.items()}
    cur.update(base_opts)
    target = dict(cur)
    prior = []
    rel = related_positions(probe_pos)
    weak_base = int(cur["Strength"]) < 1000 or cur["UCI_LimitStrength"] == "true"
    for i in range(n_prior):
        if flavour not in ("plain", "nodes-prior", "depth-prior", "time-prior"):
            r = rng.random()
            if r < 0.10 and not weak_base:
                prior.append({"k": "newgame"})
            elif r < 0.30:
                names = [n for n in OPTIONS if n != "Hash" or flavour in ("options", "options0")]
                if flavour == "options0":
                    names = [n for n in names if n not in CONTEMPT_OPTS]
                if flavour == "contempt":
                    names = ["Contempt", "UCI_AnalyseMode", "AnalyzeContempt"]
                n = rng.choice(names)
                if n == "MaxNPS" and rng.random() < 0.7:
                    n = "MultiPV"
                if cur[n] != target[n] and rng.random() < 0.6:
                    v = target[n]
                else:
                    v = rng.choice(OPTIONS[n][1])
                cur[n] = v
                prior.append({"k": "opt", "name": n, "value": v})
            elif r < 0.33:
                prior.append({"k": "clear"})
        only = {"nodes-prior": "nodes", "depth-prior": "depth", "time-prior": "time"}.get(flavour)
        g, mode, wait = gen_go(rng, budget, only)
        r = rng.random()
        if only is None and rng.random() < 0.06:
            # searchmoves: the last move of the game leading to a random position is legal in its predecessor
            games = [p for p in positions if len(p[1].split()) >= 2]
            if games:
                mv = rng.choice(games)[1].split()
                prior.append({"k": "go", "pos": "startpos moves " + " ".join(mv[:-1]), "go": "searchmoves %s depth %d" % (mv[-1], rng.randint(1, 3)),
                              "mode": "wait", "wait": 0})
                continue
        if flavour in ("contempt", "related") and rel and r < 0.7:
            pos = rng.choice(rel)
        elif r < 0.08:
            pos = "startpos"
        elif r < 0.12 and flavour in ("options", "options0"):
            pos = rng.choice(TB_POSITIONS)
        else:
            pos = pos_cmd(rng.choice(positions))
        prior.append({"k": "go", "pos": pos, "go": g, "mode": mode, "wait": wait})
    return prior


def assemble(base_opts, prior, probe_pos_cmd, probe_go):
    """(stepsA, stepsB).  A = base options, prior session, every option changed by the prior
    session set back to its base value, Clear Hash, probe, Clear Hash, probe.
    B = base options, probe, Clear Hash, probe (fresh process)."""
    base = [{"k": "opt", "name": "Threads", "value": "1"}]
    for n in sorted(base_opts):
        base.append({"k": "opt", "name": n, "value": base_opts[n]})
    target = {n: d for n, (d, _) in OPTIONS.items()}
    target.update(base_opts)
    cur = dict(target)
    for st in prior:
        if st["k"] == "opt":
            cur[st["name"]] = st["value"]
    revert = [{"k": "opt", "name": n, "value": target[n]} for n in sorted(cur) if cur[n] != target[n]]
    probe = {"k": "go", "pos": probe_pos_cmd, "go": probe_go, "mode": "wait", "probe": True}
    a = base + list(prior) + revert + [{"k": "clear"}, probe, {"k": "clear"}, dict(probe)]
    b = base + [probe, {"k": "clear"}, dict(probe)]
    return a, b


def first_diff(a, b):
    for i, (x, y) in enumerate(zip(a, b)):
        if x != y:
            return i, x, y
    if len(a) != len(b):
        i = min(len(a), len(b))
        return i, (a[i] if i < len(a) else None), (b[i] if i < len(b) else None)
    return None


def dumps(steps):
    return [json.dumps(s, sort_keys=True) for s in steps]
