"""C12 — on-demand endgame tables hold the exact distance to mate (DESIGN.md section 6, C12).

Stages
  prove      coq/Properties_C12.v (certificate theorem, checker soundness, abort state machine)
  dump       harness/tbgen_harness.cpp: the REAL TBGenerator / TranspositionTable::updateTB generate a
             table; the real probeDTM is asked at EVERY placement of the men (65^k digits: square
             or "captured") and both sides to move, for both storage back ends
  certify    the extracted check_table (coq/TB/Checker.v) evaluates the certificate conditions on
             the dump: all 3-man classes in full on every run; 4-man classes on seed-chosen
             slices (quick) or in full (thorough, rotating through the 36 classes by seed)
  scope      positions outside the class / with castling rights must be "not found";
             the same position probed at another ply must shift the score as Coq's score_of_label
  abort      op sequences on one TranspositionTable with "stop" injected during generation;
             observations compared with BOTH variants of coq/TB/Probe.v (Current / Fixed)
  finder     on any failure: engine dump vs the independent MiniChess solver (3-man: true values),
             failing placement with its children (4-man)
"""
import os
import shutil
import time
from concurrent.futures import ThreadPoolExecutor

from vlib import cbuild, coqbuild
from vlib.common import CACHE, NCPU, VERIF, sh

PROP_FILE = "Properties_C12.v"
KINDS = "QRBN"
THREE = ["KQK", "KRK", "KBK", "KNK", "KKQ", "KKR", "KKB", "KKN"]
KNOWN_KEY = "updateTB-abort-keeps-partial-generator"


def four_man_classes():
    out = []
    for i, x in enumerate(KINDS):
        for y in KINDS[i:]:
            out.append("K%s%sK" % (x, y))
            out.append("KK%s%s" % (x, y))
    for x in KINDS:
        for y in KINDS:
            out.append("K%sK%s" % (x, y))
    return out


def pow65(k):
    return 65 ** k


def digits_of(cls, idx):
    k = len(cls)
    n65 = pow65(k)
    side = "w" if idx < n65 else "b"
    r = idx % n65
    ds = []
    for _ in range(k):
        ds.append(r % 65)
        r //= 65
    ds.reverse()
    return ds, side


def describe(cls, idx):
    ds, side = digits_of(cls, idx)
    white = True
    parts = []
    for i, (c, d) in enumerate(zip(cls, ds)):
        if i > 0 and c == "K":
            white = False
        sq = "--" if d == 64 else "%s%d" % ("abcdefgh"[d % 8], d // 8 + 1)
        parts.append(("w" if white else "b") + c + sq)
    return " ".join(parts) + " " + side + "tm"


def fen_of(cls, idx):
    ds, side = digits_of(cls, idx)
    board = [[None] * 8 for _ in range(8)]
    white = True
    for i, (c, d) in enumerate(zip(cls, ds)):
        if i > 0 and c == "K":
            white = False
        if d != 64:
            board[d // 8][d % 8] = c if white else c.lower()
    rows = []
    for y in range(7, -1, -1):
        row, run_ = "", 0
        for x in range(8):
            if board[y][x] is None:
                run_ += 1
            else:
                row += (str(run_) if run_ else "") + board[y][x]
                run_ = 0
        rows.append(row + (str(run_) if run_ else ""))
    return "/".join(rows) + " " + side + " - - 0 1"


class Runner:
    def __init__(self, ctx):
        self.ctx = ctx
        self.work = os.path.join(CACHE, "c12", "%d-%d" % (ctx.seed, os.getpid()))
        shutil.rmtree(self.work, ignore_errors=True)
        os.makedirs(self.work)
        # private copies: the shared build cache evicts old entries while other checks build
        self.cpp = os.path.join(self.work, "tbgen_harness")
        shutil.copy2(cbuild.build_harness("tbgen_harness"), self.cpp)
        self.ml = os.path.join(self.work, "dtm_driver")
        shutil.copy2(coqbuild.extract("ExtractDtm.v", "dtm_driver.ml", "dtm_driver"), self.ml)
        self.failures = []          # (kind, cls, backend, detail dict)
        self.ply_lines = {}

    def dump_path(self, cls, be):
        return os.path.join(self.work, "%s.%s.dump" % (cls, be))

    # ---- harness: generate + dump ----
    def dump(self, job):
        cls, be, seed = job
        t0 = time.time()
        rc, out, err = sh([self.cpp, "dump", cls, be, self.dump_path(cls, be), str(seed)], timeout=1200)
        info = {"cls": cls, "backend": be, "rc": rc, "secs": time.time() - t0}
        ply = []
        for line in out.split("\n"):
            if line.startswith("PLY "):
                ply.append(line)
            elif line.startswith("GEN ") or line.startswith("DONE "):
                for tok in line.split()[1:]:
                    k, v = tok.split("=")
                    info[k] = float(v)
        self.ply_lines[(cls, be)] = ply
        if rc != 0:
            info["err"] = (out[-500:] + err[-1500:])
        return info

    # ---- extracted checker ----
    def check_range(self, job):
        cls, be, lo, hi = job
        rc, out, err = sh([self.ml, "check", cls, self.dump_path(cls, be), str(lo), str(hi)], timeout=7200)
        ok = rc == 0 and ("ok=true" in out)
        return {"cls": cls, "backend": be, "lo": lo, "hi": hi, "ok": ok, "out": out[-6000:], "err": err[-2000:], "rc": rc}

    def check_slice(self, job):
        cls, be, seed, n = job
        rc, out, err = sh([self.ml, "slice", cls, self.dump_path(cls, be), str(seed), str(n)], timeout=3600)
        ok = rc == 0 and (" bad=0 " in out)
        return {"cls": cls, "backend": be, "ok": ok, "out": out[-6000:], "err": err[-2000:], "rc": rc}

    def check_ply(self, job):
        cls, be = job
        lines = self.ply_lines.get((cls, be), [])
        rc, out, err = sh([self.ml, "ply", cls, self.dump_path(cls, be)], input="\n".join(lines) + "\n", timeout=600)
        ok = rc == 0 and (" bad=0" in out)
        return {"cls": cls, "backend": be, "ok": ok, "out": out[-3000:], "err": err[-1000:], "n": len(lines)}

    def stats(self, job):
        cls, be = job
        rc, out, err = sh([self.ml, "stats", cls, self.dump_path(cls, be)], timeout=600)
        d = {}
        for tok in out.split()[2:]:
            if "=" in tok:
                k, v = tok.split("=")
                d[k] = int(v)
        return cls, be, d

    def scope(self, job):
        cls, be, seed, n = job
        rc, out, err = sh([self.cpp, "scope", cls, be, str(seed), str(n)], timeout=600)
        bad = [l for l in out.split("\n") if l.startswith("SCOPEBAD")]
        summ = [l for l in out.split("\n") if l.startswith("SCOPE ")]
        return {"cls": cls, "backend": be, "rc": rc, "bad": bad, "summary": summ[0] if summ else "", "n": n}

    def check_rules(self, job):
        """SPEC validation: MiniChess legality / check / successor positions vs the engine's MoveGen."""
        cls, seed, n = job
        rc, out, err = sh([self.cpp, "rules", cls, str(seed), str(n)], timeout=900)
        if rc != 0:
            return {"cls": cls, "ok": False, "out": out[-500:] + err[-1500:], "n": 0, "moves": 0}
        rc2, out2, err2 = sh([self.ml, "rules", cls], input=out, timeout=900)
        d = {}
        for line in out2.split("\n"):
            if line.startswith("RULESCHECK"):
                d = parse_obs(line)
        ok = rc2 == 0 and d.get("bad") == "0"
        return {"cls": cls, "ok": ok, "out": out2[-3000:] + err2[-1000:], "n": int(d.get("n", 0)), "moves": int(d.get("moves", 0)),
                "illegal": int(d.get("illegal", 0)), "incheck": int(d.get("incheck", 0))}

    def check_points(self, job):
        cls, be, idxs = job
        rc, out, err = sh([self.ml, "points", cls, self.dump_path(cls, be)], input="\n".join(str(i) for i in idxs) + "\n", timeout=600)
        ok = rc == 0 and (" bad=0" in out)
        return {"cls": cls, "backend": be, "ok": ok, "out": out[-6000:], "err": err[-2000:], "rc": rc, "n": len(idxs)}

    def explain(self, cls, be, idx):
        rc, out, err = sh([self.ml, "explain", cls, self.dump_path(cls, be), str(idx)], timeout=600)
        return out

    def solve(self, cls):
        path = os.path.join(self.work, "%s.ref.dump" % cls)
        if not os.path.exists(path):
            rc, out, err = sh([self.ml, "solve", cls, path], timeout=7200)
            if rc != 0:
                return None
        return path

    def cleanup(self):
        shutil.rmtree(self.work, ignore_errors=True)
        try:
            os.rmdir(os.path.join(CACHE, "c12"))
        except OSError:
            pass


def first_difference(path_a, path_b):
    import array
    a = array.array("h")
    b = array.array("h")
    with open(path_a, "rb") as f:
        a.frombytes(f.read())
    with open(path_b, "rb") as f:
        b.frombytes(f.read())
    n = 0
    first = None
    for i in range(min(len(a), len(b))):
        if a[i] != b[i]:
            n += 1
            if first is None:
                first = (i, a[i], b[i])
    return n, first


def raw_to_text(r):
    if r == -32768:
        return "not-a-position"
    if r == -32767:
        return "not found"
    if r == 0:
        return "draw (score 0)"
    if r > 0:
        d = 32000 - r
        return ("mate in %d (score %d)" % (d // 2, r)) if d % 2 == 0 and d >= 2 else "score %d (not a score the encoding can produce)" % r
    d = 32000 - 1 + r
    return ("mated in %d (score %d)" % (d // 2, r)) if d % 2 == 0 and d >= 0 else "score %d (not a score the encoding can produce)" % r


# ---------------------------------------------------------------------------------------------
def finder(ctx, R, cls, be, fail_out):
    """Stage (5): engine dump vs the SPEC (independent solver on the MiniChess rules for up to
    3 men; for 4 men the failing placement with the engine's answers at its children)."""
    idx = None
    for line in fail_out.split("\n"):
        if line.startswith("FAIL "):
            idx = int(line.split()[1])
            break
    rep = {"class": cls, "backend": be, "checker_output": fail_out[-4000:]}
    if len(cls) <= 3:
        ref = R.solve(cls)
        if ref:
            n, first = first_difference(R.dump_path(cls, be), ref)
            ctx.count("finder_placements_vs_spec", 2 * pow65(len(cls)))
            if first:
                i, got, want = first
                rep.update({"differences_vs_spec": n, "index": i, "placement": describe(cls, i), "fen": fen_of(cls, i),
                            "engine": raw_to_text(got), "spec": raw_to_text(want),
                            "explain": R.explain(cls, be, i)})
                return rep, "%s/%s/%d" % (cls, be, i)
    if idx is not None:
        ex = R.explain(cls, be, idx)
        rep.update({"index": idx, "placement": describe(cls, idx), "fen": fen_of(cls, idx), "explain": ex})
        import re
        m = re.search(r"raw=(-?\d+)", ex)
        m2 = re.search(r"expected from the children's labels: (.*)", ex)
        if m:
            rep["engine"] = raw_to_text(int(m.group(1)))
        if m2:
            rep["expected_from_engine_children"] = m2.group(1)
        return rep, "%s/%s/%d" % (cls, be, idx)
    return rep, None


# ---------------------------------------------------------------------------------------------
ABORT_PERMILLE = [0, 1, 3, 10, 30, 60, 100, 150, 200, 250, 300, 350, 400, 450, 500, 550, 600, 650, 700, 750, 800,
                  850, 900, 950, 980]      # stop requested after this fraction of a complete generation's duration


def abort_scripts(ctx, R, classes, n_inject):
    """Single-class scripts for the harness 'script' mode.  One process per script (fresh hash
    table).  Every script first generates completely (calibrates the duration), then injects stops."""
    rng = ctx.rng
    scripts = []
    per = max(1, n_inject // max(1, len(classes)))
    for ci, cls in enumerate(classes):
        ref = R.dump_path(cls, "tt")
        fr = list(ABORT_PERMILLE)
        rng.shuffle(fr)
        fr = sorted(fr[:per]) if per <= len(fr) else fr + [rng.randint(0, 990) for _ in range(per - len(fr))]
        for chunk_start in range(0, len(fr), 4):
            ops = [("U", cls, -1), ("P", cls, 997, ref), ("C",)]
            for f in fr[chunk_start:chunk_start + 4]:
                # the witness of C12_abort_state_refuted: generation aborted, then the search probes;
                # then ordinary hash traffic, probes again, and the next updateTB
                ops += [("U", cls, "p%d" % f), ("P", cls, 97, ref), ("H", 150000), ("P", cls, 97, ref),
                        ("U", cls, -1), ("P", cls, 97, ref), ("C",)]
            # retirement rule of a table that is not used any more
            ops += [("U", cls, -1)] + [("X",)] * 6 + [("P", cls, 997, ref)]
            scripts.append((cls, ops))
    return scripts


def rebuild_scripts(ctx, R, classes, phases_per_pair, n_pairs):
    """Multi-class histories on ONE hash table (the generators share its table region):
    A complete -> B aborted at several phases -> probes of A and B -> hash traffic -> probes ->
    the next updateTB for A; and A complete -> B complete -> A again.  (The witness of
    C12_abort_rebuild_refuted.)  Plus one own-memory (VectorStorage) history of the same shape."""
    rng = ctx.rng
    scripts = []
    pairs = [(a, b) for a in classes for b in classes if a != b]
    rng.shuffle(pairs)
    pairs = pairs[:n_pairs]
    bands = [(2, 60), (100, 450), (600, 950)]        # generation phase 1 / 2 / 3 (measured, see evidence)
    for a, b in pairs:
        ra, rb = R.dump_path(a, "tt"), R.dump_path(b, "tt")
        fr = [rng.randint(*bands[i % 3]) for i in range(phases_per_pair)]
        for f in fr:         # one process (one hash table) per history: short chains, run in parallel
            scripts.append(("%s>%s@%d" % (a, b, f),
                            [("U", a, -1), ("P", a, 997, ra),
                             ("U", b, "p%d" % f), ("P", a, 97, ra), ("P", b, 97, rb),
                             ("H", 150000), ("P", a, 97, ra), ("P", b, 97, rb),
                             ("U", a, -1), ("P", a, 97, ra)]))
        scripts.append((a + ">" + b + ">" + a,
                        [("U", a, -1), ("U", b, -1), ("P", a, 997, ra), ("P", b, 97, rb), ("H", 150000),
                         ("U", a, -1), ("P", a, 97, ra), ("P", b, 997, rb)]))
    if pairs:
        a, b = pairs[0]
        va, vb = R.dump_path(a, "vec"), R.dump_path(b, "vec")
        ops = [("VG", a, -1), ("VP", a, 97, va), ("VG", b, -1), ("VP", a, 997, va), ("VP", b, 97, vb)]
        for f in [rng.randint(*bands[i]) for i in range(3)]:
            ops += [("VG", b, "p%d" % f), ("VP", a, 97, va), ("VP", b, 997, vb)]
        scripts.append((a + ">" + b + "/vec", ops))
    return scripts


def run_script(R, script):
    cls, ops = script
    text = "\n".join(" ".join(str(x) for x in op) for op in ops) + "\n"
    rc, out, err = sh([R.cpp, "script", "7"], input=text, timeout=1800)
    lines = [l for l in out.split("\n") if l.strip()]
    return {"cls": cls, "ops": ops, "rc": rc, "lines": lines, "err": err[-1500:]}


def parse_obs(line):
    toks = line.split()
    d = {"op": toks[0]}
    for t in toks[1:]:
        if "=" in t:
            k, v = t.split("=", 1)
            d[k] = v
    return d


def class_sig(cls):
    """material of a class as the harness prints the installed generator: q.r.b.n.Q.R.B.N"""
    w = {"Q": 0, "R": 0, "B": 0, "N": 0}
    b = dict(w)
    side = w
    for i, ch in enumerate(cls):
        if ch == "K":
            if i > 0:
                side = b
            continue
        side[ch] += 1
    return ".".join(str(x) for x in [w["Q"], w["R"], w["B"], w["N"], b["Q"], b["R"], b["B"], b["N"]])


VARIANTS = ("current", "fixed", "keepold")


def judge_scripts(ctx, R, results):
    """Compare the observations with the three variants of coq/TB/Probe.v, and - independently of
    any model - every probe sweep with the certified dumps."""
    verdict = {"current": True, "fixed": True, "keepold": True, "aborted": 0, "completed": 0,
               "sweeps": 0, "sweeps_after_abort": 0, "wrong_sweeps": 0, "update_trusted_unsound": 0,
               "rebuild_aborts": 0, "injections": [], "broken": [], "wrong": []}
    for res in results:
        if res["rc"] != 0 or len(res["lines"]) != len(res["ops"]):
            verdict["broken"].append({"script": res["ops"][:4], "rc": res["rc"], "err": res["err"], "lines": res["lines"][-3:]})
            for v in VARIANTS:
                verdict[v] = False
            continue
        ids, sigs = {}, {}
        for op in res["ops"]:
            if op[0] in ("U", "P") and op[1] not in ids:
                ids[op[1]] = len(ids)
                sigs[class_sig(op[1])] = ids[op[1]]
        obs = [parse_obs(l) for l in res["lines"]]
        model_in, keep = [], []
        for k, (op, o) in enumerate(zip(res["ops"], obs)):
            if op[0] == "U":
                model_in.append("U %d %s 1 %s" % (ids[op[1]], o["pre"], "ok" if o["ret"] == "1" else "a1"))
            elif op[0] in ("X", "C", "H"):
                model_in.append(op[0])
            elif op[0] == "P":
                model_in.append("P %d" % ids[op[1]])
            else:
                continue
            keep.append((k, op, o))
        rc, out, err = sh([R.ml, "probe"], input="\n".join(model_in) + "\n", timeout=120)
        preds = [l for l in out.split("\n") if l.strip()]
        if rc != 0 or len(preds) != len(keep):
            verdict["broken"].append({"model": err[-800:], "out": out[-300:]})
            for v in VARIANTS:
                verdict[v] = False
            continue
        pred_at = {}
        for (k, op, o), pl in zip(keep, preds):
            pred_at[k] = [[int(x) for x in part.split()] for part in pl.split("|")]
        last_abort = None
        installed_before = None
        for k, (op, o) in enumerate(zip(res["ops"], obs)):
            ctx.evaluated()
            if k in pred_at:
                gen_obs = sigs.get(o.get("gen", "-"), -1 if o.get("gen", "-") == "-" else -2)
                for name, m in zip(VARIANTS, pred_at[k]):
                    ret, gcls, bad = m
                    if op[0] == "P":
                        # unsound read: answers unspecified; another class installed: the classes may
                        # share sub-material (captured men), so "some answers" is allowed either way
                        ok = bad == 1 or (gcls != -1 and gcls != ids[op[1]]) or int(o["any"]) == ret
                    elif op[0] == "C":
                        ok = gen_obs == gcls
                    elif op[0] == "H":
                        ok = True
                    else:
                        ok = int(o["ret"]) == ret and gen_obs == gcls
                    if not ok:
                        if verdict[name]:
                            verdict["first_mismatch_" + name] = {"script": res["cls"], "op_index": k, "op": list(op[:3]),
                                                                 "observed": o, "model(ret,installed class,unsound)": m,
                                                                 "history": [" ".join(str(x) for x in q[:3]) for q in res["ops"][:k + 1]]}
                        verdict[name] = False
            if op[0] in ("U", "VG"):
                inj = op[2] != -1
                if inj and o["ret"] == "0":
                    verdict["aborted"] += 1
                    if op[0] == "U" and installed_before not in (None, "-"):
                        verdict["rebuild_aborts"] += 1
                    last_abort = {"script": res["cls"], "class": op[1], "stop_after": op[2], "stop_after_us": int(o.get("stop_us", 0)),
                                  "aborted_after_ms": o["ms"], "installed_before": installed_before, "installed_after": o.get("gen", "n/a")}
                    verdict["injections"].append(last_abort)
                elif inj and o.get("pre", "0") == "0":
                    verdict["completed"] += 1
                if op[0] == "U" and o["pre"] == "1" and o["ret"] == "1" and any(m[2] == 1 for m in pred_at[k]) and last_abort is not None:
                    verdict["update_trusted_unsound"] += 1
                    last_abort["next_updateTB"] = "returned true without generating (its probe of the installed table hit)"
            if op[0] in ("U", "X", "C"):
                installed_before = o.get("gen", "-")
            if op[0] in ("P", "VP"):
                verdict["sweeps"] += 1
                if last_abort is not None:
                    verdict["sweeps_after_abort"] += 1
                    key = "probe%d" % (1 + sum(1 for q in last_abort if q.startswith("probe")))
                    last_abort[key] = {"class": op[1], "probed": int(o["probed"]), "found": int(o["found"]),
                                       "wrong": int(o["wrong"]), "first_wrong": o["first"]}
                if int(o["wrong"]) > 0:
                    # model-independent: an answer that differs from the certified dump
                    verdict["wrong_sweeps"] += 1
                    idx, got, want = [int(x) for x in o["first"].split(":")]
                    verdict["wrong"].append({
                        "script": res["cls"], "probed_class": op[1], "back_end": "own memory" if op[0] == "VP" else "hash table",
                        # self-contained: everything since the last clear() of this hash table
                        "history": [" ".join(str(x) for x in q[:3]) for q in
                                    res["ops"][max([0] + [i + 1 for i in range(k) if res["ops"][i][0] == "C"]):k + 1]],
                        "observed": [l for l in res["lines"][:k + 1] if not l.startswith("H")][-8:],
                        "sweep": {"probed": int(o["probed"]), "found": int(o["found"]), "wrong": int(o["wrong"])},
                        "placement": describe(op[1], idx), "fen": fen_of(op[1], idx), "index": idx,
                        "answered": raw_to_text(got), "certified": raw_to_text(want),
                        "after_abort_of": (last_abort or {}).get("class")})
            if op[0] == "C":
                last_abort = None
    return verdict


# ---------------------------------------------------------------------------------------------
def run(ctx):
    ctx.rule = ("every placement (65^k digit tuples: square or 'captured' per man) x side to move of a material class is "
                "probed through the real probeDTM and the dump certified by the extracted checker: all eight 3-man classes "
                "x {own memory, inside the hash table} in full; 4-man classes chosen by seed on random slices (quick) or in "
                "full (thorough); non-trivial = legal position with at least one legal move (its label depends on children); "
                "distinct by (class, back end, placement, side). Abort injections: stop requested after 0..98% of the measured "
                "duration of a complete generation (so every phase is hit), followed by probes, hash traffic, probes, the next updateTB; "
                "multi-class histories on one hash table: A complete, B aborted in phase 1/2/3, A and B probed, hash traffic, probed "
                "again, updateTB(A); A complete, B complete, A again; the same shape with own-memory generators; every sweep compared "
                "with the certified dumps and every return value / installed generator with the three variants of Probe.v.")
    ctx.trusted_base = ["Coq 8.16.1 kernel (coqc, vm_compute)",
                        "extraction: ExtrOcamlBasic + ExtrOcamlZInt (Z/N/positive -> OCaml int) + six Extract Constant "
                        "realisations in coq/Extract/ExtractDtm.v (Z.eqb Z.leb Z.ltb Z.div Z.modulo Z.even), for this driver only",
                        "OCaml 4.13 + drivers/dtm_driver.ml (dump indexing, file reading)",
                        "harness/tbgen_harness.cpp (placement -> Position, calls of the real generate/updateTB/probeDTM)",
                        "coq/TB/MiniChess.v is the specification of the chess rules for pawnless <= 4-man positions"]
    ctx.assumptions = ["the dump handed to the checker is what probeDTM answers (harness + driver indexing are trusted)",
                       "abort state machine: model = code by op-sequence correspondence (return values, generator installed), not by proof",
                       "positions with castling rights / other material: tested by sampling (scope), not proved"]
    ok, info = coqbuild.prove(ctx, PROP_FILE, timeout=ctx.scale(1500, 3600))
    proof_broken = not ok
    R = Runner(ctx)
    try:
        _run(ctx, R, proof_broken, info)
    finally:
        R.cleanup()


def _run(ctx, R, proof_broken, info):
    rng = ctx.rng
    t_start = time.time()
    all4 = four_man_classes()
    if ctx.quick:
        four = rng.sample(all4, 3)
        full4 = []
    else:
        start = (ctx.seed * 4) % len(all4)
        full4 = [all4[(start + i) % len(all4)] for i in range(4)]
        four = full4 + rng.sample([c for c in all4 if c not in full4], 4)
    three = ["KK"] + THREE
    backends = ["vec", "tt"]
    ctx.notes["classes_3man"] = three
    ctx.notes["classes_4man_sliced"] = [c for c in four if c not in full4]
    ctx.notes["classes_4man_full"] = full4

    pool = ThreadPoolExecutor(max_workers=NCPU)
    # ---- dumps (3-man first: they are checked while the 4-man dumps are produced)
    jobs3 = [(c, be, rng.randrange(1, 1 << 30)) for c in three for be in backends]
    jobs4 = [(c, be, rng.randrange(1, 1 << 30)) for c in four for be in backends]
    fut4 = [pool.submit(R.dump, j) for j in jobs4]
    d3 = list(pool.map(R.dump, jobs3))
    gen_fail = [d for d in d3 if d["rc"] != 0]
    # ---- 3-man: whole tables
    parts = 4
    bounds = [(i * 65) // parts for i in range(parts + 1)]
    cj = [(d["cls"], d["backend"], bounds[i], bounds[i + 1]) for d in d3 if d["rc"] == 0 for i in range(parts)]
    t0 = time.time()
    c3 = list(pool.map(R.check_range, cj))
    t_check3 = time.time() - t0
    n3 = 0
    for r in c3:
        k = len(r["cls"])
        n = (r["hi"] - r["lo"]) * pow65(k - 1) * 2
        ctx.evaluated(n)
        n3 += n
        ctx.count("placements_certified_3man", n)
    d4 = [f.result() for f in fut4]
    gen_fail += [d for d in d4 if d["rc"] != 0]
    ctx.notes["speed"] = {"checker_placements_per_cpu_second_3man": None, "check3_wall_s": round(t_check3, 1)}
    secs = 0.0
    for r in c3:
        for line in r["out"].split("\n"):
            if line.startswith("CHECK ") and "secs=" in line:
                secs += float(line.split("secs=")[1])
    if secs > 0:
        ctx.notes["speed"]["checker_placements_per_cpu_second_3man"] = int(n3 / secs)
    ctx.notes["speed"]["dump_4man"] = [{"cls": d["cls"], "backend": d["backend"], "generate_ms": d.get("ms"), "probe_ms": d.get("probe_ms")} for d in d4]

    # ---- 4-man: slices / whole classes
    okd4 = [d for d in d4 if d["rc"] == 0]
    n_slice = ctx.scale(120000, 1500000)
    sj = [(d["cls"], d["backend"], rng.randrange(1, 1 << 30), n_slice // 4) for d in okd4 if d["cls"] not in full4 for _ in range(4)]
    t0 = time.time()
    s4f = [pool.submit(R.check_slice, j) for j in sj]
    parts4 = 16
    b4 = [(i * 65) // parts4 for i in range(parts4 + 1)]
    fj = [(d["cls"], d["backend"], b4[i], b4[i + 1]) for d in okd4 if d["cls"] in full4 for i in range(parts4)]
    c4f = [pool.submit(R.check_range, j) for j in fj]
    # ---- abort scripts run meanwhile (they need the tt dumps of the 4-man classes as reference)
    abort_classes = [c for c in four if any(d["cls"] == c and d["backend"] == "tt" for d in okd4)][:2]
    scripts = abort_scripts(ctx, R, abort_classes, ctx.scale(24, 160))
    both = [c for c in four if all(any(d["cls"] == c and d["backend"] == be for d in okd4) for be in backends)]
    scripts += rebuild_scripts(ctx, R, both, ctx.scale(3, 9), ctx.scale(2, 6))
    scf = [pool.submit(run_script, R, s) for s in scripts]
    # ---- ply / stats / scope
    okd = [d for d in d3 if d["rc"] == 0] + okd4
    # ---- corpus of past failures (runs on the dumps of this run)
    corpus = {}
    cpath = os.path.join(VERIF, "corpus", "c12.txt")
    if os.path.exists(cpath):
        for line in open(cpath):
            tk = line.split("#")[0].split()
            if len(tk) >= 2:
                corpus.setdefault(tk[0], []).append(int(tk[1]))
    rulef = [pool.submit(R.check_rules, (c, rng.randrange(1, 1 << 30), ctx.scale(20000, 300000))) for c in three[1:] + four]
    cpf = [pool.submit(R.check_points, (d["cls"], d["backend"], corpus[d["cls"]])) for d in okd if d["cls"] in corpus]
    plyf = [pool.submit(R.check_ply, (d["cls"], d["backend"])) for d in okd]
    statf = [pool.submit(R.stats, (d["cls"], d["backend"])) for d in okd]
    scopef = [pool.submit(R.scope, (d["cls"], d["backend"], rng.randrange(1, 1 << 30), ctx.scale(3000, 30000))) for d in okd if len(d["cls"]) >= 3]

    s4 = [f.result() for f in s4f]
    c4 = [f.result() for f in c4f]
    ctx.notes["speed"]["check4_wall_s"] = round(time.time() - t0, 1)
    for r in s4:
        for line in r["out"].split("\n"):
            if line.startswith("SLICE "):
                d = parse_obs(line)
                ctx.evaluated(int(d["n"]))
                ctx.count("placements_checked_4man_slices", int(d["n"]))
                ctx.count("legal_positions_4man_slices", int(d["legal"]))
                ctx.count("children_looked_up_4man_slices", int(d["children"]))
    for r in c4:
        n = (r["hi"] - r["lo"]) * pow65(3) * 2
        ctx.evaluated(n)
        ctx.count("placements_certified_4man", n)
    cps = [f.result() for f in cpf]
    ctx.count("corpus_points_checked", sum(r["n"] for r in cps))
    ctx.evaluated(sum(r["n"] for r in cps))
    rules = [f.result() for f in rulef]
    ctx.count("spec_rules_positions_vs_MoveGen", sum(r["n"] for r in rules))
    ctx.count("spec_rules_moves_vs_MoveGen", sum(r["moves"] for r in rules))
    ctx.count("spec_rules_illegal_positions", sum(r.get("illegal", 0) for r in rules))
    ctx.count("spec_rules_positions_in_check", sum(r.get("incheck", 0) for r in rules))
    ctx.evaluated(sum(r["n"] for r in rules))
    plys = [f.result() for f in plyf]
    stats = [f.result() for f in statf]
    scopes = [f.result() for f in scopef]
    script_res = [f.result() for f in scf]
    pool.shutdown()

    dist = {}
    nontrivial = 0
    for cls, be, d in stats:
        dist["%s/%s" % (cls, be)] = d
        if (cls in three) or (cls in full4):
            nontrivial += d.get("win", 0) + d.get("loss", 0) + d.get("draw", 0)
    ctx.notes["label_distribution"] = dist
    for r in s4:
        for line in r["out"].split("\n"):
            if line.startswith("SLICE "):
                nontrivial += int(parse_obs(line)["legal"])
    # distinct non-trivial cases (legal positions whose label had to be justified by the rules) are
    # counted, not enumerated: there are millions per run.  Ctx only takes len() of the key set.
    ctx.nontrivial_keys = range(nontrivial)
    ctx.notes["distinct_nontrivial_positions"] = nontrivial
    ctx.count("ply_probes", sum(p["n"] for p in plys))
    ctx.count("scope_probes", sum(s["n"] for s in scopes))
    ctx.evaluated(sum(p["n"] for p in plys) + sum(s["n"] for s in scopes))
    ctx.traces_validated = ctx.evaluations
    same = 0
    for c in three + four:
        a, b = R.dump_path(c, "vec"), R.dump_path(c, "tt")
        if os.path.exists(a) and os.path.exists(b):
            rc, _, _ = sh(["cmp", "-s", a, b])
            same += 1 if rc == 0 else 0
    ctx.count("classes_with_identical_dump_in_both_back_ends", same)
    ok3 = [r for r in c3 if r["ok"]]
    if ok3:
        ctx.sample({"class": ok3[0]["cls"], "backend": ok3[0]["backend"], "checker": ok3[0]["out"].strip().split("\n")[-1]})
    oks = [r for r in s4 if r["ok"]]
    if oks:
        ctx.sample({"class": oks[0]["cls"], "backend": oks[0]["backend"], "checker": oks[0]["out"].strip().split("\n")[-1][:400]})
    if plys:
        ctx.sample({"ply_check": plys[0]["out"].strip()[-200:]})
    if scopes:
        ctx.sample({"scope": scopes[0]["summary"]})

    # ---- verdicts -------------------------------------------------------------------------
    if proof_broken:
        ctx.violation("theorem(s) in %s no longer check" % PROP_FILE, {"broken_proof": info}, no_failing_input=True)
    for d in gen_fail:
        ctx.violation("table generation / dump failed for %s (%s)" % (d["cls"], d["backend"]),
                      {"class": d["cls"], "backend": d["backend"], "harness": d.get("err", "")}, no_failing_input=True)
    reported = set()
    failed_tables = sorted({(r["cls"], r["backend"]) for r in cps + c3 + c4 + s4 if not r["ok"]})
    if failed_tables:
        ctx.notes["tables_failing_the_certificate"] = ["%s/%s" % x for x in failed_tables]
    for r in cps + c3 + c4 + s4:
        if r["ok"] or (r["cls"], r["backend"]) in reported:
            continue
        if len(reported) >= 4:          # one replay per table for the first four; the rest is listed in the evidence
            break
        reported.add((r["cls"], r["backend"]))
        rep, key = finder(ctx, R, r["cls"], r["backend"], r["out"] + r["err"])
        if key:
            ctx.violation("generated table for %s (%s) is not the exact distance to mate at %s: engine says %s%s" % (
                r["cls"], r["backend"], rep.get("placement"), rep.get("engine", "see explain"),
                (", specification says " + rep["spec"]) if "spec" in rep else ""), rep, key=key)
        else:
            ctx.violation("certificate check of %s (%s) failed" % (r["cls"], r["backend"]), rep, no_failing_input=True)
    for p in [p for p in plys if not p["ok"]][:2]:
        if not p["ok"]:
            ctx.violation("probe score does not shift with ply as the encoding demands (%s %s)" % (p["cls"], p["backend"]),
                          {"class": p["cls"], "backend": p["backend"], "driver": p["out"], "err": p["err"]},
                          key="ply/%s/%s" % (p["cls"], p["backend"]))
    for s in [s for s in scopes if s["rc"] != 0 or s["bad"]][:2]:
        if s["rc"] != 0 or s["bad"]:
            ctx.violation("probeDTM answers a position outside the table's scope (%s %s)" % (s["cls"], s["backend"]),
                          {"class": s["cls"], "backend": s["backend"], "answered": s["bad"][:5], "rc": s["rc"]},
                          key=("scope/" + s["bad"][0]) if s["bad"] else None, no_failing_input=not s["bad"])

    for r in [r for r in rules if not r["ok"]][:2]:
        ctx.violation("the specification's chess rules (coq/TB/MiniChess.v) and the engine's MoveGen disagree on a %s position" % r["cls"],
                      {"class": r["cls"], "driver": r["out"]}, key="rules/" + r["cls"])
    # ---- abort state machine
    v = judge_scripts(ctx, R, script_res)
    ctx.count("abort_injections_hit", v["aborted"])
    ctx.count("abort_injections_into_a_rebuild_with_a_table_installed", v["rebuild_aborts"])
    ctx.count("abort_injections_generation_completed_first", v["completed"])
    ctx.count("probe_sweeps_in_histories", v["sweeps"])
    ctx.count("probe_sweeps_after_abort", v["sweeps_after_abort"])
    ctx.count("probe_sweeps_with_wrong_answers", v["wrong_sweeps"])
    ctx.count("updateTB_calls_that_trusted_an_unsound_table", v["update_trusted_unsound"])
    ctx.notes["abort_state"] = {"matches_model_Current": v["current"], "matches_model_Fixed": v["fixed"],
                                "matches_model_KeepOld": v["keepold"], "injections": v["injections"][:80]}
    ctx.log("abort state machine: matches Fixed=%s Current=%s KeepOld=%s; %d aborts hit (%d into a rebuild), %d sweeps, %d with wrong answers"
            % (v["fixed"], v["current"], v["keepold"], v["aborted"], v["rebuild_aborts"], v["sweeps"], v["wrong_sweeps"]))
    which = ("Current" if v["current"] else "KeepOld" if v["keepold"] else None) if not v["fixed"] else "Fixed"
    THEOREM = {"Current": "C12_abort_state_refuted (witness [OUpdate c; aborted] then OProbe c)",
               "KeepOld": "C12_abort_rebuild_refuted (witness [OUpdate A ok; OUpdate B aborted; OProbe A])"}
    KEYS = {"Current": KNOWN_KEY, "KeepOld": "updateTB-aborted-rebuild-keeps-previous-generator"}
    if v["broken"]:
        ctx.violation("abort-script harness/model run failed", {"broken": v["broken"][:3]}, no_failing_input=True)
    elif v["aborted"] == 0 or v["rebuild_aborts"] == 0:
        ctx.violation("no injected stop hit a running generation / a rebuild: abort state machine not exercised",
                      {"scripts": len(script_res), "aborted": v["aborted"], "rebuild_aborts": v["rebuild_aborts"]}, no_failing_input=True)
    elif v["wrong"]:
        # a concrete wrongly answered placement, whatever the model says
        w = max(v["wrong"], key=lambda x: (x["after_abort_of"] is not None, x["sweep"]["wrong"]))
        replay = dict(w)
        replay["code_matches_model_variant"] = which
        replay["refuted_theorem"] = THEOREM.get(which)
        replay["first_mismatch_with_model_Fixed"] = v.get("first_mismatch_fixed")
        replay["sweeps_with_wrong_answers"] = v["wrong_sweeps"]
        ctx.violation("probeDTM answers %s positions out of bytes that are not the complete %s table: %s -> %s, certified %s "
                      "(history: %s; %d of %d sampled answers wrong; abort state machine matches variant %s)"
                      % (w["probed_class"], w["probed_class"], w["placement"], w["answered"], w["certified"],
                         " ; ".join(w["history"][-6:]), w["sweep"]["wrong"], w["sweep"]["found"], which),
                      replay, key=KEYS.get(which, "unsound-table-read/%s/%d" % (w["probed_class"], w["index"])))
    elif v["fixed"]:
        ctx.notes["abort_state"]["theorem"] = ("C12_abort_state (model Fixed) applies: after an aborted (re)build nothing is installed; "
                                               "every probe sweep in every history agreed with the certified dumps")
    elif which:
        ctx.violation("TranspositionTable::updateTB behaves like the refuted variant %s of the abort state machine (%s) although no "
                      "wrong answer was sampled" % (which, THEOREM[which]),
                      {"first_mismatch_with_model_Fixed": v.get("first_mismatch_fixed")}, key=KEYS[which])
    else:
        ctx.violation("TranspositionTable::updateTB matches no variant of the abort state machine (coq/TB/Probe.v)",
                      {"first_mismatch_fixed": v.get("first_mismatch_fixed"), "first_mismatch_current": v.get("first_mismatch_current"),
                       "first_mismatch_keepold": v.get("first_mismatch_keepold")}, no_failing_input=True)
    ctx.notes["wall_breakdown_s"] = {"total_after_proof": round(time.time() - t_start, 1)}


def replay(ctx, body):
    r = body.get("replay", {})
    R = Runner(ctx)
    try:
        if r.get("class") and r.get("index") is not None and "backend" in r:
            cls, be, idx = r["class"], r["backend"], int(r["index"])
            d = R.dump((cls, be, 1))
            print("harness:", d)
            print(R.explain(cls, be, idx))
            if len(cls) <= 3:
                ref = R.solve(cls)
                n, first = first_difference(R.dump_path(cls, be), ref)
                print("differences engine vs MiniChess solver:", n, first)
        else:
            hist = r.get("history") or ["U KQKR -1", "U KRKN p30", "P KQKR 97"]
            classes = sorted({h.split()[1] for h in hist if h.split()[0] in ("U", "P", "VG", "VP")})
            for c in classes:
                for be in ("tt", "vec"):
                    print("reference dump:", R.dump((c, be, 1)).get("rc"), c, be)
            ops = []
            for h in hist:
                k = h.split()
                if k[0] == "P":
                    ops.append(("P", k[1], int(k[2]), R.dump_path(k[1], "tt")))
                elif k[0] == "VP":
                    ops.append(("VP", k[1], int(k[2]), R.dump_path(k[1], "vec")))
                elif k[0] in ("U", "VG"):
                    ops.append((k[0], k[1], k[2]))
                elif k[0] == "H":
                    ops.append(("H", int(k[1])))
                else:
                    ops.append((k[0],))
            res = run_script(R, ("replay", ops))
            for op, line in zip(res["ops"], res["lines"]):
                print(" ".join(str(x) for x in op[:3]), "->", line)
            print("(P/VP lines: first=<dump index>:<score answered>:<certified score>; wrong>0 = answers that differ from the certified dump)")
    finally:
        R.cleanup()
