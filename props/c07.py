"""C07 — static evaluation is a pure, symmetric function of the position (DESIGN.md section 6, C07).

prove      coq/Properties_C07.v (accumulator stack invariant for all op streams, feature symmetries
           exhaustive in Coq, cache transparency + refutation) on gen/NNGen.v regenerated from the tree
correspond harness/nn_harness.cpp (real Position + Evaluate + NNEvaluator, synthetic nets) against the
           extracted model (drivers/nn_driver.ml): random histories, state compared after every op
find       implementation vs SPECIFICATION: every eval against a freshly constructed evaluator,
           evalPos against fresh / colour-swapped / mirrored positions, SIMD build variants against
           the generic build, cached evalPos against un-cached evalPos (finding F3)
"""
import hashlib
import os
import re
from concurrent.futures import ThreadPoolExecutor

from vlib import cbuild, coqbuild
from vlib.common import NCPU, REPO, VERIF, sh

PROP_FILE = "Properties_C07.v"
F3_KEY = "evalcache-contempt:startpos:c50->c0"
# EndGameEval::isBishopPawnDraw is also called for a side WITHOUT a bishop (the call sites only require
# no R/N/Q); then darkBishop = lightBishop = false and every selector picks the g-file variant of the
# "pawn b6 against pawn b7" fortress: the b-file fortress of a bishop-less side is never recognised, for
# either colour.  Colour-symmetric (since fix b5f4a2d) but not left-right symmetric.
BPD_FEN = "8/8/8/5k2/6p1/6p1/6P1/5K2 w - - 0 1"          # g-file: scored as a draw
BPD_MIRROR = "8/8/8/2k5/1p6/1p6/1P6/2K5 w - - 0 1"       # its left-right mirror: not recognised
BPD_KEY = "endgame-isBishopPawnDraw-no-bishop-fortress-only-on-g-file:" + BPD_FEN.replace(" ", "_")


def bpd_pattern(fen):
    """necessary condition for the known left-right asymmetry of isBishopPawnDraw: one side has only king
    and pawns, one of its pawns on its own b6/g6 blocks an enemy pawn on b7/g7, and the defending king is
    on its two back ranks — in either colouring"""
    rows = fen.split()[0].split("/")
    b = {}
    for r, row in enumerate(rows):
        f = 0
        for ch in row:
            if ch.isdigit():
                f += int(ch)
            else:
                b[(f, 7 - r)] = ch
                f += 1
    pcs = set(b.values())
    wk = [sq for sq, ch in b.items() if ch == "K"]
    bk = [sq for sq, ch in b.items() if ch == "k"]
    black_strong = (not (pcs & set("qrbn")) and any(b.get((f, 1)) == "P" and b.get((f, 2)) == "p" for f in (1, 6))
                    and bool(wk) and wk[0][1] <= 1)
    white_strong = (not (pcs & set("QRBN")) and any(b.get((f, 6)) == "p" and b.get((f, 5)) == "P" for f in (1, 6))
                    and bool(bk) and bk[0][1] >= 6)
    return black_strong or white_strong

FENS = [
    "rnbqkbnr/pppppppp/8/8/8/8/PPPPPPPP/RNBQKBNR w KQkq - 0 1",
    "r3k2r/p1ppqpb1/bn2pnp1/3PN3/1p2P3/2N2Q1p/PPPBBPPP/R3K2R w KQkq - 0 1",          # castling, captures
    "r3k2r/8/8/8/8/8/8/R3K2R b KQkq - 0 1",                                          # castling both sides
    "4k3/P6P/8/8/8/8/p6p/4K3 w - - 0 1",                                             # promotions
    "1n2k1n1/P1P3PP/8/8/8/8/p1p3pp/1N2K1N1 b - - 0 1",                               # promotion captures
    "4k3/8/8/pPpPpPpP/PpPpPpPp/8/8/4K3 w - a6 0 2",                                  # pawn captures
    "rnbqkbnr/ppp1p1pp/8/3pPp2/8/8/PPPP1PPP/RNBQKBNR w KQkq f6 0 3",                 # en passant
    "8/2k5/8/3pP3/8/8/5K2/8 w - d6 0 2",                                             # en passant, few men
    "8/8/3k4/8/3K4/8/8/8 w - - 0 1",                                                 # kings only
    "8/5k2/8/8/3QK3/8/8/8 w - - 40 60",                                              # KQK, clock
    "8/8/4k3/8/8/3KP3/8/8 w - - 0 1",                                                # KPK
    "3rk3/8/8/8/8/8/4P3/3RK3 w - - 0 1",                                             # KRPKR
    "2b1k3/8/8/8/8/4P3/8/2B1K3 w - - 0 1",                                           # KBPKB
    "r1bq1rk1/pp2bppp/2n1pn2/2pp4/3P1B2/2PBPN2/PP1N1PPP/R2QK2R w KQ - 3 8",
    "6k1/5ppp/8/8/8/8/5PPP/3QK3 w - - 85 70",                                        # high half-move clock
    "k7/8/8/8/8/8/8/KQQQQQQ1 w - - 0 1",
    "q3k2q/8/8/8/8/8/8/Q3K2Q w - - 0 1",
]
CONTEMPTS = [0, 0, 0, 25, -40, 150]
# preferred move kind of an M action (taken when such a legal move exists): aims the walk at the
# notification patterns of Position::makeMove (castling = rook + invisible king move, e.p. = three
# edits, promotion capture = two removals + one addition, king capture = removal + refresh)
KIND_PREF = [""] * 8 + ["capture"] * 4 + ["castle", "castle", "ep", "ep", "promotion", "promcapture", "promcapture",
                                          "kingcapture", "kingmove"]


# ---------- script generation (all randomness from ctx.rng) ----------
def gen_script(rng, n_actions, hook):
    fen = rng.choice(FENS) if rng.random() < 0.8 else FENS[0]
    out = ["H %d %s" % (rng.choice(CONTEMPTS), fen)]
    n = 0
    depth = 0
    while n < n_actions:
        r = rng.random()
        if r < 0.06:        # take back everything and two more (stack underflow after assignment etc.)
            k = depth + 2
            out += ["U"] * k
            depth = 0
            n += k
        elif r < 0.11:      # burst of board edits (> maxIncr pending), evaluation, reversal
            k = rng.randint(3, 7)
            for _ in range(k):
                out.append("X %d %d" % (rng.randrange(64), rng.choice([0, 0, 0, 2, 3, 4, 5, 6, 8, 9, 10, 11, 12])))
            out.append(rng.choice(["E", "Q", "M %d" % rng.randrange(10 ** 6)]))
            if rng.random() < 0.6:
                out += ["U"] * (k + 1)
            n += 2 * k + 2
        elif r < 0.125:     # deep dive towards maxStackSize (the harness refuses moves beyond maxStackSize-8)
            k = rng.choice([30, 60, 120, 200])
            for _ in range(k):
                out.append("M %d" % rng.randrange(10 ** 6))
                if rng.random() < 0.1:
                    out.append(rng.choice(["E", "N", "Q"]))
            out.append("E")
            out += ["U"] * rng.choice([k // 2, k + 10])
            depth = 0
            n += k // 2          # costs less of the budget than its length: keep histories varied
        elif r < 0.16:      # snapshot, dive, assign back, keep unmaking (search's exception path)
            out.append("A")
            k = rng.randint(1, 6)
            for _ in range(k):
                out.append("M %d" % rng.randrange(10 ** 6))
                if rng.random() < 0.3:
                    out.append("E")
            out.append("B")
            out += ["U"] * rng.randint(0, 3)
            n += k + 4
        else:
            a = rng.random()
            if a < 0.50:
                pref = rng.choice(KIND_PREF)
                out.append(("M %d %s" % (rng.randrange(10 ** 6), pref)).strip()); depth += 1
            elif a < 0.66:
                out.append("U"); depth = max(0, depth - 1)
            elif a < 0.80:
                out.append("E")
            elif a < 0.86:
                out.append("Q")
            elif a < 0.90:
                out.append("N"); depth += 1
            elif a < 0.93:
                out.append("X %d %d" % (rng.randrange(64), rng.randrange(13))); depth += 1
            elif a < 0.95:
                out.append(rng.choice(["Y", "Z", "R"]))
            elif a < 0.97 and hook:
                out.append("L")
            else:
                out.append("E")
            n += 1
    out.append("E")
    out.append("Q")
    return out


# ---------- harness binaries and nets ----------
NETS = [("random", 1), ("material", 2), ("extreme", 3), ("sweep", 4)]
VSRC = ("lib/texellib/nn/nneval.cpp", "lib/texellib/nn/nntypes.cpp")   # the only units that see the SIMD macros


def hcmd(e, *args):
    """command line of a harness binary e = (exe, net file or None)"""
    return [e[0]] + list(args) + (["--net", e[1]] if e[1] else [])


def have_hook():
    return "nnVerifOpHook" in open(os.path.join(REPO, "lib/texellib/nn/nneval.hpp")).read()


def build_exe(extra_flags=()):
    """ONE binary per build variant (zero net embedded); the other nets are loaded with --net, which
    re-runs NetData::load (and with it this variant's prepareMatMul) on the process-wide NetData"""
    return cbuild.build_harness("nn_harness", netfile=cbuild.make_net("zero", 1), priv_inc=True,
                                defines=("C07_HAVE_H4",) if have_hook() else (),
                                extra_flags=tuple(extra_flags), extra_srcs=VSRC if extra_flags else ())


def net_file(exe, kind, seed):
    """net files: kinds of harness/mknet.cpp through cbuild.make_net; kind `sweep` (first-layer weights
    of every magnitude up to the S16 limits, so that accumulators hit every clamp class and wrap)
    is written by nn_harness itself"""
    if kind != "sweep":
        return cbuild.make_net(kind, seed)
    d = os.path.join(VERIF, ".cache", "c07")
    os.makedirs(d, exist_ok=True)
    h = hashlib.sha1(open(os.path.join(VERIF, "harness", "nn_harness.cpp"), "rb").read()).hexdigest()[:10]
    f = os.path.join(d, "sweep-%d-%s.compr" % (seed, h))
    if not os.path.exists(f):
        sh([exe, "mknet", "sweep", str(seed), f + ".tmp%d" % os.getpid()], timeout=300, check=True)
        os.replace(f + ".tmp%d" % os.getpid(), f)
    return f


def simd_variants():
    flags = open("/proc/cpuinfo").read()
    variants = []
    if " ssse3" in flags:
        variants.append(("ssse3", ["-DUSE_SSSE3", "-mssse3"]))
    if " avx2" in flags:
        variants.append(("avx2", ["-DUSE_SSSE3", "-DUSE_AVX2", "-mssse3", "-mavx2"]))
    if " avx512f" in flags and " avx512bw" in flags and " avx512_vnni" in flags:
        variants.append(("avx512", ["-DUSE_SSSE3", "-DUSE_AVX2", "-DUSE_AVX512", "-mssse3", "-mavx2", "-mavx512f", "-mavx512bw", "-mavx512vnni"]))
    return variants


# ---------- running ----------
def canon_state(line, sort_lists):
    """R-line with the toAdd/toSub lists sorted (derived op order may differ from the real one)."""
    if not sort_lists:
        return line
    def srt(m):
        body = m.group(1)
        if not body:
            return "[]"
        return "[" + ",".join(str(x) for x in sorted(int(t) for t in body.split(","))) + "]"
    return re.sub(r"\[([0-9,]*)\]", srt, line)


def split_hist(lines):
    """split harness output into histories (each starts with 'OP N')"""
    hs, cur = [], None
    for l in lines:
        if l.startswith("OP N"):
            cur = []
            hs.append(cur)
        if cur is not None:
            cur.append(l)
    return hs


def run_chunk(exe, ml, wfile, wdims, scripts, derived, timeout=900):
    """returns (per-history dicts, error string)"""
    stream = "\n".join("\n".join(s) for s in scripts) + "\n"
    args = hcmd(exe, "hist", *(["derived"] if derived else []))
    rc, so, se = sh(args, input=stream, timeout=timeout)
    if rc != 0:
        return None, "harness rc=%d: %s" % (rc, se[-800:])
    lines = so.split("\n")
    mode = lines[0].split()[1] if lines and lines[0].startswith("MODE") else "?"
    hs = split_hist(lines)
    # blocks of real searches (command G, hook mode) follow the block of the script that ran them
    is_search = [any(l.startswith("T G ") and len(l.split()) > 3 for l in h[:3]) for h in hs]
    if len(hs) - sum(is_search) != len(scripts):
        return None, "harness produced %d histories for %d scripts" % (len(hs) - sum(is_search), len(scripts))
    ops = ["W %s %d %d" % (wfile, wdims[0], wdims[1])]
    for h in hs:
        ops += [l[3:] for l in h if l.startswith("OP ")]
    rc2, so2, se2 = sh([ml], input="\n".join(ops) + "\n", timeout=timeout)
    if rc2 != 0:
        return None, "model driver rc=%d: %s" % (rc2, se2[-800:])
    mlines = [l for l in so2.split("\n") if l]
    res = []
    k = 0
    si = -1
    for h, srch in zip(hs, is_search):
        if not srch:
            si += 1
        real = [l for l in h if l.startswith("R ")]
        nd = sum(1 for l in h if l.startswith("OP D"))
        model = mlines[k:k + nd]
        k += nd
        res.append(dict(script=scripts[si], real=real, model=model, trace=[l for l in h if l.startswith("T ")],
                        nops=sum(1 for l in h if l.startswith("OP ") and not l.startswith("OP D")), mode=mode,
                        ops=[l for l in h if l.startswith("OP ")], search=srch))
    if k != len(mlines):
        return None, "model printed %d lines, expected %d" % (len(mlines), k)
    return res, None


def first_diff(h):
    """index of first state line where model and real differ (None if equal)"""
    sortl = h["mode"] != "hook"
    for i, (a, b) in enumerate(zip(h["real"], h["model"])):
        if canon_state(a, sortl) != canon_state(b, sortl):
            return i
    if len(h["real"]) != len(h["model"]):
        return min(len(h["real"]), len(h["model"]))
    return None


BPD_ACTIVE = [False]     # set when the witness of the known isBishopPawnDraw asymmetry reproduces on this tree


def spec_failures(h):
    """implementation vs specification inside one history: returns list of (kind, detail)"""
    out = []
    for t in h["trace"]:
        f = t.split(" ", 7)
        if f[1] == "E" and "FRESHDIFF" in t:
            out.append(("eval-differs-from-fresh-evaluator", t))
        elif f[1] == "Q":
            v, vf, vs, vm = f[2], f[3], f[4], f[5]
            fen = t.split(" ", 8)[-1]
            if v != vf:
                out.append(("evalPos-differs-from-fresh-evaluator", t))
            if vf != vs:
                out.append(("evalPos-not-colour-symmetric", t))
            if vm != "-" and vf != vm:
                out.append(("evalPos-not-mirror-symmetric" + ("-known-bishopPawnDraw" if BPD_ACTIVE[0] and bpd_pattern(fen) else ""), t))
    return out


def real_failures(h):
    return [x for x in spec_failures(h) if not x[0].endswith("-known-bishopPawnDraw")]


def measure(ctx, h):
    ctx.evaluated(len(h["real"]))
    ctx.count("ops_replayed", h["nops"])
    prev_valid = [False, False]
    prev_depth = 0
    for l in h["real"]:
        f = l.split(" | ")
        depth = int(f[0].split()[1])
        if depth > ctx.counts.get("max_stack_depth", 0):
            ctx.counts["max_stack_depth"] = depth
        npend = max(max(len([x for x in m.split(",") if x]) for m in re.findall(r"\[([0-9,]*)\]", f[c])) for c in (1, 2))
        if npend > ctx.counts.get("max_pending_queue_entries", 0):
            ctx.counts["max_pending_queue_entries"] = npend
        for c in (1, 2):
            valid = not f[c].startswith("-1")
            if prev_valid[c - 1] and not valid and depth == prev_depth:
                ctx.count("queue_overflow_or_forced_invalidations")
            prev_valid[c - 1] = valid
        prev_depth = depth
    for t in h["trace"]:
        f = t.split()
        if f[1] == "C" and len(f) > 11:
            for name, x in zip(("l1_neg", "l1_0_127", "l1_128_255", "l1_gt255"), f[2:6]):
                ctx.count("eval_lanes_%s" % name, int(x))
        elif f[1] == "S" and len(f) > 4:
            ctx.count("real_searches")
            ctx.count("real_search_nodes", int(f[2]))
            ctx.count("real_search_evaluations_vs_fresh", int(f[3]))
        elif f[1] == "M" and len(f) > 3:
            ctx.count("move_" + f[3])
        elif f[1] in ("U", "N", "X", "A", "B", "Y", "Z", "R", "L", "E", "Q") and not t.endswith("skip"):
            ctx.count("action_" + f[1] + ("_" + f[2] if f[1] == "U" and len(f) > 2 else ""))
        if f[1] == "Q" and len(f) > 7:
            ctx.count("evalPos_" + f[6])
            ctx.count("evalPos_material_" + f[7])
            if f[5] != "-":
                ctx.count("evalPos_mirror_checked")
    # pops on an empty stack: a real state line with depth 0 right after "OP O" at depth 0
    ops = h["ops"]
    d = 0
    for l in ops:
        if l.startswith("OP N") or l.startswith("OP F 1"):
            d = 0
        elif l.startswith("OP P"):
            d += 1
        elif l.startswith("OP O"):
            if d == 0:
                ctx.count("pop_on_empty_stack")
            d = max(0, d - 1)
    ctx.nontrivial(hashlib.sha1("\n".join(h["ops"]).encode()).hexdigest())


def shrink(run_one, script, still_bad, budget=120):
    """remove chunks of script actions (halving chunk size) while the failure persists"""
    cur = list(script)
    n = 0
    size = max(1, (len(cur) - 1) // 2)
    while size >= 1 and n < budget:
        i = 1
        while i < len(cur) and n < budget:
            cand = cur[:i] + cur[i + size:]
            n += 1
            h = run_one(cand)
            if h is not None and still_bad(h):
                cur = cand
            else:
                i += size
        size //= 2
    return cur


# ---------- evaluation cache ----------
def cache_script(rng, n):
    out = ["T", "P " + rng.choice(FENS)]
    for _ in range(n):
        r = rng.random()
        if r < 0.15:
            out.append("C %d" % rng.choice([0, 0, 25, 50, -40, 150, -2000, 2000]))
        elif r < 0.45:
            out.append("P " + rng.choice(FENS))
        elif r < 0.48:
            out.append("T")
        else:
            out.append("V")
    return out


def run_cache(exe, ml, script):
    rc, so, se = sh(hcmd(exe, "cache"), input="\n".join(script) + "\n", timeout=300)
    if rc != 0:
        return None, "cache harness rc=%d %s" % (rc, se[-500:])
    lines = [l for l in so.split("\n") if l]
    if len(lines) != len(script):
        return None, "cache harness: %d lines for %d commands" % (len(lines), len(script))
    mops = []
    contempt = 0
    for cmd, l in zip(script, lines):
        if cmd == "T":
            mops.append("KT")
            contempt = 0
        elif cmd.startswith("C "):
            contempt = int(cmd.split()[1])
        elif l.startswith("V ") and l != "V skip":
            _, key, v, vf = l.split()
            mops.append("KV %s %d %s" % (key, contempt, vf))
    rc, so2, se2 = sh([ml], input="\n".join(mops) + "\n", timeout=300)
    if rc != 0:
        return None, "cache model rc=%d %s" % (rc, se2[-500:])
    mv = [l.split()[1] for l in so2.split("\n") if l.startswith("V ")]
    return (lines, mv), None


# ---------- the check ----------
def run(ctx):
    from tx import c07_gen
    ctx.rule = ("random histories on the real Position+Evaluate+NNEvaluator from 17 start positions (castling, "
                "promotion, en-passant, few-men endgames, clock): legal moves, take-backs (also past an empty "
                "stack), null-move edits as search.cpp, bursts of >4 board edits, snapshot/assign-back, "
                "copy-assign, serialize/deSerialize, reconnect, evaluations; state of both perspectives compared "
                "with the extracted model after every operation; non-trivial = every history (distinct by its "
                "op stream); 4 synthetic nets (random small, material-like, extreme, sweep = every first-layer "
                "magnitude up to the S16 limits); SIMD variants additionally compared on unit-level kernel calls "
                "with boundary vectors")
    ctx.trusted_base = ["Coq 8.16.1 kernel (coqc, vm_compute)",
                        "tx/c07_gen.py (getIndex/ptValue/constants/cache layout rendered from the C++ text)",
                        "extraction (ExtrOcamlBasic only) + OCaml 4.13 + drivers/nn_driver.ml",
                        "harness/nn_harness.cpp, synthetic nets (harness/mknet.cpp)",
                        "hand-written models coq/NN/{Accum,EvalCache}.v tied by correspondence"]
    ctx.assumptions = ["model = code is established by differential testing of the observable first-layer state after "
                       "every operation, not by proof",
                       "op streams of the engine are consistent with a board history (checked on every recorded "
                       "stream by the extracted ghost semantics); stack depth < maxStackSize",
                       "layers 2-4, SIMD kernels of vectorop.hpp, endGameEval.cpp and the material/contempt/half-move "
                       "terms of evalPos are outside the proof: compared differentially only (support, not proof)",
                       "cache transparency assumes the 64-bit key determines the value (Zobrist collision hypothesis)"]
    ctx.notes["level_note"] = ("partial: proved = accumulator stack invariant for all consistent op streams in any "
                               "commutative group, feature-index symmetries (exhaustive), symmetry of any function of "
                               "the accumulator pair and piece count, cache transparency (conditional) and its "
                               "refutation for the contempt; not proved = layers 2-4 / SIMD kernels / endGameEval / "
                               "material terms (differential comparison only)")
    # (1) translate
    tie_broken = None
    try:
        gen, changed = c07_gen.generate(REPO, VERIF)
        ctx.notes["translator"] = "coq/gen/NNGen.v %s from %s" % ("rewritten" if changed else "unchanged", REPO)
    except c07_gen.TranslatorError as ex:
        tie_broken = str(ex)
        gen = None
        ctx.log("translator refusal: %s" % ex)
    # (2) prove
    info = {}
    if tie_broken:
        proof_broken = True
        info = {"translator": tie_broken}
        for t in coqbuild.theorems_in(PROP_FILE)[0]:
            ctx.obligation(t, PROP_FILE, discharged=False)
    else:
        ok, info = coqbuild.prove(ctx, PROP_FILE, timeout=ctx.scale(900, 1800))
        proof_broken = not ok
    ctx.log("proof stage: %s" % ("BROKEN" if proof_broken else "ok"))

    # (3) build
    have_hook = globals()["have_hook"]()
    ctx.notes["op_stream_source"] = ("H4 hook in nneval.cpp (exact order) + derived stream cross-check" if have_hook else
                                     "derived by the harness from its own knowledge of what Position::makeMove/"
                                     "unMakeMove/setPiece/operator=/deSerialize notify (H4 hook not present in this "
                                     "tree); pending-queue contents compared as multisets")
    nets = NETS
    variants = simd_variants()
    with ThreadPoolExecutor(max_workers=4) as ex:      # generic build + one build per SIMD variant
        built = list(ex.map(build_exe, [()] + [v[1] for v in variants]))
    gexe, vexes = built[0], built[1:]
    netfiles = {k: net_file(gexe, k, s) for k, s in nets}
    exes = {k: (gexe, netfiles[k]) for k, _ in nets}
    exes["zero"] = (gexe, None)
    ctx.log("harness binaries built (generic + %s)" % ", ".join(v[0] for v in variants))
    ml = None
    if not tie_broken:
        try:
            ml = coqbuild.extract("ExtractNN.v", "nn_driver.ml", "nn_driver")
        except Exception as ex:          # model does not build (e.g. generated text no longer type-checks)
            ctx.log("extraction failed: %s" % str(ex)[:300])
            proof_broken = True
            info["extraction"] = str(ex)[-1500:]
    ctx.log("model extracted")
    wdir = os.path.join(VERIF, ".cache", "c07")
    os.makedirs(wdir, exist_ok=True)
    wfiles = {}
    for k, _ in nets:
        wf = os.path.join(wdir, "w-%s-%s.bin" % (k, hashlib.sha1((gexe + netfiles[k]).encode()).hexdigest()[:12]))
        rc, so, se = sh(hcmd(exes[k], "dumpw", wf), timeout=120, check=True)
        wfiles[k] = (wf, tuple(int(x) for x in so.split()))
    for f in os.listdir(wdir):              # drop weight dumps of older builds
        p = os.path.join(wdir, f)
        if f.startswith("w-") and p not in [w for w, _ in wfiles.values()]:
            try:
                os.remove(p)
            except OSError:
                pass

    # known left-right asymmetry of endGameEval.cpp: replay its witness pair first; mirror asymmetries of the
    # same pattern found later by the random histories are attributed to it (counted), not reported again.
    # The same positions are the regression input of the colour asymmetry repaired by b5f4a2d: evalPos of
    # the colour-swapped positions must be equal (checked like for every other Q: a difference is a VIOLATION).
    wscript = "H 0 %s\nQ\nH 0 %s\nQ\n" % (BPD_FEN, BPD_MIRROR)
    rc, so, se = sh(hcmd(exes["material"], "hist", "derived"), input=wscript, timeout=120, check=True)
    bq = [l.split() for l in so.split("\n") if l.startswith("T Q ")]
    BPD_ACTIVE[0] = len(bq) == 2 and bq[0][3] != bq[1][3]
    ctx.notes["endgame_mirror_witness"] = {"g_file_position": BPD_FEN, "b_file_position": BPD_MIRROR, "net": "material-2",
                                           "evalPos_g_file": bq[0][3] if bq else None, "evalPos_b_file": bq[1][3] if len(bq) > 1 else None,
                                           "evalPos_of_colour_swapped_positions": [x[4] for x in bq],
                                           "left_right_asymmetric": BPD_ACTIVE[0]}
    for x in bq:
        if x[3] != x[4]:
            ctx.violation("evalPos is not colour-symmetric on the regression input of fix b5f4a2d: %s" % " ".join(x),
                          {"failing_input": {"net": "material", "script": wscript.split("\n")[:-1], "kind": "evalPos-not-colour-symmetric",
                                             "trace_line": " ".join(x)}}, key="evalPos-not-colour-symmetric:material:" + "_".join(x[8:]))

    # (4) correspond: histories
    rng = ctx.rng
    n_hist = ctx.scale(192, 4800)
    n_act = ctx.scale(110, 220)
    scripts = []
    corpus = os.path.join(VERIF, "corpus", "c07.txt")
    if os.path.exists(corpus):
        for blk in open(corpus).read().split("\n\n"):
            s = [l for l in blk.strip().split("\n") if l and not l.startswith("#")]
            if s and s[0].startswith("H "):
                scripts.append(s)
    ctx.count("corpus_histories", len(scripts))
    scripts += [gen_script(rng, n_act, have_hook) for _ in range(n_hist)]
    if have_hook:   # real searches (one thread): the op stream of the search's own evaluator is a history
        n_search = ctx.scale(16, 600)
        first = len(scripts) - n_hist
        for i in rng.sample(range(first, len(scripts)), min(n_search, n_hist)):
            sc = scripts[i]
            sc.insert(rng.randint(1, min(len(sc), 40)), "G %d %d" % (rng.choice([2, 3, 4, 6]), rng.choice([200, 600, 1000])))
    ctx.notes["real_search_streams"] = ("recorded through the H4 hook (accumulators compared with a from-scratch computation at "
                                        "every evaluation the search performs)" if have_hook else
                                        "not available: needs the H4 hook (hooks/h4-nn-ops.patch) in nneval.cpp")
    jobs = []       # (net kind, derived flag, chunk of scripts)
    CH = max(1, len(scripts) // (NCPU * 6))      # small chunks: a history with a deep dive or a search must not
                                                  # serialise a whole worker
    for i in range(0, len(scripts), CH):
        k = nets[(i // CH) % len(nets)][0]
        jobs.append((k, not have_hook, scripts[i:i + CH]))
    if have_hook:   # cross-check: the derived stream must describe the same runs
        for i in range(0, min(len(scripts), 24), CH):
            jobs.append((nets[(i // CH) % len(nets)][0], True, scripts[i:i + CH]))
    disagreements, specfails, errors = [], [], []
    results = []
    jobs.sort(key=lambda j: -sum(len(x) + 400 * sum(1 for a in x if a.startswith("G ")) for x in j[2]))   # longest first
    if ml:
        with ThreadPoolExecutor(max_workers=NCPU) as ex:
            results = list(ex.map(lambda j: run_chunk(exes[j[0]], ml, wfiles[j[0]][0], wfiles[j[0]][1], j[2], j[1]), jobs))
    else:
        # no model: still run the implementation against the specification
        def only_impl(j):
            stream = "\n".join("\n".join(s) for s in j[2]) + "\n"
            rc, so, se = sh(hcmd(exes[j[0]], "hist", "derived"), input=stream, timeout=900)
            if rc != 0:
                return None, "harness rc=%d %s" % (rc, se[-500:])
            hs = split_hist(so.split("\n"))
            return [dict(script=s, real=[], model=[], trace=[l for l in h if l.startswith("T ")], nops=0, mode="derived",
                         ops=[l for l in h if l.startswith("OP ")]) for s, h in zip(j[2], hs)], None
        with ThreadPoolExecutor(max_workers=NCPU) as ex:
            results = list(ex.map(only_impl, jobs))
    inconsistent = 0
    for (k, derived, chunk), (res, err) in zip(jobs, results):
        if err:
            errors.append((k, err))
            continue
        for h in res:
            h["net"] = k
            measure(ctx, h)
            ctx.count("histories_net_" + k)
            ctx.count("histories_mode_" + h["mode"])
            if any(l in ("INCONSISTENT",) for l in h["model"]):
                inconsistent += 1
            d = first_diff(h) if ml else None
            if d is not None:
                disagreements.append((h, d))
            for sf in spec_failures(h):
                specfails.append((h, sf))
        if res:
            h = res[0]
            ctx.sample({"net": k, "mode": h["mode"], "script_head": h["script"][:6], "ops": h["nops"],
                        "last_real_state": h["real"][-1] if h["real"] else None,
                        "last_model_state": h["model"][-1] if h["model"] else None,
                        "last_evalPos": [t for t in h["trace"] if t.startswith("T Q")][-1:]})
    ctx.traces_validated = ctx.counts.get("ops_replayed", 0)
    ctx.count("op_streams_rejected_by_ghost_semantics", inconsistent)
    if errors:
        raise RuntimeError("C07 harness/driver failure: %s" % errors[0][1])

    ctx.log("histories replayed: %d ops, %d state comparisons" % (ctx.counts.get("ops_replayed", 0), ctx.evaluations))
    # (4b) SIMD build variants (differential support only: the kernels are not proved).
    #  (i) unit level: scaleClipPack / addSubWeights / matMul called directly on boundary + random vectors in
    #      every build, against a scalar reference inside the harness, against each other, and (first cases)
    #      against the extracted Coq model / specification of scaleClipPack and addSubWeights;
    #  (ii) engine level: the same histories on every net, all state/eval/evalPos lines identical.
    variant_fail = None
    kseed = rng.randrange(1, 2 ** 31)
    kn = ctx.scale(400, 20000)
    kwf = os.path.join(wdir, "kern-rows-%d.bin" % os.getpid())
    def run_kern(exe):
        return sh([exe, "kern", str(kseed), str(kn)] + ([kwf] if exe == gexe else []), timeout=900)
    with ThreadPoolExecutor(max_workers=4) as ex:
        kouts = list(ex.map(run_kern, [gexe] + vexes))
    kbase = None
    for (vn, exe), (rc, so, se) in zip([("generic", gexe)] + [(v[0], e) for v, e in zip(variants, vexes)], kouts):
        kl = [l for l in so.split("\n") if l.startswith("K ")]
        bad = [l for l in so.split("\n") if l.startswith("KREFDIFF")]
        ks = [l for l in so.split("\n") if l.startswith("KS ")]
        ctx.count("kernel_results_compared_%s" % vn, len(kl))
        if vn == "generic":
            kbase = kl
            if ks:
                t = ks[0].split()[1:]
                ctx.notes["kernel_unit_saturation_classes"] = {t[i]: int(t[i + 1]) for i in range(0, len(t) - 1, 2)}
                ctx.notes["kernel_unit_saturation_classes"]["meaning"] = (
                    "scp_* = inputs of scaleClipPack by floor(l1Out/4): <0, 0..127, 128..255, >255, lanes equal to +-S16 limit, "
                    "lanes exactly at a clamp edge; asw_* = addSubWeights lanes whose exact sum stayed in / left the S16 range "
                    "(wrap-around); mmK_* = matMul results by (result>>6): <0, =0, 1..126, =127, >127 (the clamp of Layer::forward)")
        if (rc != 0 or bad or kl != kbase) and not variant_fail:
            idx = next((i for i, (a, b) in enumerate(zip(kbase, kl)) if a != b), None)
            variant_fail = dict(level="kernel", variant=vn, rc=rc, kernel_seed=kseed, cases=kn,
                                replay_cmd="nn_harness kern %d %d   (built with %s)" % (kseed, kn, " ".join(dict(variants).get(vn, ["generic flags"]))),
                                differs_from_scalar_reference=bad[:5],
                                differs_from_generic=dict(generic=kbase[idx], variant=kl[idx]) if idx is not None else None,
                                stderr=se[-300:])
    if ml and kbase:         # the proved reference: extracted model of the generic loops / the specification
        rc, so, se = kouts[0]
        ki = [l for l in so.split("\n") if l.startswith("KI ")]
        mops = ["W %s 64 %d" % (kwf, wfiles[nets[0][0]][1][1])]
        want = []
        for l in ki:
            f = l.split(" ", 3)
            mops.append(("KC " if f[1] == "scp" else "KA ") + f[3])
            want.append("K %s %s" % (f[1], [x for x in kbase if x.startswith("K %s %s " % (f[1], f[2]))][0].split()[3]))
        rc, so2, se2 = sh([ml], input="\n".join(mops) + "\n", timeout=300)
        got = [l for l in so2.split("\n") if l.startswith("K ")]
        ctx.count("kernel_results_compared_with_coq_model", len(got))
        if got != want and not variant_fail:
            idx = next((i for i, (a, b) in enumerate(zip(want, got)) if a != b), min(len(want), len(got)))
            variant_fail = dict(level="kernel-vs-coq-model", variant="generic", kernel_seed=kseed, case=idx,
                                harness=want[idx] if idx < len(want) else None, model=got[idx] if idx < len(got) else None,
                                input=ki[idx][:400] if idx < len(ki) else None)
    try:
        os.remove(kwf)
    except OSError:
        pass

    engine_fail = None
    n_vs = ctx.scale(16, 400)
    vnets = [("extreme", 3), ("sweep", 4), ("random", 1), ("material", 2)]
    vjobs = []
    for ni, (k, sd) in enumerate(vnets):
        sc = scripts[ni * n_vs:(ni + 1) * n_vs] or scripts[:n_vs]
        for vi in range(len(variants) + 1):
            vjobs.append((k, sd, vi, sc))
    def run_var(j):
        k, sd, vi, sc = j
        exe = gexe if vi == 0 else vexes[vi - 1]
        rc, so, se = sh(hcmd((exe, netfiles[k]), "hist", "derived"), input="\n".join("\n".join(x) for x in sc) + "\n", timeout=900)
        return rc, split_hist(so.split("\n")), se
    with ThreadPoolExecutor(max_workers=NCPU) as ex:
        vres = dict(zip([(j[0], j[2]) for j in vjobs], ex.map(run_var, vjobs)))
    sat = {}
    for (k, sd, vi, sc) in vjobs:
        if vi != 0:
            continue
        rc0, h0, se0 = vres[(k, 0)]
        for h in h0:
            for l in h:
                if l.startswith("T C "):
                    v = [int(x) for x in l.split()[2:]]
                    for name, x in zip(("l1_neg", "l1_0_127", "l1_128_255", "l1_gt255", "l2_neg", "l2_0_127", "l2_gt127",
                                        "l3_neg", "l3_0_127", "l3_gt127"), v):
                        sat["%s_%s" % (k, name)] = sat.get("%s_%s" % (k, name), 0) + x
        for vi2, (vn, _) in enumerate(variants, 1):
            rc, hv, se = vres[(k, vi2)]
            keep = lambda h: [l for l in h if l.startswith(("R ", "T "))]
            ctx.count("variant_%s_lines_compared" % vn, sum(len(keep(h)) for h in hv))
            if engine_fail:
                continue
            if rc != 0 or len(hv) != len(h0):
                engine_fail = dict(level="engine", variant=vn, net="%s-%d" % (k, sd), rc=rc, stderr=se[-300:])
                continue
            for si, (a, b) in enumerate(zip(h0, hv)):
                a, b = keep(a), keep(b)
                if a != b:
                    idx = next((i for i, (x, y) in enumerate(zip(a, b)) if x != y), min(len(a), len(b)))
                    # the evaluation this state line belongs to: next T E / T Q line
                    nxt = next((i for i in range(idx, len(a)) if a[i].startswith(("T E", "T Q"))), None)
                    cut = sum(1 for l in a[:(nxt if nxt is not None else idx) + 1] if l.startswith("T ") and not l.startswith("T C"))
                    engine_fail = dict(level="engine", variant=vn, net="%s-%d" % (k, sd), net_kind=k, net_seed=sd,
                                        script=sc[si][:cut + 1],
                                        first_differing_line=dict(generic=a[idx] if idx < len(a) else None, variant=b[idx] if idx < len(b) else None),
                                        evaluation=dict(generic=a[nxt], variant=b[nxt] if nxt < len(b) else None) if nxt is not None else None,
                                        line_format="R <depth> | <white ksq [toAdd] [toSub] l1Out-hash> | <black ...> | <l1OutClipped-hash>;  "
                                                    "T E <eval> <fresh eval> same|FRESHDIFF <FEN>;  T Q <evalPos> <fresh> <swapped> <mirrored> ... <FEN>")
                    break
    ctx.notes["variant_engine_saturation_classes"] = dict(sat, meaning=(
        "lanes/units seen at the evaluations of the variant comparison, per net: first-layer accumulators by floor(l1Out/4) "
        "(<0, 0..127, 128..255, >255), layer-2/3 pre-activations by (x>>6) (<0, 0..127, >127)"))
    ctx.notes["simd_variants"] = {"compared": [v for v, _ in variants], "how": "one binary per variant: harness + nneval.cpp + nntypes.cpp "
                                  "(the only translation units that include vectorop.hpp) compiled with the variant's flags and linked "
                                  "before the generic library; nets extreme, sweep, random, material; all R/T lines (accumulator hashes, "
                                  "clipped hashes, eval and evalPos values) must equal the generic build's; plus unit-level kernel calls; "
                                  "differential support only, the kernels are not proved (reference for scaleClipPack and addSubWeights: "
                                  "the Coq specification/model, C07_scaleClipPack_spec)"}

    ctx.log("SIMD variants compared (kernel + engine level)")
    # (4c) evaluation cache: F3 witness replay on the real Evaluate + cache-logic correspondence
    witness = ["T", "P " + FENS[0], "C 50", "V", "C 0", "V"]
    rc, so, se = sh(hcmd(exes["zero"], "cache"), input="\n".join(witness) + "\n", timeout=120, check=True)
    wl = [l.split() for l in so.split("\n") if l.startswith("V ")]
    f3_real = len(wl) == 2 and wl[1][2] != wl[1][3]
    ctx.notes["F3_witness_on_real_code"] = {"script": witness, "net": "zero", "output": [" ".join(x) for x in wl],
                                            "stale_value_returned": f3_real,
                                            "coq_witness": "NN/EvalCacheProofs.v: refuted_values = [50;50] vs [50;0]",
                                            "key_mixes_contempt_in_this_tree": bool(gen and gen.get("evalKeyContemptMul"))}
    cache_dis, cache_other = None, None
    if ml:
        n_cs = ctx.scale(40, 600)
        cjobs = [(nets[i % len(nets)][0], cache_script(rng, ctx.scale(60, 150))) for i in range(n_cs)]
        with ThreadPoolExecutor(max_workers=NCPU) as ex:
            cres = list(ex.map(lambda j: run_cache(exes[j[0]], ml, j[1]), cjobs))
        for (k, cs), (r, err) in zip(cjobs, cres):
            if err:
                raise RuntimeError(err)
            lines, mv = r
            vl = [l.split() for l in lines if l.startswith("V ") and l != "V skip"]
            ctx.count("cache_evalPos_calls", len(vl))
            ctx.evaluated(len(vl))
            contempt_changed = any(c.startswith("C ") for c in cs)
            for j, (x, m) in enumerate(zip(vl, mv)):
                if x[2] != m and cache_dis is None:
                    cache_dis = dict(script=cs, net=k, call=j, real=x, model=m)
                if x[2] != x[3]:
                    ctx.count("cache_stale_values_returned")
                    if x[2] != m or not contempt_changed:
                        cache_other = cache_other or dict(script=cs, net=k, call=j, real=x, model=m)
                else:
                    ctx.count("cache_values_equal_uncached")

    ctx.log("evaluation cache compared")
    # ---------- verdict ----------
    nb = sum(1 for h, (kind, d) in specfails if kind.endswith("-known-bishopPawnDraw"))
    ctx.count("mirror_asymmetries_attributed_to_isBishopPawnDraw", nb)
    specfails = [x for x in specfails if not x[1][0].endswith("-known-bishopPawnDraw")]
    if BPD_ACTIVE[0]:
        ctx.violation("evalPos is not left-right symmetric: EndGameEval::isBishopPawnDraw, called for a side without a bishop, "
                      "recognises the blocked-pawn fortress only on the g-file: %s evaluates to %s (material net) but its "
                      "left-right mirror %s to %s" % (BPD_FEN, bq[0][3], BPD_MIRROR, bq[1][3]),
                      {"failing_input": {"net": "material", "script": wscript.split("\n")[:-1], "kind": "evalPos-not-mirror-symmetric",
                                         "trace_line": " ".join(bq[0]) + "  ||  " + " ".join(bq[1])}}, key=BPD_KEY)
    if f3_real:
        ctx.violation("evalPos returns a value cached under a different contempt (eval cache key = historyHash only, "
                      "table outlives Evaluate::setWhiteContempt): start position, net 'zero': contempt 50 -> evalPos=%s, "
                      "then contempt 0 -> evalPos=%s but un-cached value is %s"
                      % (wl[0][2], wl[1][2], wl[1][3]),
                      {"cache_script": witness, "net": "zero", "harness_output": [" ".join(x) for x in wl],
                       "coq": "C07_cache_transparent_refuted"}, key=F3_KEY)
    if cache_other:
        ctx.violation("evalPos returned a cached value that differs from the un-cached one and is not explained by a "
                      "change of contempt", {"cache": cache_other},
                      key="cache:" + hashlib.sha1("\n".join(cache_other["script"]).encode()).hexdigest()[:16])
    for vf in (variant_fail, engine_fail):
        if not vf:
            continue
        if vf["level"] == "engine" and vf.get("evaluation"):
            what = ("SIMD build variant %s evaluates differently from the generic build: net %s, %s  |generic| %s  |%s| %s"
                    % (vf["variant"], vf["net"], "history " + " ".join(vf["script"][:1]) + " ...", vf["evaluation"]["generic"],
                       vf["variant"], vf["evaluation"]["variant"]))
            fen = vf["evaluation"]["generic"].split(" ", 5)[-1] if vf["evaluation"]["generic"].startswith("T E") else vf["evaluation"]["generic"].split(" ", 8)[-1]
            key = "variant:%s:%s:%s" % (vf["variant"], vf["net"], fen.replace(" ", "_"))
        elif vf["level"] == "kernel":
            d = (vf["differs_from_scalar_reference"] or [str(vf["differs_from_generic"])])[0]
            what = "SIMD build variant %s: kernel result differs (unit level, seed %d): %s" % (vf["variant"], vf["kernel_seed"], d)
            key = "variant-kernel:%s:%s" % (vf["variant"], "_".join(d.split()[:2]))
        else:
            what = "SIMD build variant %s differs from the generic build / reference (%s)" % (vf["variant"], vf["level"])
            key = "variant:%s:%s" % (vf["variant"], vf["level"])
        ctx.violation(what, {"variant": vf}, key=key)
    corr_broken = bool(disagreements) or bool(cache_dis) or inconsistent > 0

    def impl_trace(k, script):
        rc, so, se = sh(hcmd(exes[k], "hist", "derived"), input="\n".join(script) + "\n", timeout=300)
        if rc != 0:
            return dict(trace=["T E 0 0 FRESHDIFF harness-crash rc=%d %s" % (rc, se[-200:].replace("\n", " "))])
        return dict(trace=[l for l in so.split("\n") if l.startswith("T ")])

    reported = set()

    def report_failing(k, script, replay):
        """shrink a history on which the implementation contradicts the specification, report it"""
        small = shrink(lambda sx: impl_trace(k, sx), script, lambda x: bool(real_failures(x)), budget=ctx.scale(60, 300))
        hx = impl_trace(k, small)
        sfs = real_failures(hx)
        if not sfs:
            small, sfs = script, real_failures(impl_trace(k, script))
        kind, detail = sfs[0]
        fen = detail.split(" ", 8)[-1] if detail.startswith("T Q") else detail.split(" ", 5)[-1]
        replay = dict(replay)
        replay["failing_input"] = {"net": k, "script": small, "kind": kind, "trace_line": detail}
        if (kind, fen) in reported:
            return
        reported.add((kind, fen))
        ctx.violation("static evaluation is not a function of the position / not symmetric: %s: %s" % (kind, detail), replay,
                      key="%s:%s:%s" % (kind, k, fen.replace(" ", "_")))

    replay = {"broken_proof": info if proof_broken else None, "disagreement": None, "cache_disagreement": cache_dis,
              "inconsistent_streams": inconsistent}
    small_dis = None
    if disagreements:
        h, d = disagreements[0]
        def run_one(s):
            r, err = run_chunk(exes[h["net"]], ml, wfiles[h["net"]][0], wfiles[h["net"]][1], [s], h["mode"] != "hook", timeout=300)
            if not r:
                return None
            bad = [x for x in r if first_diff(x) is not None]
            return bad[0] if bad else r[0]
        small_dis = shrink(run_one, h["script"], lambda x: first_diff(x) is not None, budget=ctx.scale(80, 400))
        hs = run_one(small_dis)
        ds = first_diff(hs) if hs else None
        replay["disagreement"] = {"net": h["net"], "mode": h["mode"], "script": small_dis, "original_script": h["script"],
                                  "state_line": ds, "real": hs["real"][ds] if hs and ds is not None and ds < len(hs["real"]) else None,
                                  "model": hs["model"][ds] if hs and ds is not None and ds < len(hs["model"]) else None,
                                  "ops": hs["ops"] if hs else None, "count": len(disagreements)}
    if specfails:
        # the main run already contains evaluations that contradict the specification
        seen = set()
        for h, (kind, detail) in specfails:
            if kind in seen or len(seen) >= 2:
                continue
            seen.add(kind)
            report_failing(h["net"], h["script"], replay)
        return
    if not proof_broken and not corr_broken:
        return
    # (5) finder: implementation vs fresh evaluator / symmetric positions, aimed at the disagreement
    cand = []
    if disagreements:
        hnet = disagreements[0][0]["net"]
        for pos in range(1, len(small_dis) + 1):           # probe the shrunk history at every point
            cand.append((hnet, small_dis[:pos] + ["E", "Q"] + small_dis[pos:]))
        cand += [(x["net"], x["script"]) for x, _ in disagreements[:20]]
    def dense(sx):       # evaluation (vs fresh evaluator) and evalPos queries after every action
        out = [sx[0]]
        for a in sx[1:]:
            out.append(a)
            if a not in ("E", "Q"):
                out += ["E", "Q"]
        return out
    for _ in range(ctx.scale(40, 400)):
        sx = gen_script(rng, n_act, False)
        cand.append((rng.choice(nets)[0], dense(sx) if rng.random() < 0.5 else sx))
    found = None
    with ThreadPoolExecutor(max_workers=NCPU) as ex:
        for c, tr in zip(cand, ex.map(lambda c: impl_trace(c[0], c[1]), cand)):
            if real_failures(tr) and not found:
                found = c
    ctx.count("finder_histories_vs_fresh_evaluator", len(cand))
    if found:
        report_failing(found[0], found[1], replay)
    else:
        what = []
        if proof_broken:
            what.append("theorem(s) in %s no longer check%s" % (PROP_FILE, " (translator refusal: %s)" % tie_broken if tie_broken else ""))
        if disagreements:
            what.append("accumulator model and implementation disagree")
        if cache_dis:
            what.append("cache model and implementation disagree")
        if inconsistent:
            what.append("%d recorded op streams are not consistent with a board history" % inconsistent)
        replay["broken"] = "; ".join(what)
        ctx.violation("; ".join(what), replay, no_failing_input=True)


def replay(ctx, body):
    r = body.get("replay", {})
    gexe = build_exe()
    if "cache_script" in r:
        rc, so, se = sh([gexe, "cache"], input="\n".join(r["cache_script"]) + "\n", timeout=120)
        print("cache script:", r["cache_script"])
        print(so)
        print("(V lines: key, value returned by evalPos, value of a fresh evaluator at the same contempt)")
        return
    vf = r.get("variant")
    if vf and vf.get("level") == "kernel":
        for vn, fl in [("generic", [])] + simd_variants():
            rc, so, se = sh([build_exe(fl), "kern", str(vf["kernel_seed"]), str(vf["cases"])], timeout=600)
            print(vn, [l for l in so.split("\n") if l.startswith(("KREFDIFF", "KS"))][:6])
        return
    fi = vf or r.get("failing_input") or r.get("disagreement") or {}
    script = fi.get("script") or r.get("script")
    net = fi.get("net_kind") or fi.get("net") or r.get("net") or "random"
    seed = dict(NETS).get(net, 1)
    builds = [("generic", [])] + ([v for v in simd_variants() if vf and v[0] == vf.get("variant")])
    print("net: %s-%d" % (net, seed))
    print("script:", script)
    for vn, fl in builds:
        exe = build_exe(fl)
        rc, so, se = sh(hcmd((exe, net_file(gexe, net, seed)), "hist", "derived"), input="\n".join(script) + "\n", timeout=120)
        print("--- build %s" % vn)
        for l in so.split("\n"):
            if l.startswith("T ") and not l.startswith("T C"):
                print(l)
    print("(T E <eval> <fresh evaluator's eval> same|FRESHDIFF <fen>;  T Q <evalPos> <fresh> <colour-swapped> <mirrored> ...)")
