"""C08 — the transposition table never returns mixed or out-of-range data (DESIGN.md section 6).

Stages: (1) translate lib/texellib/transpositionTable.{hpp,cpp} -> coq/gen/TTGen.v (tx/);
(2) prove Properties_C08.v; (3) build harness/tt_harness.cpp + the extracted model driver;
(4) correspond: leaf self-validation, getIndex tuples, single-threaded op sequences, and
multi-threaded hammer runs validated against coq/TT/Atomic.v; implementation-vs-Spec checks
run on the same data; (5) finder + VIOLATION when (1), (2) or (4) broke.
"""
import os
import time
from concurrent.futures import ThreadPoolExecutor

from tx import tt_unit
from tx.leaf import TranslatorError
from vlib import cbuild, coqbuild
from vlib.common import NCPU, REPO, VERIF, sh

PROP_FILE = "Properties_C08.v"

# ---- specification-side constants (from the property statement / the documented entry layout,
#      deliberately NOT read from the code) ----
MATE0 = 32000
MAX_PLY = 200
SPEC_LAYOUT = {"move": (0, 16), "score": (16, 16), "depth": (32, 9), "busy": (41, 1),
               "generation": (42, 4), "type": (46, 2), "eval": (48, 16)}
M64 = (1 << 64) - 1


def hx(v):
    return ("-%x" % -v) if v < 0 else ("%x" % v)


def unhx(s):
    return -int(s[1:], 16) if s.startswith("-") else int(s, 16)


def field(d, name):
    f, s = SPEC_LAYOUT[name]
    return (d >> f) & ((1 << s) - 1)


def s16(v):
    return v - 65536 if v >= 32768 else v


def spec_same_but_generation(d1, d2):
    f, s = SPEC_LAYOUT["generation"]
    m = ((1 << s) - 1) << f
    return (d1 & ~m) == (d2 & ~m)


def spec_shift(s, p1, p2):
    """score stored at ply p1, read at ply p2 (the property's arithmetic definition)"""
    if s > MATE0 // 2:
        return s - (p2 - p1)
    if s < -(MATE0 // 2):
        return s + (p2 - p1)
    return s


# ---------------------------------------------------------------------------------------
# generators
def boundary_int(rng, lo, hi, specials=()):
    r = rng.random()
    cand = [lo, hi, 0, 1, -1, lo + 1, hi - 1] + list(specials)
    cand = [c for c in cand if lo <= c <= hi]
    if r < 0.35 and cand:
        return rng.choice(cand)
    return rng.randint(lo, hi)


def rand_word(rng):
    r = rng.random()
    if r < 0.15:
        return rng.choice([0, M64, 1 << 63, (1 << 63) - 1, 0xffff000000000000, 0x0000ffffffffffff, 0x5555555555555555, 0xaaaaaaaaaaaaaaaa])
    if r < 0.3:
        return rng.getrandbits(64) & rng.getrandbits(64)
    if r < 0.45:
        return (rng.getrandbits(64) | rng.getrandbits(64)) & M64
    return rng.getrandbits(64)


SCORE_SPECIALS = [MATE0, -MATE0, MATE0 - 1, 1 - MATE0, MATE0 // 2, MATE0 // 2 + 1, -(MATE0 // 2), -(MATE0 // 2) - 1,
                  MATE0 - 200, 200 - MATE0, 31998, -31999, -32767, -32766, 32767, -32768]


def rand_score(rng, wide=False):
    r = rng.random()
    if r < 0.4:
        return rng.choice(SCORE_SPECIALS[:12] if not wide else SCORE_SPECIALS)
    if r < 0.6:
        return rng.choice([1, -1]) * (MATE0 - rng.randint(0, 400))
    if r < 0.75:
        return rng.choice([1, -1]) * (MATE0 // 2 + rng.randint(-3, 3))
    return rng.randint(-MATE0, MATE0)


def gen_leaf_cases(rng, n):
    """Boundary-biased argument tuples for every translated leaf function (valid C++ domain:
    no shift counts >= width, squares 0..63, int arguments far from INT_MAX)."""
    out = []
    layout = list(SPEC_LAYOUT.values())

    def ent():
        return "%s %s" % (hx(rand_word(rng)), hx(rand_word(rng)))

    def fs():
        if rng.random() < 0.7:
            return rng.choice(layout)
        f = rng.randint(0, 63)
        return f, rng.randint(0, min(32, 64 - f))
    for _ in range(n):
        k = rng.randrange(34)
        if k == 0:
            out.append("L isWinScore %s" % hx(rand_score(rng, True)))
        elif k == 1:
            out.append("L isLoseScore %s" % hx(rand_score(rng, True)))
        elif k == 2:
            out.append("L getCompressedMove %s %s %s" % (hx(rng.randint(0, 63)), hx(rng.randint(0, 63)), hx(rng.randint(0, 15))))
        elif k == 3:
            out.append("L setFromCompressed %s %s" % (hx(rand_score(rng)), hx(rng.getrandbits(16))))
        elif k == 4:
            out.append("L isEmpty %s %s" % (hx(rng.choice([0, 0, 1, 63, rng.randint(0, 63)])), hx(rng.choice([0, 0, 1, 63, rng.randint(0, 63)]))))
        elif k == 5:
            f, s = fs()
            out.append("L getBits %s %s %s" % (ent(), hx(f), hx(s)))
        elif k == 6:
            f, s = fs()
            out.append("L setBits %s %s %s %s" % (ent(), hx(f), hx(s), hx(rng.choice([0, 0xffffffff, 1, rng.getrandbits(32), rng.getrandbits(16)]))))
        elif k == 7:
            out.append("L getKey %s" % ent())
        elif k == 8:
            out.append("L setKey %s %s" % (ent(), hx(rand_word(rng))))
        elif k == 9:
            out.append("L getData %s" % ent())
        elif k == 10:
            out.append("L store %s" % ent())
        elif k == 11:
            out.append("L load %s" % ent())
        elif k == 12:
            out.append("L clear %s" % ent())
        elif k == 13:
            out.append("L getMove %s %s" % (ent(), hx(rand_score(rng))))
        elif k == 14:
            out.append("L setMove %s %s %s %s" % (ent(), hx(rng.randint(0, 63)), hx(rng.randint(0, 63)), hx(rng.randint(0, 15))))
        elif k == 15:
            out.append("L getScore %s %s" % (ent(), hx(boundary_int(rng, 0, 300, [MAX_PLY, 100]))))
        elif k == 16:
            out.append("L setScore %s %s %s" % (ent(), hx(rand_score(rng, True)), hx(boundary_int(rng, 0, 300, [MAX_PLY, 100]))))
        elif k == 17:
            out.append("L getDepth %s" % ent())
        elif k == 18:
            out.append("L setDepth %s %s" % (ent(), hx(boundary_int(rng, -5, 600, [511, 512, 255, 256]))))
        elif k == 19:
            out.append("L getBusy %s" % ent())
        elif k == 20:
            out.append("L setBusy %s %s" % (ent(), rng.choice("01")))
        elif k == 21:
            out.append("L getGeneration %s" % ent())
        elif k == 22:
            out.append("L setGeneration %s %s" % (ent(), hx(boundary_int(rng, -3, 20, [15, 16]))))
        elif k == 23:
            out.append("L getType %s" % ent())
        elif k == 24:
            out.append("L setType %s %s" % (ent(), hx(boundary_int(rng, -1, 6, [3, 4]))))
        elif k == 25:
            out.append("L getEvalScore %s" % ent())
        elif k == 26:
            out.append("L setEvalScore %s %s" % (ent(), hx(rand_score(rng, True))))
        elif k in (27, 28):
            out.append("L isCutOff %s %s %s %s %s" % (ent(), hx(rand_score(rng)), hx(rand_score(rng)),
                                                      hx(boundary_int(rng, 0, 300, [MAX_PLY])), hx(boundary_int(rng, -2, 520, [511]))))
        elif k in (29, 30):
            out.append("L betterThan %s %s %s" % (ent(), ent(), hx(rng.randint(0, 15))))
        elif k in (31, 32):
            sh_ = rng.randint(0, 40)
            out.append("L getIndex %s %s %s %s" % (hx(rng.randint(0, 255)), hx(sh_), hx(((1 << sh_) - 1) & ~3), hx(rand_word(rng))))
        else:
            out.append("L nextGeneration %s" % hx(rng.choice([0, 1, 14, 15, 16, 255, rng.randint(0, 255)])))
    return out


def hash_sizes():
    """entry counts the Hash option produces for 1..64 MB, and their tablebase-reduced sizes"""
    full = [mb * (1 << 20) // 16 for mb in range(1, 65)]
    red = [n - 5 * 1024 * 1024 // 16 for n in full if n * 16 >= 7 * 1024 * 1024]
    return full, red


BASE_SIZES = [512, 516, 1000, 1024, 65536, (1 << 20) - 4]


def gen_key(rng, top=None, low=None):
    t = rng.choice([0, 0xffff, 0x8000, 0x7fff, 1, 0xfffe]) if rng.random() < 0.3 else rng.getrandbits(16)
    if top is not None:
        t = top
    lo = rng.choice([0, 3, 4, 0xffffff, 0xfffffc, 0x800000, 1, 2, 7]) if rng.random() < 0.3 else rng.getrandbits(24)
    if low is not None:
        lo = low
    mid = rng.getrandbits(24)
    return (t << 48) | (mid << 24) | lo


def gen_session(rng, size, n_ops, tb=False, small=False):
    """One single-threaded op sequence.  Keys: a pool in which most keys share a bucket
    (same top 16 bits and same low 24 bits) so that replacement and key-match paths are hit."""
    ops = ["NEW %s" % hx(size)]
    pools = []
    for _ in range(2):
        top, low = rng.getrandbits(16), rng.getrandbits(24)
        if rng.random() < 0.3:
            top = rng.choice([0, 0xffff])
        pools.append([gen_key(rng, top, low) for _ in range(rng.randint(3, 7))])
    keys = pools[0] + pools[1] + [gen_key(rng) for _ in range(3)]
    if rng.random() < 0.1:
        keys.append(0)
    if rng.random() < 0.4:
        ops.append("CONTEMPT %s" % hx(boundary_int(rng, -200, 200)))
    for _ in range(rng.choice([0, 0, 1, 3, 15, 16])):
        ops.append("GEN")
    if tb:
        ops.append("TBON")
        ops.append("TBSUM")
    for _ in range(n_ops):
        r = rng.random()
        key = rng.choice(keys)
        if r < 0.45:
            frm, to = rng.randint(0, 63), rng.randint(0, 63)
            if rng.random() < 0.25:
                to = frm                               # empty move: keeps the stored move on a key match
            typ = rng.choice([1, 2, 3, 1, 2, 3, 0])
            ops.append("INS %s %s %s %s %s %s %s %s %s %s" % (
                hx(key), hx(frm), hx(to), hx(rng.choice([0, 0, 0, 2, 3, 4, 5, 8, 11])), hx(rand_score(rng)),
                hx(typ), hx(boundary_int(rng, 0, MAX_PLY, [1, 2, 50])), hx(boundary_int(rng, -3, 511, [0, 1, 2, 3, 7, 100])),
                hx(rand_score(rng, True) if rng.random() < 0.5 else rng.randint(-500, 500)), rng.choice("0001")))
        elif r < 0.75:
            if rng.random() < 0.5:
                ops.append("PROBE %s 0 0" % hx(key))
            else:
                ops.append("PROBE %s %s %s" % (hx(key), hx(rand_word(rng)), hx(rand_word(rng))))
        elif r < 0.85:
            ops.append("BUSY %s %s" % (hx(key), hx(boundary_int(rng, 0, MAX_PLY))))
        elif r < 0.92:
            ops.append("GEN")
        elif r < 0.94:
            ops.append("GEN" if tb else "CLEAR")   # CLEAR drops the tablebase (and legitimately wipes its bytes)
        elif r < 0.96:
            ops.append("CONTEMPT %s" % hx(boundary_int(rng, -200, 200)))
        elif r < 0.97 and not tb:
            ops.append("RESIZE %s" % hx(rng.choice([size, size + 1, size + 4, max(4, size - 4), 512, 1024])))
        elif r < 0.985 and not tb:
            b = rng.randrange(size * 16 + 40)
            ops.append("PUTB %s %s" % (hx(b), hx(rng.getrandbits(8))))
            ops.append("GETB %s" % hx(b))
        elif not tb:
            sz = rng.choice([20 * 64, 20 * 64 * 64, 20 * 64 ** 3, rng.randint(1, 4096)])
            i = rng.choice([0, sz - 1, rng.randrange(sz)])
            ops.append("TBW %s %s %s" % (hx(sz), hx(i), hx(rng.getrandbits(8))))
            ops.append("TBR %s %s" % (hx(sz), hx(i)))
        else:
            ops.append("IDX %s" % hx(key))
    if tb:
        ops.append("TBSUM")
        ops.append("TBOFF")
        ops.append("CLEAR")      # the former tablebase bytes are unmodelled garbage entries until cleared
        ops.append("INS %s 1 2 0 5 1 0 3 0 0" % hx(rng.choice(keys)))
        ops.append("PROBE %s 0 0" % hx(rng.choice(keys)))
    return ops


def gen_alloc_session(rng):
    """reSize / setupTT-like retry sequences under injected allocation failures (ALLOCFAIL thr: every
    table of >= thr entries cannot be allocated), each followed by probes and inserts."""
    n0 = rng.choice([512, 1024, 4096, 65536, 65536, 1 << 20])
    keys = [gen_key(rng) for _ in range(4)]
    ops = ["NEW %s" % hx(n0)]

    def use(k=3):
        for _ in range(k):
            key = rng.choice(keys)
            if rng.random() < 0.5:
                ops.append("INS %s %s %s 0 %s %s %s %s %s 0" % (hx(key), hx(rng.randint(0, 63)), hx(rng.randint(0, 63)), hx(rand_score(rng)),
                                                              hx(rng.randint(1, 3)), hx(rng.randint(0, 60)), hx(rng.randint(0, 100)), hx(rng.randint(-300, 300))))
            else:
                ops.append("PROBE %s 0 0" % hx(key))
    use()
    cur = n0
    for _ in range(rng.randint(2, 5)):
        k = rng.randrange(6)
        if k == 0:      # Hash raised under memory pressure: the halving chain lands exactly on the old size
            ops.append("ALLOCFAIL %s" % hx(cur + 4))
            ops.append("SETUPTT %s" % hx(cur << rng.randint(1, 7)))
        elif k == 1:    # failed reSize, table unusable meanwhile, then the old size again
            ops.append("ALLOCFAIL %s" % hx(cur + rng.choice([4, 8, 1000])))
            ops.append("RESIZE %s" % hx(cur * rng.choice([2, 3, 64]) + rng.randint(0, 3)))
            use(2)
            ops.append("RESIZE %s" % hx(cur + rng.randint(0, 3)))
        elif k == 2:    # chain that does not hit the old size
            thr = rng.choice([cur, cur // 2 + 4, cur * 2, 520])
            ops.append("ALLOCFAIL %s" % hx(thr))
            ops.append("SETUPTT %s" % hx(cur * rng.choice([3, 5, 6, 12]) + rng.randint(0, 7)))
        elif k == 3:    # nothing can be allocated at all: the object stays without a table
            ops.append("ALLOCFAIL 4")
            ops.append("SETUPTT %s" % hx(cur * rng.choice([1, 2, 16])))
            use(2)
            ops.append("ALLOCFAIL 0")
            ops.append("RESIZE %s" % hx(cur))
        elif k == 4:    # no failure: early return on the same (rounded) size keeps the contents
            ops.append("ALLOCFAIL 0")
            ops.append("RESIZE %s" % hx(cur + rng.randint(0, 3)))
        else:
            ops.append("ALLOCFAIL 0")
            cur = rng.choice([512, 1000, 1024, 4096, 65536])
            ops.append("RESIZE %s" % hx(cur))
        use()
        # bring the table back to a known size: the next scenario's "old size"
        ops.append("ALLOCFAIL 0")
        ops.append("SETUPTT %s" % hx(cur))
    return ops


# ---------------------------------------------------------------------------------------
def private_copy(exe):
    """The shared build cache purges old entries whenever ANY check builds something; keep a
    private copy of the executables for the duration of this run."""
    import atexit
    import shutil
    d = os.path.join(VERIF, ".cache", "c08-run-%d" % os.getpid())
    os.makedirs(d, exist_ok=True)
    dst = os.path.join(d, os.path.basename(exe))
    shutil.copy2(exe, dst)
    atexit.register(shutil.rmtree, d, True)
    return dst


def run_both(cpp_exe, ml_exe, lines, timeout=900):
    stream = "\n".join(lines) + "\n"
    rc1, o1, e1 = sh([cpp_exe, "session"], input=stream, timeout=timeout)
    a = o1.split("\n")[:-1] if o1 else []
    if ml_exe is None:
        return rc1, 0, a, None, e1, ""
    rc2, o2, e2 = sh([ml_exe], input=stream, timeout=timeout)
    b = o2.split("\n")[:-1] if o2 else []
    return rc1, rc2, a, b, e1, e2


def first_diff(a, b):
    def norm(l):
        return " ".join(w for w in l.split() if not w.startswith("sig="))
    for i, (x, y) in enumerate(zip(a, b)):
        if norm(x) != norm(y) and not (x.startswith("T ") and y.startswith("T ")):
            return i
    if len(a) != len(b):
        return min(len(a), len(b))
    return None


def shrink_session(cpp_exe, ml_exe, ops):
    def bad(o):
        rc1, rc2, a, b, _, _ = run_both(cpp_exe, ml_exe, o, timeout=120)
        return rc1 != 0 or rc2 != 0 or first_diff(a, b) is not None
    rc1, rc2, a, b, _, _ = run_both(cpp_exe, ml_exe, ops, timeout=120)
    i = first_diff(a, b)
    cur = ops[:i + 1] if i is not None else list(ops)
    if not bad(cur):
        cur = list(ops)
    changed = True
    rounds = 0
    while changed and len(cur) > 2 and rounds < 4:
        changed = False
        rounds += 1
        for j in range(len(cur) - 2, 0, -1):
            cand = cur[:j] + cur[j + 1:]
            if bad(cand):
                cur = cand
                changed = True
    return cur


# ---- implementation-vs-Spec checks on single-threaded sessions (also the finder) ----
def spec_check_session(ops, out):
    """Checks, on the implementation's own output for a session, what the property says:
    index bounds, records returned on a hit were inserted for that key as one unit (fields of
    one insert; generation may have been refreshed), mate-score ply shift.  Returns the first
    failure as a dict or None.  Uses only SPEC_LAYOUT / MATE0, never the model."""
    used = None
    tsize = None
    contempt_on = False
    inserted = {}      # key -> list of (move, score, ply, depth, type, eval, busy)
    thr = 0            # ALLOCFAIL threshold in entries (0 = allocations succeed)
    must_be_valid = False   # the last (re)size operation returned normally and some request could be granted
    valid = True
    for i, (op, line) in enumerate(zip(ops, out)):
        t = op.split()
        r = line.split()
        if t[0] == "ALLOCFAIL":
            thr = unhx(t[1])
        if r and r[0] == "NULL" and must_be_valid:
            return dict(kind="reSize returned normally but the table pointer is null: this operation indexes off a null table",
                        op_index=i, op=op, observed=line, tableSize_believed=r[1])
        if r and r[0] == "S":
            tsize, used = unhx(r[1]), unhx(r[2])
            valid = (r[9] == "1") if len(r) > 9 else True
            if t[0] in ("NEW", "RESIZE", "SETUPTT"):
                x = int(r[-1][2:]) if r[-1].startswith("x=") else 0
                if t[0] == "RESIZE":
                    must_be_valid = (x == 0)
                elif t[0] == "SETUPTT":
                    must_be_valid = (thr == 0 or thr > 8) and unhx(t[1]) >= 1
                else:
                    must_be_valid = True
                n = unhx(t[1])
                want = max(4, n) & ~3
                if must_be_valid and not valid:
                    return dict(kind="reSize returned normally but left a null table pointer (tableSize still %d)" % tsize,
                                op_index=i, op=op, observed=line)
                if t[0] in ("NEW", "RESIZE") and must_be_valid and tsize != want:
                    return dict(kind="reSize returned normally with the wrong table size", op_index=i, op=op, observed=line, expected=want)
                if not valid and tsize != 0:
                    return dict(kind="null table pointer but tableSize != 0 (a later reSize to that size would return without allocating)",
                                op_index=i, op=op, observed=line)
            if not valid:
                used = None      # no table: nothing to bound
            if t[0] in ("NEW", "CLEAR"):
                inserted = {}           # cleared table: earlier records are gone
            if valid and used is not None and tsize is not None and used > tsize:
                return dict(kind="usedSize > tableSize", op_index=i, op=op, observed=line)
        if t[0] in ("RESIZE", "SETUPTT"):
            inserted = None       # may or may not have cleared: stop tracking records
        if t[0] == "CONTEMPT" and inserted:
            inserted = None             # internal keys change: stop relating hits to earlier inserts
        if r and r[0] in ("B", "R", "I") and used is not None and used >= 512:
            idxs = []
            if r[0] == "I":
                idxs = [unhx(r[1])]
            else:
                for j, w in enumerate(r):
                    if w == "B":
                        idxs.append(unhx(r[j + 1]))
            for idx in idxs:
                if idx % 4 != 0 or idx + 3 >= used:
                    return dict(kind="bucket outside the used part of the table", op_index=i, op=op, usedSize=used,
                                index=idx, observed=line)
        if r and r[0] == "OOR" and t[0] in ("INS", "PROBE", "BUSY") and used is not None and used >= 512:
            return dict(kind="bucket outside the table", op_index=i, op=op, usedSize=used, observed=line)
        if t[0] in ("PUTB", "TBW"):
            inserted = None       # raw byte writes into the table: records are no longer those of inserts
        if inserted is None:
            continue
        if t[0] == "INS" and r and r[0] == "B":
            key = unhx(t[1])
            rec = dict(move=(unhx(t[2]) + (unhx(t[3]) << 6) + (unhx(t[4]) << 12)) & 0xffff, score=unhx(t[5]), type=unhx(t[6]) & 3,
                       ply=unhx(t[7]), depth=max(0, unhx(t[8])) & 511, eval=unhx(t[9]), empty_move=(t[2] == t[3]))
            inserted.setdefault(key, []).append(rec)
        if t[0] in ("PROBE", "BUSY") and r and r[0] == "R":
            key = unhx(t[1])
            rk, rd = unhx(r[1]), unhx(r[2])
            # The API's own miss indicator is `type == T_EMPTY` (probe clears the type of the caller's
            # result object on a miss; every caller tests getType()).  An internal key of 0 decodes every
            # EMPTY slot (key word 0 xor data word 0), so a probe for it "finds" an empty slot and returns
            # data 0 = type T_EMPTY: a miss for every caller.  Only results with a non-empty type are hits.
            hit = field(rd, "type") != 0
            if t[0] == "PROBE" and rk == unhx(t[2]):
                # result key unchanged: a miss (or a hit on a key equal to the sentinel: not decidable here)
                hit = False
            if not hit:
                continue
            recs = inserted.get(key, [])
            if t[0] == "BUSY":
                # setBusy re-inserts the probed record (score read at ply p, stored again at ply p)
                # under the entry's own key; later hits may return that derived record
                p = unhx(t[2])
                st = s16(field(rd, "score"))
                sc = st - p if st > MATE0 // 2 else st + p if st < -(MATE0 // 2) else st
                inserted.setdefault(rk, []).append(dict(move=field(rd, "move"), score=sc, type=field(rd, "type"), ply=p,
                                                        depth=field(rd, "depth"), eval=s16(field(rd, "eval")), empty_move=False))
            if not recs:
                if key == 0 or rd == 0:
                    continue           # the all-zero slot decodes to key 0
                if field(rd, "type") == 0:
                    continue
                # BUSY re-inserts under the probed entry's own key: a later hit may come from it
                continue
            ok = False
            for rec in recs:
                if field(rd, "depth") != rec["depth"] or field(rd, "type") != rec["type"]:
                    continue
                if s16(field(rd, "eval")) != s16(rec["eval"] & 0xffff):
                    continue
                want = rec["score"] + rec["ply"] if rec["score"] > MATE0 // 2 else rec["score"] - rec["ply"] if rec["score"] < -(MATE0 // 2) else rec["score"]
                if s16(field(rd, "score")) != s16(want & 0xffff):
                    continue
                if not rec["empty_move"] and field(rd, "move") != rec["move"]:
                    continue
                ok = True
                break
            if not ok:
                return dict(kind="hit returned a record that no insert for this key wrote as a unit", op_index=i, op=op,
                            observed=line, inserted_for_key=recs[-4:])
    return None


def leaf_spec_checks(cpp_exe, rng, n):
    """Implementation vs arithmetic definitions: ply shift and field round trips / independence."""
    lines = []
    meta = []
    for _ in range(n):
        d = rand_word(rng)
        s = rand_score(rng)
        p1 = boundary_int(rng, 0, MAX_PLY, [1, 2])
        p2 = boundary_int(rng, 0, MAX_PLY, [1, 2])
        lines.append("L setScore 0 %s %s %s" % (hx(d), hx(s), hx(p1)))
        meta.append(("set", d, s, p1, p2))
    rc, out, err = sh([cpp_exe, "session"], input="\n".join(lines) + "\n", timeout=300)
    res = out.split("\n")[:-1]
    if rc != 0 or len(res) != len(lines):
        return dict(kind="harness failed in ply-shift check", rc=rc, err=err[-500:]), 0
    lines2 = []
    for (k, d, s, p1, p2), r in zip(meta, res):
        d2 = unhx(r.split()[1])
        lines2.append("L getScore 0 %s %s" % (hx(d2), hx(p2)))
    rc, out, err = sh([cpp_exe, "session"], input="\n".join(lines2) + "\n", timeout=300)
    res2 = out.split("\n")[:-1]
    for (k, d, s, p1, p2), r1, r2 in zip(meta, res, res2):
        got = unhx(r2.split()[1])
        d2 = unhx(r1.split()[1])
        if got != spec_shift(s, p1, p2):
            return dict(kind="mate score not shifted by the ply difference", data=hx(d), score=s, stored_at_ply=p1, read_at_ply=p2,
                        expected=spec_shift(s, p1, p2), observed=got), len(meta)
        for name in SPEC_LAYOUT:
            if name != "score" and field(d, name) != field(d2, name):
                return dict(kind="setScore changed another field", field=name, data=hx(d), after=hx(d2), score=s, ply=p1), len(meta)
    # field round trips / independence through the public accessors
    acc = [("Depth", "depth", lambda: boundary_int(rng, 0, 511)), ("Generation", "generation", lambda: rng.randint(0, 15)),
           ("Type", "type", lambda: rng.randint(0, 3)), ("EvalScore", "eval", lambda: rand_score(rng, True)),
           ("Busy", "busy", lambda: rng.randint(0, 1))]
    lines, meta = [], []
    for _ in range(n):
        d = rand_word(rng)
        nm, sp, g = rng.choice(acc)
        v = g()
        lines.append("L set%s 0 %s %s" % (nm, hx(d), hx(v)))
        meta.append((nm, sp, d, v))
    rc, out, err = sh([cpp_exe, "session"], input="\n".join(lines) + "\n", timeout=300)
    res = out.split("\n")[:-1]
    lines2 = []
    for (nm, sp, d, v), r in zip(meta, res):
        lines2.append("L get%s 0 %s" % (nm, r.split()[1]))
    rc, out, err = sh([cpp_exe, "session"], input="\n".join(lines2) + "\n", timeout=300)
    res2 = out.split("\n")[:-1]
    for (nm, sp, d, v), r1, r2 in zip(meta, res, res2):
        d2 = unhx(r1.split()[1])
        got = unhx(r2.split()[1])
        if got != v:
            return dict(kind="get after set does not return the value", accessor=nm, data=hx(d), value=v, observed=got), 2 * len(meta)
        for name in SPEC_LAYOUT:
            if name != sp and field(d, name) != field(d2, name):
                return dict(kind="a setter changed another field", accessor=nm, other=name, data=hx(d), after=hx(d2), value=v), 2 * len(meta)
    return None, 2 * len(meta)


# ---- multi-threaded hammer ----
def run_hammer(cpp_exe, threads, ops, nkeys, seed, ngen, size, contempt):
    rc, out, err = sh([cpp_exe, "hammer", str(threads), str(ops), str(nkeys), str(seed), str(ngen), str(size), str(contempt)], timeout=300)
    if rc != 0:
        return None, "hammer rc=%d %s" % (rc, err[-300:])
    g = None
    keyidx = {}
    stores = []
    probes = []
    misses = 0
    pend = {}
    for line in out.split("\n"):
        t = line.split()
        if not t:
            continue
        if t[0] == "G":
            g = unhx(t[1])
        elif t[0] == "K":
            keyidx[unhx(t[1])] = unhx(t[2])
        elif t[0] == "S":
            stores.append((unhx(t[2]), unhx(t[3])))
        elif t[0] == "P":
            pend[t[1]] = unhx(t[2])
        elif t[0] == "R":
            probes.append((pend.pop(t[1]), unhx(t[2]), unhx(t[3])))
        elif t[0] == "M":
            misses += 1
    return dict(g=g, keyidx=keyidx, stores=stores, probes=probes, misses=misses), None


def hammer_spec_check(h):
    """Spec: every hit returns a data word that was stored as one unit for exactly that key
    (the generation field may have been refreshed)."""
    by_key = {}
    for k, d in h["stores"]:
        by_key.setdefault(k, set()).add(d)
    blends = []
    for pk, rk, rd in h["probes"]:
        if rk != pk:
            blends.append(dict(kind="probe returned an entry for another key", probed=hx(pk), returned_key=hx(rk), data=hx(rd)))
            continue
        ds = by_key.get(pk, set())
        if rd in ds:
            continue
        if any(spec_same_but_generation(rd, d) for d in ds):
            continue
        if rd == 0 or (pk == 0):
            continue
        blends.append(dict(kind="probe returned data that was never stored for this key (blend)", key=hx(pk), data=hx(rd),
                           stored_for_other_key=[hx(k) for k, dd in h["stores"] if dd == rd and k != pk][:3]))
    return blends


def hammer_validate(ml_exe, h, fuel=4):
    """Trace validation against Atomic.v: per bucket, all stores to the bucket's keys form the
    store log of each of its four slots (which slot a store went to is not observable)."""
    buckets = {}
    for k, idx in h["keyidx"].items():
        buckets.setdefault(idx, []).append(k)
    lines = []
    order = []
    for idx, keys in buckets.items():
        ks = set(keys)
        lines.append("ATOM %s %d" % (hx(h["g"]), fuel))
        for k in keys:
            lines.append("K %s" % hx(k))
        for k, d in set(h["stores"]):
            if k in ks:
                lines.append("S %s %s" % (hx(k), hx(d)))
        n = 0
        for pk, rk, rd in h["probes"]:
            if pk in ks:
                lines.append("P %s %s" % (hx(pk), hx(rd) if rk == pk else "-1"))
                order.append((pk, rk, rd))
                n += 1
        lines.append("END")
    rc, out, err = sh([ml_exe], input="\n".join(lines) + "\n", timeout=120)
    res = out.split("\n")[:-1]
    bad = []
    it = iter(order)
    closed_ok = True
    extra = 0
    for r in res:
        if r.startswith("C "):
            closed_ok = closed_ok and r.split()[1] == "1"
            extra += int(r.split()[2])
            continue
        pk, rk, rd = next(it)
        if r != "OK":
            bad.append(dict(key=hx(pk), returned_key=hx(rk), data=hx(rd)))
    if rc != 0 or len([r for r in res if not r.startswith("C ")]) != len(order):
        return None, "validator failed rc=%d %s" % (rc, err[-300:])
    return dict(bad=bad, fixpoint=closed_ok, refresh_stores=extra, validated=len(order)), None


# ---------------------------------------------------------------------------------------
def run(ctx):
    rng = ctx.rng
    ctx.rule = ("(a) leaf self-validation: boundary-biased argument tuples for each of the 36 translated functions, real C++ vs "
                "extracted Gallina; (b) getIndex on (key,size) tuples: sizes {512,516,1000,1024,65536,2^20-4, Hash=1..64 MB, "
                "tablebase-reduced}, keys = boundary/random top 16 bits x boundary low bits; (c) single-threaded sessions "
                "(NEW/RESIZE/CLEAR/GEN/CONTEMPT/INS/PROBE/BUSY/PUTB/GETB/TBW/TBR/TBON/TBOFF, plus ALLOCFAIL/RESIZE/SETUPTT retry "
                "sequences under injected allocation failures) comparing table parameters, pointer validity, the "
                "probed record and the raw words of the whole bucket after every op; keys drawn from pools sharing a bucket; "
                "(d) 2-16 threads hammering 8 keys in 2 buckets, every hit validated against Atomic.v. "
                "non-trivial = session with >=1 key-match or replacement in a full bucket / index tuple with size not a power of "
                "two or low bits != 0 / hammer run with >=2 threads; distinct by op list")
    ctx.trusted_base = ["Coq 8.16.1 kernel (coqc, vm_compute)",
                        "tx/leaf.py + clang 14 JSON AST (translator; self-validated against the C++ on every run)",
                        "extraction (ExtrOcamlBasic only) + OCaml 4.13 + drivers/tt_driver.ml", "harness/tt_harness.cpp",
                        "hand-written model coq/TT/{Table,TBRegion}.v tied by correspondence; Atomic.v = C++11 relaxed-atomics over-approximation (Appendix A1)",
                        "compiler/CPU implement relaxed std::atomic<U64> load/store as the C++ memory model says"]
    ctx.assumptions = ["table model = code by differential testing of all observable words, not by proof",
                       "C08_no_blend leaves the xor coincidence k^k1 = d1^d2 (k not the key of either store) as an explicit case: same class as a 64-bit hash collision",
                       "domain: used sizes >= 512 entries (C08_index_small_refuted documents the failure below)",
                       "a probe result with type T_EMPTY is a miss (the API's own convention); internal key 0 (Zobrist key == contempt hash, the 2^-64 collision class) "
                       "decodes every empty slot and is returned as such a miss; C08_bucket_refines_map exempts key 0 in the same way"]
    replay = {}
    tie_broken = False
    # (1) translate
    t0 = time.time()
    try:
        text, changed = tt_unit.generate(VERIF, REPO)
        ctx.notes["translator"] = {"generated": "coq/gen/TTGen.v", "changed_this_run": bool(changed),
                                   "functions": text.count("_noovf ") , "seconds": round(time.time() - t0, 1)}
    except TranslatorError as ex:
        tie_broken = True
        replay["translator_error"] = str(ex)
        ctx.log("translator refused: %s" % ex)
        # a stale generated file must not be used to discharge anything
        stale = os.path.join(VERIF, "coq", "gen", "TTGen.v")
        if os.path.exists(stale):
            os.remove(stale)
    # (2) prove
    ok, info = (False, {"errors": [("gen/TTGen.v", 0, "not generated")]}) if tie_broken else \
        coqbuild.prove(ctx, PROP_FILE, timeout=ctx.scale(900, 1800))
    proof_broken = not ok
    ctx.log("stage 1-2 (translate, prove) finished")
    if proof_broken:
        ctx.log("proof stage failed: %s" % (info.get("errors") or info)[:3])
    # (3) build
    cpp_exe = private_copy(cbuild.build_harness("tt_harness"))
    ml_exe = None
    try:
        if not tie_broken:
            ml_exe = private_copy(coqbuild.extract("ExtractTT.v", "tt_driver.ml", "tt_driver"))
    except Exception as ex:  # model no longer compiles against the regenerated definitions
        replay["extraction_error"] = str(ex)[-1500:]
        ctx.log("extraction failed (model does not build against the regenerated code)")
    disagreements = []
    spec_failures = []
    ctx.log("stage 3 (harness + extracted model built) finished")

    def note_spec(f, key):
        if f:
            spec_failures.append((f, key))

    # (4a) leaf self-validation
    n_leaf = ctx.scale(40000, 1500000)
    leaf_lines = gen_leaf_cases(rng, n_leaf)
    if ml_exe:
        chunks = [leaf_lines[i:i + 5000] for i in range(0, len(leaf_lines), 5000)]
        with ThreadPoolExecutor(max_workers=NCPU) as ex:
            results = list(ex.map(lambda ch: run_both(cpp_exe, ml_exe, ch), chunks))
        for ch, (rc1, rc2, a, b, e1, e2) in zip(chunks, results):
            if rc1 != 0 or rc2 != 0 or len(a) != len(ch) or len(b) != len(ch):
                disagreements.append(dict(kind="leaf", ops=ch[:3], note="rc=%s/%s %s %s" % (rc1, rc2, e1[-200:], e2[-200:])))
                continue
            for l, x, y in zip(ch, a, b):
                ctx.evaluated()
                ctx.count("leaf_" + l.split()[1])
                if x != y:
                    disagreements.append(dict(kind="leaf", ops=[l], cpp=x, model=y))
        ctx.sample({"leaf": leaf_lines[0], "cpp": results[0][2][0] if results[0][2] else None, "model": results[0][3][0] if results[0][3] else None})
    f, n = leaf_spec_checks(cpp_exe, rng, ctx.scale(4000, 200000))
    ctx.count("spec_ply_shift_and_field_roundtrips", n)
    note_spec(f, "leaf:%s" % (f or {}).get("kind"))

    ctx.log("stage 4a (leaf self-validation, %d tuples) finished" % n_leaf)
    # (4b) getIndex tuples
    full, red = hash_sizes()
    sizes = BASE_SIZES + full + [rng.choice(red) for _ in range(6)] + [rng.randrange(512, 1 << 22) & ~3 for _ in range(ctx.scale(10, 200))]
    n_idx = ctx.scale(100000, 3000000)
    per = max(1, n_idx // len(sizes))
    idx_sessions = []
    for s in sizes:
        ops = ["NEW %s" % hx(s)]
        if rng.random() < 0.3:
            ops.append("CONTEMPT %s" % hx(rng.randint(-100, 100)))
        tops = list(range(0, 65536, max(1, 65536 // per))) if rng.random() < 0.2 else None
        for j in range(per):
            top = tops[j % len(tops)] if tops else None
            ops.append("IDX %s" % hx(gen_key(rng, top=top)))
        idx_sessions.append(ops)
    small_sessions = [["NEW %s" % hx(s)] + ["IDX %s" % hx(gen_key(rng)) for _ in range(50)] for s in (4, 8, 100, 252, 256, 260, 508)]

    # (4c) op sequences
    n_seq = ctx.scale(2000, 100000)
    sessions = []
    corpus = os.path.join(VERIF, "corpus", "c08.txt")
    if os.path.exists(corpus):
        for blk in open(corpus).read().split("\n\n"):
            ops = [l for l in blk.strip().split("\n") if l and not l.startswith("#")]
            if ops:
                sessions.append(("corpus", ops))
    seq_sizes = BASE_SIZES + [full[0], full[1], full[15], full[63], red[0], red[-1]]
    for i in range(n_seq):
        r = rng.random()
        if r < 0.80:
            s = rng.choice(BASE_SIZES[:5])
        elif r < 0.93:
            s = rng.choice(seq_sizes)
        elif r < 0.97:
            s = rng.choice(full + red)
        else:
            s = rng.choice([4, 8, 100, 256, 260, 508])         # outside the domain: OOR expected, must agree
        sessions.append(("small" if s < 512 else "seq", gen_session(rng, s, rng.randint(10, 70))))
    for i in range(ctx.scale(150, 5000)):
        sessions.append(("alloc", gen_alloc_session(rng)))
    for i in range(ctx.scale(6, 60)):
        s = rng.choice([n for n in full if n * 16 >= 7 * 1024 * 1024][:20] + [1 << 20])
        sessions.append(("tb", gen_session(rng, s, rng.randint(20, 60), tb=True)))
    all_sessions = [("idx", o) for o in idx_sessions] + [("idxsmall", o) for o in small_sessions] + sessions

    def run_session(item):
        kind, ops = item
        return run_both(cpp_exe, ml_exe, ops, timeout=900)

    # Sessions are independent (each starts with NEW); several are sent through one process pair to save
    # process start-ups, separated by `ALLOCFAIL 0` (whose output line is dropped).  A batch in which either
    # side stops early or miscounts is re-run session by session, so a crash is attributed to one session.
    BATCH = ctx.scale(8, 40)
    batches, cur = [], []
    for item in all_sessions:
        if item[0] == "idx":
            batches.append([item])
            continue
        cur.append(item)
        if len(cur) >= BATCH:
            batches.append(cur)
            cur = []
    if cur:
        batches.append(cur)

    def run_batch(batch):
        if len(batch) == 1:
            return [run_session(batch[0])]
        lines = []
        for kind, ops in batch:
            lines.extend(ops)
            lines.append("ALLOCFAIL 0")
        rc1, rc2, a, b, e1, e2 = run_both(cpp_exe, ml_exe, lines, timeout=1800)
        if rc1 != 0 or len(a) != len(lines) or (b is not None and (rc2 != 0 or len(b) != len(lines))):
            return [run_session(it) for it in batch]
        out, pos = [], 0
        for kind, ops in batch:
            n = len(ops)
            out.append((0, 0, a[pos:pos + n], None if b is None else b[pos:pos + n], "", ""))
            pos += n + 1
        return out
    batch_times = []

    def timed_batch(batch):
        t0 = time.time()
        r = run_batch(batch)
        batch_times.append((round(time.time() - t0, 1), batch[0][0], batch[0][1][0], len(batch)))
        return r
    with ThreadPoolExecutor(max_workers=NCPU) as ex:
        results = [r for rs in ex.map(timed_batch, batches) for r in rs]
    ctx.notes["slowest_batches"] = sorted(batch_times, reverse=True)[:5]
    all_sessions = [it for bt in batches for it in bt]
    for (kind, ops), (rc1, rc2, a, b, e1, e2) in zip(all_sessions, results):
        if rc1 != 0 or len(a) != len(ops):
            disagreements.append(dict(kind="session-crash", ops=ops, note="harness rc=%s lines=%d/%d %s" % (rc1, len(a), len(ops), e1[-300:])))
            continue
        ctx.evaluated(len(ops))
        ctx.count("sessions_" + kind)
        for op in ops:
            ctx.count("op_" + op.split()[0])
        ctx.count("overrun_ops_outside_domain", sum(1 for l in a if l == "OOR"))
        if kind in ("seq", "tb", "corpus", "alloc"):
            ctx.nontrivial(" ".join(ops))
        if kind == "alloc":
            ctx.count("alloc_bad_alloc_exceptions", sum(int(l.split()[-1][2:]) for l in a if l.startswith("S ") and l.split()[-1].startswith("x=")))
            ctx.count("alloc_ops_on_null_table", sum(1 for l in a if l.startswith("NULL")))
            ctx.count("alloc_retry_recovered_after_failures", sum(1 for o, l in zip(ops, a) if o.startswith("SETUPTT") and l.split()[-1] != "x=0" and l.split()[9] == "1"))
        elif kind == "idx":
            for op in ops[1:]:
                ctx.nontrivial(ops[0] + op)
        f = spec_check_session(ops, a)
        if f:
            f["ops"] = ops[:f["op_index"] + 1]
        note_spec(f, "session:%s" % ";".join((f or {}).get("op", "").split()[:2]))
        if kind == "tb":
            sums = [l for l in a if l.startswith("T ")]
            if len(set(sums)) > 1:
                note_spec(dict(kind="ordinary operations changed the resident tablebase bytes", ops=ops, sums=sums), "tb-region-overwritten")
            ctx.count("tb_sessions_resident", sum(1 for o, l in zip(ops, a) if o == "TBON" and l.split()[8] == "1" and l.split()[-1] == "1"))
        if b is not None:
            d = first_diff(a, b)
            if rc2 != 0 or d is not None:
                disagreements.append(dict(kind="session", ops=ops, at=d, op=ops[d] if d is not None and d < len(ops) else None,
                                          cpp=a[d] if d is not None and d < len(a) else None,
                                          model=b[d] if d is not None and d < len(b) else None, note=e2[-300:]))
            # coverage of the model's case splits
            for op, l in zip(ops, a):
                if op.startswith("PROBE") and l.startswith("R"):
                    ctx.count("probe_hit" if l.split()[1] != op.split()[2] else "probe_miss_or_sentinel")
    for (kind, ops), (rc1, rc2, a, b, e1, e2) in zip(all_sessions, results):
        if kind == "seq" and a:
            ctx.sample({"ops": ops[:6], "cpp": a[:6], "model": (b or [])[:6]}, limit=3)
            break
    ctx.log("stage 4b-c (%d sessions in %d batches) finished" % (len(all_sessions), len(batches)))
    # the refuted-theorem witness, replayed on the implementation (outside the property's domain)
    rc, out, err = sh([cpp_exe, "session"], input="NEW 100\nIDX ffff000000000000\n", timeout=60)
    w = out.split("\n")
    if len(w) >= 2 and w[1].startswith("I "):
        idx = unhx(w[1].split()[1])
        ctx.notes["C08_index_small_refuted_replayed"] = {"size": 256, "key": "ffff000000000000", "index": idx,
                                                         "overruns": idx + 3 >= 256}

    # (4d) multi-threaded hammer, validated against Atomic.v
    n_ham = ctx.scale(40, 600)
    ham_ops = ctx.scale(400, 1500)
    total_blend = []
    validation_failed = False
    pending = []
    val_pool = ThreadPoolExecutor(max_workers=max(2, NCPU // 2))
    stop_validation = []

    def validate_job(h):
        if stop_validation:
            return None, "skipped"      # an earlier trace was rejected / the validator timed out: one report is enough
        v, e = hammer_validate(ml_exe, h)
        if v is None or v["bad"]:
            stop_validation.append(1)
        return v, e
    for i in range(n_ham):
        threads = rng.choice([2, 3, 4, 8, 12, 16])
        size = rng.choice([512, 516, 1000, 1024, 65536])
        ngen = rng.choice([0, 1, 5, 15, 17])
        contempt = rng.choice([0, 0, 25, -13])
        seed = rng.getrandbits(40)
        h, e = run_hammer(cpp_exe, threads, ham_ops, 8, seed, ngen, size, contempt)
        args = dict(threads=threads, ops=ham_ops, nkeys=8, seed=seed, ngen=ngen, size=size, contempt=contempt)
        if h is None:
            disagreements.append(dict(kind="hammer-crash", args=args, note=e))
            continue
        ctx.evaluated(len(h["stores"]) + len(h["probes"]) + h["misses"])
        ctx.count("hammer_runs")
        ctx.count("hammer_stores", len(h["stores"]))
        ctx.count("hammer_hits", len(h["probes"]))
        ctx.count("hammer_misses", h["misses"])
        ctx.nontrivial("hammer %s" % sorted(args.items()))
        for k, idx in h["keyidx"].items():
            if idx % 4 != 0 or idx + 3 >= size:
                note_spec(dict(kind="bucket outside the table in the multi-threaded run", key=hx(k), index=idx, size=size), "hammer-index")
        bl = hammer_spec_check(h)
        if bl:
            total_blend.append((args, bl))
            note_spec(dict(kind=bl[0]["kind"], hammer_args=args, first=bl[0], count=len(bl)), "blend:%s" % bl[0].get("key"))
        if ml_exe and not validation_failed:
            pending.append((args, val_pool.submit(validate_job, h)))
            # validations run in the background while the next hammer runs; look at finished ones
            # so that a broken validator stops the submission of further work early
            for a_, fut in pending:
                if fut.done() and fut.result()[0] is None:
                    validation_failed = True
    for a_, fut in pending:
        v, e = fut.result()
        if v is None and e == "skipped":
            continue
        if v is None:
            disagreements.append(dict(kind="hammer-validate", args=a_, note=e))
            continue
        ctx.traces_validated += v["validated"]
        ctx.count("hammer_refresh_stores_in_closure", v["refresh_stores"])
        if not v["fixpoint"]:
            disagreements.append(dict(kind="hammer-closure", args=a_, note="refresh closure did not reach a fixed point"))
        if v["bad"]:
            disagreements.append(dict(kind="hammer-trace", args=a_, not_allowed_by_Atomic_v=v["bad"][:5], count=len(v["bad"])))
    val_pool.shutdown()
    ctx.log("stage 4d (%d hammer runs) finished" % n_ham)
    ctx.notes["distribution"] = {"leaf_tuples": n_leaf, "index_tuples": per * len(sizes), "sessions": len(sessions), "hammer_runs": n_ham}

    corr_broken = bool(disagreements) or (ml_exe is None)
    if not (tie_broken or proof_broken or corr_broken or spec_failures):
        return
    # (5) finder: the spec checks above ran on the implementation alone; add the targeted ones
    replay["broken_proof"] = info if proof_broken else None
    if disagreements:
        d0 = disagreements[0]
        if d0.get("kind") == "session" and ml_exe:
            small = shrink_session(cpp_exe, ml_exe, d0["ops"])
            rc1, rc2, a, b, _, _ = run_both(cpp_exe, ml_exe, small, timeout=120)
            d0 = dict(d0, ops=small, original_ops=d0["ops"], cpp=a, model=b)
            f = spec_check_session(small, a)
            if f:
                f["ops"] = small[:f["op_index"] + 1]
            note_spec(f, "session:%s" % ";".join((f or {}).get("op", "").split()[:2]))
        replay["disagreement"] = d0
        replay["disagreement_count"] = len(disagreements)
        replay["disagreement_kinds"] = sorted(set(d.get("kind") for d in disagreements))
    if not spec_failures:
        # targeted finder run: more hammering aimed at blends, more ply / field tuples, all sizes' index bounds
        f, n = leaf_spec_checks(cpp_exe, rng, ctx.scale(30000, 500000))
        note_spec(f, "leaf:%s" % (f or {}).get("kind"))
        budget = time.time() + ctx.scale(40, 900)
        while not spec_failures and time.time() < budget:
            threads = rng.choice([4, 8, 16])
            args = dict(threads=threads, ops=ctx.scale(20000, 100000), nkeys=8, seed=rng.getrandbits(40), ngen=rng.choice([0, 3]),
                        size=rng.choice([512, 1024]), contempt=0)
            h, e = run_hammer(cpp_exe, **args)
            if h is None:
                break
            ctx.count("finder_hammer_ops", len(h["stores"]) + len(h["probes"]))
            bl = hammer_spec_check(h)
            if bl:
                note_spec(dict(kind=bl[0]["kind"], hammer_args=args, first=bl[0], count=len(bl)), "blend:%s" % bl[0].get("key"))
    if spec_failures:
        f, key = spec_failures[0]
        replay["failing_input"] = f
        replay["all_spec_failures"] = [x[0].get("kind") for x in spec_failures[:10]]
        ctx.violation("transposition table violates its specification: %s" % f.get("kind"), replay, key=key)
    else:
        what = ("translator refused the current source (broken tie)" if tie_broken else
                "theorem(s) in %s no longer check against the regenerated definitions" % PROP_FILE if proof_broken else
                "correspondence model/implementation broken")
        replay["broken"] = what
        ctx.violation(what, replay, no_failing_input=True)


def replay(ctx, body):
    r = body.get("replay", {})
    cpp_exe = private_copy(cbuild.build_harness("tt_harness"))
    f = r.get("failing_input") or {}
    d = r.get("disagreement") or {}
    print("what:", body.get("what"))
    if "hammer_args" in f or d.get("kind", "").startswith("hammer"):
        a = f.get("hammer_args") or d.get("args")
        h, e = run_hammer(cpp_exe, **a)
        print("hammer", a, "->", "crash %s" % e if h is None else "%d stores, %d hits" % (len(h["stores"]), len(h["probes"])))
        if h:
            bl = hammer_spec_check(h)
            print("spec check (nondeterministic run):", bl[:3] if bl else "no blend on this run")
        return
    ops = f.get("ops") or d.get("ops")
    if not ops and f.get("op"):
        ops = (d.get("ops") or [])
    if f.get("kind", "").startswith(("mate score", "setScore")):
        d, sc, p1, p2 = unhx(f["data"]), f["score"], f.get("stored_at_ply", f.get("ply")), f.get("read_at_ply", 0)
        rc, out, err = sh([cpp_exe, "session"], input="L setScore 0 %s %s %s\n" % (hx(d), hx(sc), hx(p1)))
        d2 = unhx(out.split()[1])
        rc, out, err = sh([cpp_exe, "session"], input="L getScore 0 %s %s\n" % (hx(d2), hx(p2)))
        print("setScore(data=%x, score=%d, ply=%d) -> data %x; getScore(ply=%d) -> %d; specification: %d" %
              (d, sc, p1, d2, p2, unhx(out.split()[1]), spec_shift(sc, p1, p2)))
        return
    if f.get("kind", "").startswith(("get after", "a setter")):
        d, v, nm = unhx(f["data"]), f["value"], f["accessor"]
        rc, out, err = sh([cpp_exe, "session"], input="L set%s 0 %s %s\n" % (nm, hx(d), hx(v)))
        d2 = unhx(out.split()[1])
        rc, out, err = sh([cpp_exe, "session"], input="L get%s 0 %s\n" % (nm, hx(d2)))
        print("set%s(data=%x, %d) -> data %x; get%s -> %d" % (nm, d, v, d2, nm, unhx(out.split()[1])))
        print("fields before:", {k: field(d, k) for k in SPEC_LAYOUT})
        print("fields after: ", {k: field(d2, k) for k in SPEC_LAYOUT})
        return
    if ops:
        if ops[-1].split()[0] in ("RESIZE", "SETUPTT"):
            # show what the next table access does (run in a child process by the harness)
            ops = list(ops) + ["PROBE ffff000000000123 0 0", "INS ffff000000000123 1 2 0 5 1 0 3 0 0"]
        rc, out, err = sh([cpp_exe, "session"], input="\n".join(ops) + "\n", timeout=300)
        res = out.split("\n")[:-1]
        for o, l in zip(ops, res):
            print(o, "->", l)
        print("spec check:", spec_check_session(ops, res))
    else:
        print(body)
