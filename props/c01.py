"""C01 — generated legal moves are exactly the legal moves of chess (DESIGN.md section 6, C01).

Stages: translate (tx/c01_tables.py -> coq/gen/BitBoardTables.v) -> prove (Properties_C01.v) ->
build harness + extracted model/spec -> correspond (tables; positions: C++ vs MoveGen model in
exact list order, C++ vs FIDE Spec as sets and per-move verdicts) -> finder (C++ vs Spec only,
shrinking by piece removal, perft enumeration from disagreement positions)."""
import json
import os
import sys
from concurrent.futures import ThreadPoolExecutor

from vlib import cbuild, coqbuild
from vlib.common import NCPU, REPO, VERIF, sh

sys.path.insert(0, os.path.join(VERIF, "tx"))
import c01_tables  # noqa: E402

PROP_FILE = "Properties_C01.v"
PCH = ".KQRBNPkqrbnp"
START_FEN = "rnbqkbnr/pppppppp/8/8/8/8/PPPPPPPP/RNBQKBNR w KQkq - 0 1"
SEED_FENS = [
    START_FEN,
    "r3k2r/p1ppqpb1/bn2pnp1/3PN3/1p2P3/2N2Q1p/PPPBBPPP/R3K2R w KQkq - 0 1",          # kiwipete
    "8/2p5/3p4/KP5r/1R3p1k/8/4P1P1/8 w - - 0 1",                                      # ep pins
    "r3k2r/Pppp1ppp/1b3nbN/nP6/BBP1P3/q4N2/Pp1P2PP/R2Q1RK1 w kq - 0 1",               # promotions
    "rnbq1k1r/pp1Pbppp/2p5/8/2B5/8/PPP1NnPP/RNBQK2R w KQ - 1 8",
    "r4rk1/1pp1qppp/p1np1n2/2b1p1B1/2B1P1b1/P1NP1N2/1PP1QPPP/R4RK1 w - - 0 10",
    "r3k2r/8/8/8/8/8/8/R3K2R w KQkq - 0 1",
    "4k3/P6P/8/8/8/8/p6p/4K3 w - - 0 1",
    "n1n5/PPPk4/8/8/8/8/4Kppp/5N1N b - - 0 1",
    "8/8/1k6/2b5/2pP4/8/5K2/8 b - d3 0 1",
    "r3k2r/1b4bq/8/8/8/8/7B/R3K2R w KQkq - 0 1",
    "8/PPP4k/8/8/8/8/4Kppp/8 w - - 0 1",
    "rnbqkb1r/ppppp1pp/7n/4Pp2/8/8/PPPP1PPP/RNBQKBNR w KQkq f6 0 3",
    "3k4/3p4/8/K1P4r/8/8/8/8 b - - 0 1",
    "8/8/4k3/8/2p5/8/B2P2K1/8 w - - 0 1",
    "5k2/8/8/8/8/8/8/4K2R w K - 0 1",
    "r3k3/1K6/8/8/8/8/8/8 b q - 0 1",
    "2K2r2/4P3/8/8/8/8/8/3k4 w - - 0 1",
    "K1k5/8/P7/8/8/8/8/8 w - - 0 1",
    "8/k1P5/8/1K6/8/8/8/8 w - - 0 1",
]


# ------------------------------------------------------------------------------------------
# boards
def sq(f, r):
    return r * 8 + f


def fen_of(board, wtm, castle="-", ep="-"):
    rows = []
    for r in range(7, -1, -1):
        s = ""
        e = 0
        for f in range(8):
            c = board.get(sq(f, r))
            if c is None:
                e += 1
            else:
                if e:
                    s += str(e)
                    e = 0
                s += c
        if e:
            s += str(e)
        rows.append(s)
    return "%s %s %s %s 0 1" % ("/".join(rows), "w" if wtm else "b", castle or "-", ep)


def sqname(s):
    return "abcdefgh"[s & 7] + "12345678"[s >> 3]


def count_ok(board):
    """at most 16 men per side and promotion-consistent counts"""
    for white in (True, False):
        cs = [c for c in board.values() if c.isupper() == white]
        if len(cs) > 16:
            return False
        n = {k: sum(1 for c in cs if c.lower() == k) for k in "kqrbnp"}
        if n["k"] != 1:
            return False
        extra = max(0, n["q"] - 1) + max(0, n["r"] - 2) + max(0, n["b"] - 2) + max(0, n["n"] - 2)
        if n["p"] + extra > 8:
            return False
    return True


def place(rng, board, c, squares=None, tries=20):
    for _ in range(tries):
        s = rng.choice(squares) if squares else rng.randrange(64)
        if s in board:
            continue
        if c in "Pp" and (s >> 3) in (0, 7):
            continue
        board[s] = c
        return s
    return None


def add_random(rng, board, n, pool_w="QRRBBNNPPPPPPPP", pool_b="qrrbbnnpppppppp"):
    for _ in range(n):
        white = rng.random() < 0.5
        c = rng.choice(pool_w if white else pool_b)
        b2 = dict(board)
        if place(rng, b2, c) is not None and count_ok(b2):
            board.clear()
            board.update(b2)


def kings(rng, board, wk=None, bk=None):
    wk = rng.randrange(64) if wk is None else wk
    board[wk] = "K"
    while True:
        s = rng.randrange(64) if bk is None else bk
        if s not in board and max(abs((s & 7) - (wk & 7)), abs((s >> 3) - (wk >> 3))) > 1:
            board[s] = "k"
            return wk, s
        bk = None


DIRS = [(1, 0), (-1, 0), (0, 1), (0, -1), (1, 1), (-1, -1), (1, -1), (-1, 1)]


def ray(s, d):
    f, r = s & 7, s >> 3
    out = []
    while True:
        f += d[0]
        r += d[1]
        if not (0 <= f < 8 and 0 <= r < 8):
            return out
        out.append(sq(f, r))


def gen_sparse(rng):
    b = {}
    kings(rng, b)
    add_random(rng, b, rng.randint(0, 6))
    return "F " + fen_of(b, rng.random() < 0.5)


def gen_dense(rng):
    b = {}
    kings(rng, b)
    add_random(rng, b, rng.randint(14, 34))
    cast = "".join(c for c in "KQkq" if rng.random() < 0.3) or "-"
    return "F " + fen_of(b, rng.random() < 0.5, cast)


def gen_pins(rng):
    """own pieces between the king and enemy sliders (several lines at once), incl. pinned pawns"""
    b = {}
    white = rng.random() < 0.5          # the pinned side = side to move (mostly)
    wk, bk = kings(rng, b)
    k = wk if white else bk
    for d in rng.sample(DIRS, rng.randint(1, 4)):
        line = ray(k, d)
        if len(line) < 2:
            continue
        i = rng.randrange(len(line) - 1)
        j = rng.randrange(i + 1, len(line))
        own = rng.choice("QRBNPP")
        att = rng.choice("QR" if 0 in d else "QB")
        if rng.random() < 0.15:
            att = rng.choice("RBN")       # sometimes the wrong kind of slider: no pin
        own, att = (own, att.lower()) if white else (own.lower(), att)
        b2 = dict(b)
        if line[i] in b2 or line[j] in b2:
            continue
        if own in "Pp" and (line[i] >> 3) in (0, 7):
            continue
        b2[line[i]] = own
        b2[line[j]] = att
        if rng.random() < 0.2 and j - i > 1:      # second blocker: not pinned
            b2[line[rng.randrange(i + 1, j)]] = rng.choice("Nn")
        if count_ok(b2):
            b = b2
    add_random(rng, b, rng.randint(0, 8))
    stm = white if rng.random() < 0.85 else not white
    return "F " + fen_of(b, stm)


def gen_checks(rng):
    """side to move in check, often double check; blockers and capturers around"""
    b = {}
    white = rng.random() < 0.5
    wk, bk = kings(rng, b)
    k = wk if white else bk
    n_att = rng.choice([1, 1, 2, 2, 2, 3])
    for _ in range(n_att):
        kind = rng.choice("QRBNP")
        cands = []
        if kind in "QRB":
            for d in DIRS:
                if (kind == "R" and 0 not in d) or (kind == "B" and 0 in d):
                    continue
                cands += ray(k, d)[: rng.randint(1, 7)][-1:]
        elif kind == "N":
            f, r = k & 7, k >> 3
            cands = [sq(f + a, r + c) for a, c in [(1, 2), (2, 1), (2, -1), (1, -2), (-1, -2), (-2, -1), (-2, 1), (-1, 2)]
                     if 0 <= f + a < 8 and 0 <= r + c < 8]
        else:
            f, r = k & 7, k >> 3
            rr = r + 1 if white else r - 1
            cands = [sq(f + a, rr) for a in (-1, 1) if 0 <= f + a < 8 and 1 <= rr <= 6]
        cands = [c for c in cands if c not in b]
        if cands:
            b2 = dict(b)
            b2[rng.choice(cands)] = kind.lower() if white else kind
            if count_ok(b2):
                b = b2
    add_random(rng, b, rng.randint(0, 10))
    return "F " + fen_of(b, white)


def gen_ep(rng):
    """a double push next to an enemy pawn; kings/sliders arranged for the horizontal and
    diagonal discovered-attack cases.  Emitted as FEN before the push + the push (M line), so
    that the engine's own makeMove sets the en-passant square (no FEN fix-up)."""
    b = {}
    white_captures = rng.random() < 0.5
    f = rng.randrange(8)
    r_from, r_to = (6, 4) if white_captures else (1, 3)       # pushed pawn (the side that will be captured)
    pusher = "p" if white_captures else "P"
    capt = "P" if white_captures else "p"
    b[sq(f, r_from)] = pusher
    adj = [x for x in (f - 1, f + 1) if 0 <= x < 8]
    rng.shuffle(adj)
    n_c = 1 if rng.random() < 0.7 else len(adj)
    for x in adj[:n_c]:
        b[sq(x, r_to)] = capt
    mode = rng.choice(["horizontal", "diagonal", "pinned_capturer", "check_by_push", "free", "free"])
    K = "K" if white_captures else "k"
    k_other = "k" if white_captures else "K"
    sl = (lambda c: c.lower()) if white_captures else (lambda c: c.upper())
    try:
        if mode == "horizontal":
            # capturer's king on the rank of both pawns, enemy rook/queen on the other side
            row = [sq(x, r_to) for x in range(8)]
            free = [s for s in row if s not in b and s != sq(f, r_to)]
            left = [s for s in free if (s & 7) < min(f, adj[0])]
            right = [s for s in free if (s & 7) > max(f, adj[0])]
            if left and right:
                a, c = rng.choice(left), rng.choice(right)
                if rng.random() < 0.5:
                    a, c = c, a
                b[a] = K
                b[c] = sl(rng.choice("RQ"))
        elif mode == "diagonal":
            # enemy bishop/queen behind the pushed pawn's target on a diagonal to the capturer's king
            d = rng.choice([(1, 1), (-1, -1), (1, -1), (-1, 1)])
            t = sq(f, r_to)
            l1 = [s for s in ray(t, d) if s not in b]
            l2 = [s for s in ray(t, (-d[0], -d[1])) if s not in b]
            if l1 and l2:
                b[rng.choice(l1[:3])] = K
                b[rng.choice(l2[:3])] = sl(rng.choice("BQ"))
        elif mode == "pinned_capturer":
            c0 = sq(adj[0], r_to)
            d = rng.choice(DIRS)
            l1 = [s for s in ray(c0, d) if s not in b]
            l2 = [s for s in ray(c0, (-d[0], -d[1])) if s not in b]
            if l1 and l2:
                b[rng.choice(l1[:3])] = K
                b[rng.choice(l2[:4])] = sl(rng.choice("QR" if 0 in d else "QB"))
        elif mode == "check_by_push":
            # the pushed pawn gives check on arrival: capturer's king diagonally in front of it
            rr = r_to - 1 if white_captures else r_to + 1
            cands = [sq(x, rr) for x in (f - 1, f + 1) if 0 <= x < 8 and sq(x, rr) not in b]
            if cands:
                b[rng.choice(cands)] = K
    except (IndexError, ValueError):
        pass
    if K not in b.values():
        place(rng, b, K)
    for _ in range(30):
        s = rng.randrange(64)
        if s in b:
            continue
        ks = [x for x, c in b.items() if c == K][0]
        if max(abs((s & 7) - (ks & 7)), abs((s >> 3) - (ks >> 3))) > 1:
            b[s] = k_other
            break
    if k_other not in b.values():
        return gen_sparse(rng)
    add_random(rng, b, rng.randint(0, 8))
    # the two squares in front of the pushed pawn must be empty
    step = -1 if white_captures else 1
    for rr in (r_from + step, r_from + 2 * step):
        b.pop(sq(f, rr), None)
    if not count_ok(b):
        return gen_sparse(rng)
    mv = sqname(sq(f, r_from)) + sqname(sq(f, r_to))
    return "M " + fen_of(b, not white_captures) + " ; " + mv


def gen_ep_fen(rng):
    """en-passant square given in the FEN itself (plausible or not): exercises the reader's fix-up"""
    line = gen_ep(rng)
    if not line.startswith("M "):
        return line
    fen, mv = line[2:].split(" ; ")
    parts = fen.split(" ")
    if rng.random() < 0.6:
        # apply the push textually
        rows = parts[0].split("/")
        board = {}
        for ri, row in enumerate(rows):
            r = 7 - ri
            f = 0
            for ch in row:
                if ch.isdigit():
                    f += int(ch)
                else:
                    board[sq(f, r)] = ch
                    f += 1
        f0, r0, f1, r1 = "abcdefgh".index(mv[0]), int(mv[1]) - 1, "abcdefgh".index(mv[2]), int(mv[3]) - 1
        board[sq(f1, r1)] = board.pop(sq(f0, r0))
        ep = sqname(sq(f0, (r0 + r1) // 2))
        return "F " + fen_of(board, parts[1] == "b", "-", ep)
    parts[3] = sqname(rng.randrange(64))
    return "F " + " ".join(parts)


def gen_castle(rng):
    b = {4: "K", 60: "k"}
    rights = ""
    for s, c, fl in ((7, "R", "K"), (0, "R", "Q"), (63, "r", "k"), (56, "r", "q")):
        if rng.random() < 0.85:
            b[s] = c
            if rng.random() < 0.9:
                rights += fl
        elif rng.random() < 0.3:
            rights += fl                      # right without rook: the reader drops it
    white = rng.random() < 0.5
    home = 0 if white else 7
    enemy = (lambda c: c.lower()) if white else (lambda c: c.upper())
    # attackers aimed at the king's path squares
    for _ in range(rng.choice([0, 1, 1, 2, 3])):
        target = sq(rng.choice([1, 2, 3, 4, 5, 6]), home)
        kind = rng.choice("QRBNPK")
        d = rng.choice(DIRS)
        if kind in "QRB":
            if (kind == "R" and 0 not in d) or (kind == "B" and 0 in d):
                continue
            line = [s for s in ray(target, d)]
            line = [s for s in line if (s >> 3) != home]
            if line:
                s = rng.choice(line)
                if s not in b:
                    b[s] = enemy(kind)
        elif kind == "N":
            f, r = target & 7, target >> 3
            c = [sq(f + a, r + e) for a, e in [(1, 2), (2, 1), (-1, 2), (-2, 1), (1, -2), (2, -1), (-1, -2), (-2, -1)]
                 if 0 <= f + a < 8 and 0 <= r + e < 8 and sq(f + a, r + e) not in b]
            if c:
                b[rng.choice(c)] = enemy("N")
        elif kind == "P":
            f = target & 7
            rr = 1 if white else 6
            c = [sq(x, rr) for x in (f - 1, f + 1) if 0 <= x < 8 and sq(x, rr) not in b]
            if c:
                b[rng.choice(c)] = enemy("P")
    # pieces between king and rook now and then
    if rng.random() < 0.3:
        s = sq(rng.choice([1, 2, 3, 5, 6]), home)
        if s not in b:
            b[s] = rng.choice("NBQnbq")
    add_random(rng, b, rng.randint(0, 10))
    if not count_ok(b):
        return gen_sparse(rng)
    return "F " + fen_of(b, white, rights or "-")


def gen_promo(rng):
    b = {}
    white = rng.random() < 0.5
    kings(rng, b)
    r7, r8 = (6, 7) if white else (1, 0)
    P = "P" if white else "p"
    en = (lambda c: c.lower()) if white else (lambda c: c.upper())
    for _ in range(rng.randint(1, 4)):
        f = rng.choice([0, 0, 7, 7, 1, 2, 3, 4, 5, 6])
        if sq(f, r7) in b:
            continue
        b[sq(f, r7)] = P
        for x in (f - 1, f, f + 1):
            if 0 <= x < 8 and sq(x, r8) not in b and rng.random() < 0.5:
                b[sq(x, r8)] = en(rng.choice("QRBN"))
    add_random(rng, b, rng.randint(0, 8))
    if not count_ok(b):
        return gen_sparse(rng)
    return "F " + fen_of(b, white)


def gen_wrap(rng):
    """a/h-file pawns with enemy (and own) pieces on the squares a wrapped shift would hit"""
    b = {}
    kings(rng, b)
    for _ in range(rng.randint(2, 6)):
        white = rng.random() < 0.5
        f = rng.choice([0, 7])
        r = rng.randint(1, 6)
        s = sq(f, r)
        if s in b:
            continue
        b[s] = "P" if white else "p"
        for delta in ((7, 9) if white else (-7, -9)):
            t = s + delta
            if 0 <= t < 64 and t not in b and rng.random() < 0.7:
                c = rng.choice("qrbnp" if white else "QRBNP")
                if c in "Pp" and (t >> 3) in (0, 7):
                    continue
                b[t] = c
    add_random(rng, b, rng.randint(0, 6))
    if not count_ok(b):
        return gen_sparse(rng)
    return "F " + fen_of(b, rng.random() < 0.5)


def gen_queens(rng):
    b = {}
    kings(rng, b)
    nq = rng.randint(3, 9)
    add_random(rng, b, 2 * nq + 4, pool_w="QQQQQQR", pool_b="qqqqqqr")
    return "F " + fen_of(b, rng.random() < 0.5)


SYNTH = [("sparse", gen_sparse, 2), ("dense", gen_dense, 2), ("pins", gen_pins, 3), ("checks", gen_checks, 3),
         ("ep_push", gen_ep, 3), ("ep_fen", gen_ep_fen, 1), ("castle", gen_castle, 3), ("promo", gen_promo, 2),
         ("wrap", gen_wrap, 1), ("queens", gen_queens, 1)]


def gen_cases(rng, n_synth, n_games, plies, every):
    kinds = []
    for name, fn, w in SYNTH:
        kinds += [(name, fn)] * w
    cases = []
    for _ in range(n_synth):
        name, fn = rng.choice(kinds)
        cases.append((name, fn(rng)))
    starts = []
    for i in range(n_games):
        r = rng.random()
        if r < 0.35:
            fen = START_FEN
        elif r < 0.6:
            fen = rng.choice(SEED_FENS)
        else:
            name, fn = rng.choice(kinds)
            line = fn(rng)
            fen = line[2:].split(" ; ")[0]
        starts.append(("game", "G %d %d %d %s" % (rng.getrandbits(60), plies, every, fen)))
    return cases + starts


# ------------------------------------------------------------------------------------------
def parse_fields(part):
    d = {}
    for tok in part.split(" "):
        if "=" in tok:
            k, v = tok.split("=", 1)
            d[k] = v
    return d


def mlist(s):
    return [] if s in ("-", "", None) else s.split(",")


def is_capture(raw_board, mv):
    f, t = ("abcdefgh".index(mv[0]) + 8 * (int(mv[1]) - 1)), ("abcdefgh".index(mv[2]) + 8 * (int(mv[3]) - 1))
    if raw_board[t] != ".":
        return True
    return raw_board[f] in "Pp" and (f & 7) != (t & 7)


def compare_position(raw, hline, dline, with_model):
    """Returns (list of disagreement kinds, info dict).  Kinds starting with 'model:' are
    model-vs-implementation; all others are implementation-vs-Spec (property violations)."""
    bad = []
    hm, _, hstat = hline.partition(" # ")
    if with_model:
        dm, _, dspec = dline.partition(" # ")
        if dm != hm:
            hf, df = parse_fields(hm), parse_fields(dm)
            bad.append("model:" + ",".join(k for k in hf if hf.get(k) != df.get(k)))
    else:
        dspec = dline
    h = parse_fields(hm)
    s = parse_fields(dspec)
    board = raw.split(" ")[0]
    pl, lg = mlist(h["pl"]), mlist(h["lg"])
    slg = mlist(s["slg"])
    slgk = mlist(s["slgk"])
    checks = set(m[:-1] for m in slgk if m.endswith("+"))
    sset = set(slg)
    if s["sacc"] != "1":
        bad.append("accepted")
    if sorted(lg) != slg:
        bad.append("legal")
    if len(set(lg)) != len(lg) or len(set(pl)) != len(pl):
        bad.append("duplicates")
    if not sset <= set(pl):
        bad.append("pseudo_incomplete")
    vd, sv = h["vd"], s["sv"]
    if vd != "-" or sv != "-":
        if len(vd) != len(sv) or len(vd) != len(pl):
            bad.append("verdict_length")
        else:
            if any((int(a) & 1) != (int(b) & 1) for a, b in zip(vd, sv)):
                bad.append("isLegal")
            # gives-check is compared for legal moves (the engine calls it on moves it will play);
            # for pseudo-legal but illegal moves it is recorded separately
            for m, a, b in zip(pl, vd, sv):
                if (int(a) & 2) != (int(b) & 2):
                    if int(b) & 1:
                        bad.append("givesCheck")
                        break
            if "givesCheck" not in bad:
                for m, a, b in zip(pl, vd, sv):
                    if (int(a) & 2) != (int(b) & 2):
                        fr = "abcdefgh".index(m[0]) + 8 * (int(m[1]) - 1)
                        bad.append("note:givesCheck_differs_on_illegal_king_move" if board[fr] in "Kk"
                                   else "note:givesCheck_differs_on_illegal_nonking_move")
                        break
    if h["ck"] != s["sck"]:
        bad.append("inCheck")
    if h["ctk"] != "0":
        bad.append("canTakeKing")
    if h["rest"] != "1":
        bad.append("not_restored")
    ev, evl = mlist(h["ev"]), mlist(h["evl"])
    cc, ccl = mlist(h["cc"]), mlist(h["ccl"])
    cap, capl = mlist(h["cap"]), mlist(h["capl"])
    pls = set(pl)
    if h["ck"] == "1":
        if sorted(evl) != slg or len(set(evl)) != len(evl):
            bad.append("evasions")
        if not set(ev) <= pls:
            bad.append("evasions_not_pseudo_legal")
    if not set(cap) <= pls or not set(cc) <= pls:
        bad.append("captures_not_pseudo_legal")
    if not set(capl) <= sset or not set(ccl) <= sset or not set(evl) <= sset:
        bad.append("filtered_list_not_legal")
    capls, ccls = set(capl), set(ccl)
    for m in slg:
        promo = m[4:] if len(m) > 4 else ""
        if promo in ("r", "b"):
            continue
        c = is_capture(board, m)
        if (c or promo) and m not in capls:
            bad.append("captures_incomplete")
            break
    for m in slg:
        promo = m[4:] if len(m) > 4 else ""
        if promo in ("r", "b"):
            continue
        if (is_capture(board, m) or promo or m in checks) and m not in ccls:
            bad.append("captures_checks_incomplete")
            break
    if any((not is_capture(board, m)) and len(m) == 4 for m in cap):
        bad.append("captures_has_quiet_move")
    info = {"pl": len(pl), "lg": len(lg), "ck": h["ck"] == "1", "stat": parse_fields(hstat),
            "castle": any(board["abcdefgh".index(m[0]) + 8 * (int(m[1]) - 1)] in "Kk" and abs(ord(m[0]) - ord(m[2])) == 2 for m in lg),
            "promo": any(len(m) > 4 for m in lg),
            "ep_set": raw.split(" ")[3] != "-1",
            "ep_legal": raw.split(" ")[3] != "-1" and any(
                ("abcdefgh".index(m[2]) + 8 * (int(m[3]) - 1)) == int(raw.split(" ")[3]) and
                board["abcdefgh".index(m[0]) + 8 * (int(m[1]) - 1)] in "Pp" for m in lg),
            "pinned_or_illegal": len(pl) != len(lg),
            "fen": hstat.split("fen=", 1)[1] if "fen=" in hstat else ""}
    return bad, info


def run_chunk(cpp, ml, raws, with_model, timeout=None):
    """returns (list of (raw, hline, dline), "") or (None, reason) when a program crashed or hung"""
    timeout = timeout or 40          # the real code needs microseconds per position
    rc, out, err = sh([cpp, "eval"], input="\n".join(raws) + "\n", timeout=timeout)
    hl = out.strip("\n").split("\n") if out.strip() else []
    if rc != 0 or len(hl) != len(raws):
        return None, "harness rc=%d lines=%d/%d %s" % (rc, len(hl), len(raws), err[-500:])
    lines = []
    for raw, h in zip(raws, hl):
        pl = parse_fields(h.partition(" # ")[0]).get("pl", "-")
        lines.append("%s %s | %s" % ("P" if with_model else "S", raw, pl.replace(",", " ")))
    rc, out, err = sh([ml, "eval"], input="\n".join(lines) + "\n", timeout=30 * timeout)
    dl = out.strip("\n").split("\n") if out.strip() else []
    if rc != 0 or len(dl) != len(raws):
        return None, "driver rc=%d lines=%d/%d %s" % (rc, len(dl), len(raws), err[-500:])
    return list(zip(raws, hl, dl)), ""


def check_raws(cpp, ml, raws, with_model, timeout=None):
    """disagreement kinds for each raw position (sequential; used by shrink / finder / replay)"""
    res, err = run_chunk(cpp, ml, raws, with_model, timeout=timeout)
    if res is None:
        return [["crash:" + err[:300]] for _ in raws], [None] * len(raws)
    out, infos = [], []
    for raw, h, d in res:
        bad, info = compare_position(raw, h, d, with_model)
        out.append(bad)
        infos.append(info)
    return out, infos


def shrink(cpp, ml, raw, kind, with_model):
    """remove pieces (never kings) while the same kind of disagreement persists on a position
    the Spec still accepts"""
    cur = raw
    changed = True
    while changed:
        changed = False
        b, side, cm, ep = cur.split(" ")
        cands = []
        for i, c in enumerate(b):
            if c not in ".Kk":
                cands.append("%s %s %s %s" % (b[:i] + "." + b[i + 1:], side, cm, ep))
        if cm != "0":
            cands.append("%s %s 0 %s" % (b, side, ep))
        if not cands:
            break
        res, _ = check_raws(cpp, ml, cands, with_model, timeout=60)
        if res and res[0] and res[0][0].startswith("crash") and len(cands) > 1:
            # a candidate makes a program crash/hang: test candidates one at a time
            res = [check_raws(cpp, ml, [c], with_model, timeout=15)[0][0] for c in cands]
        for cand, bad in zip(cands, res):
            if kind in bad and "accepted" not in bad and "canTakeKing" not in bad:
                cur = cand
                changed = True
                break
    return cur


def perft_compare(cpp, ml, raws, depth):
    """C++ perft vs Spec perft (with per-move breakdown) from the given positions"""
    inp = "\n".join("%d %s" % (depth, r) for r in raws) + "\n"
    rc1, o1, e1 = sh([cpp, "perft"], input=inp, timeout=300)
    rc2, o2, e2 = sh([ml, "perft"], input=inp, timeout=1800)
    if rc1 != 0 or rc2 != 0:
        return [], 0
    l1, l2 = o1.strip("\n").split("\n"), o2.strip("\n").split("\n")
    diffs = []
    for r, a, b in zip(raws, l1, l2):
        if a != b:
            da, db = dict(x.split(":") for x in a.split(" ")[1:]), dict(x.split(":") for x in b.split(" ")[1:])
            moves = sorted(m for m in set(da) | set(db) if da.get(m) != db.get(m))
            diffs.append({"raw": r, "depth": depth, "cpp_total": a.split(" ")[0], "spec_total": b.split(" ")[0],
                          "differing_moves": {m: [da.get(m), db.get(m)] for m in moves[:10]}})
    return diffs, len(raws)


# ------------------------------------------------------------------------------------------
def tables_stage(ctx, cpp, ml):
    """every table entry of the C++ vs the model functions"""
    problems = []
    rc1, o1, _ = sh([cpp, "tables"], timeout=600)
    rc2, o2, _ = sh([ml, "tables"], timeout=600)
    l1, l2 = o1.strip().split("\n"), o2.strip().split("\n")
    if rc1 != 0 or rc2 != 0 or len(l1) != len(l2):
        problems.append({"table": "tables", "what": "run failed rc=%d/%d" % (rc1, rc2)})
    n = 0
    for a, b in zip(l1, l2):
        ta, tb = a.split(" "), b.split(" ")
        n += len(ta) - 2
        if a != b:
            idx = [i for i, (x, y) in enumerate(zip(ta, tb)) if x != y]
            problems.append({"table": ta[0], "row": ta[1] if len(ta) > 1 else "", "first_diff_col": idx[0] - 2 if idx else None,
                             "cpp": ta[idx[0]] if idx else a[:200], "model": tb[idx[0]] if idx else b[:200]})
    ctx.count("table_entries_step_between_direction", n)
    # bit scans / popcount: all single bits, all prefixes, random words
    rng = ctx.rng
    words = [1 << i for i in range(64)] + [(1 << (i + 1)) - 1 for i in range(64)] + [((1 << 64) - 1) ^ ((1 << i) - 1) for i in range(64)]
    words += [rng.getrandbits(64) for _ in range(ctx.scale(2000, 50000))]
    words += [rng.getrandbits(64) & rng.getrandbits(64) & rng.getrandbits(64) for _ in range(ctx.scale(1000, 20000))]
    words = [w for w in words if w]
    inp = "\n".join("W %d" % w for w in words) + "\n"
    rc1, o1, _ = sh([cpp, "words"], input=inp, timeout=600)
    rc2, o2, _ = sh([ml, "words"], input=inp, timeout=600)
    l1, l2 = o1.strip().split("\n"), o2.strip().split("\n")
    if len(l1) != len(words) or len(l2) != len(words):
        problems.append({"table": "bitscan", "what": "run failed"})
    for w, a, b in zip(words, l1, l2):
        exp = "%d %d %d" % ((w & -w).bit_length() - 1, w.bit_length() - 1, bin(w).count("1"))
        if a != b or a != exp:
            problems.append({"table": "firstBit/lastBit/bitCount", "word": w, "cpp": a, "model": b, "expected": exp})
            break
    ctx.count("bitscan_words", len(words))
    # sliders: every square x every subset of the relevant-occupancy mask (quick: exhaustive too, it is cheap),
    # plus random full occupancies
    jobs = [["%s %d" % (k, s)] for k in ("RALL", "BALL") for s in range(64)]
    nocc = ctx.scale(20000, 400000)
    rnd_lines = []
    for i in range(nocc):
        occ = rng.getrandbits(64)
        if i % 3 == 0:
            occ &= rng.getrandbits(64)
        if i % 7 == 0:
            occ |= rng.getrandbits(64)
        rnd_lines.append("%s %d %d" % (rng.choice("RB"), rng.randrange(64), occ))
    for i in range(0, len(rnd_lines), 5000):
        jobs.append(rnd_lines[i:i + 5000])

    def one(job):
        inp = "\n".join(job) + "\n"
        r1, a, _ = sh([cpp, "words"], input=inp, timeout=1800)
        r2, b, _ = sh([ml, "words"], input=inp, timeout=1800)
        return job, r1, r2, a.strip().split("\n"), b.strip().split("\n")
    npat = 0
    with ThreadPoolExecutor(max_workers=NCPU) as ex:
        for job, r1, r2, la, lb in ex.map(one, jobs):
            if r1 != 0 or r2 != 0 or len(la) != len(job) or len(lb) != len(job):
                problems.append({"table": "sliders", "what": "run failed on %s" % job[0]})
                continue
            for q, a, b in zip(job, la, lb):
                if q.startswith(("RALL", "BALL")):
                    npat += int(a.split(" ")[0])
                    if a != b:
                        ta, tb = a.split(" "), b.split(" ")
                        idx = [i for i, (x, y) in enumerate(zip(ta, tb)) if x != y]
                        problems.append({"table": q, "pattern_index": idx[0] - 1 if idx else None,
                                         "cpp": ta[idx[0]] if idx else "", "model": tb[idx[0]] if idx else ""})
                else:
                    npat += 1
                    if a != b:
                        problems.append({"table": "slider", "query": q, "cpp": a, "model": b})
    ctx.count("slider_patterns_compared", npat)
    return problems


def expand_cases(cpp, cases):
    """cases: list of (kind, line) -> list of (kind, raw), reject counts"""
    inp = "\n".join(line for _, line in cases) + "\n"
    rc, out, err = sh([cpp, "expand"], input=inp, timeout=3600)
    if rc != 0:
        raise RuntimeError("harness expand failed rc=%d %s" % (rc, err[-2000:]))
    lines = out.strip("\n").split("\n")
    res = []
    rejects = {}
    i = 0
    for kind, line in cases:
        if line.startswith("G "):
            while i < len(lines) and lines[i] != "END":
                if lines[i].startswith("POS "):
                    res.append((kind, lines[i][4:]))
                else:
                    rejects[kind] = rejects.get(kind, 0) + 1
                i += 1
            i += 1
        else:
            if i < len(lines) and lines[i].startswith("POS "):
                res.append((kind, lines[i][4:]))
            else:
                rejects[kind] = rejects.get(kind, 0) + 1
            i += 1
    return res, rejects


def men_ok(raw):
    b = raw.split(" ")[0]
    return sum(1 for c in b if c.isupper()) <= 16 and sum(1 for c in b if c.islower()) <= 16


def run(ctx):
    ctx.rule = ("positions accepted by TextIO::readFEN with <= 16 men per side: random legal games (uniform moves, "
                "25% preference for captures/promotions) from the start position, from seeded test FENs and from "
                "synthetic positions; synthetic placements biased to pins, checks/double checks, en-passant after a "
                "double push played by the engine (horizontal/diagonal discovered attacks, pinned capturer), "
                "en-passant squares given in FEN, castling with attacked path squares, promotions with capture, "
                "a/h-file pawns (wrap-around), many queens. Non-trivial = some pseudo-legal move is illegal, or the "
                "side to move is in check, or castling / en passant / promotion is available; distinct by position")
    ctx.trusted_base = ["Coq 8.16.1 kernel (coqc, vm_compute)",
                        "extraction (ExtrOcamlBasic only) + OCaml 4.13 + drivers/movegen_driver.ml",
                        "harness/movegen_harness.cpp", "tx/c01_tables.py (regex translator of literal tables)",
                        "hand-written models coq/Chess/{BitBoard,MoveGen,Position}.v tied by correspondence",
                        "coq/Chess/Spec.v as the statement of the FIDE rules (validated: perft(3) from the start position = 8902 inside Coq)"]
    ctx.assumptions = ["model = code is established by differential testing (all five move lists in generation order, "
                       "per-move isLegal/givesCheck verdicts, restoration of the position, every table entry), not by proof",
                       "default build only (USE_BMI2/USE_CTZ/USE_POPCNT branches not covered)",
                       "MoveList capacity 256 is not proved sufficient; the maximum pseudo-legal list length seen is recorded"]
    # (1) translate
    tie_broken = None
    try:
        path, changed = c01_tables.run(REPO, os.path.join(VERIF, "coq", "gen"))
        ctx.log("translator: %s %s" % (path, "rewritten" if changed else "unchanged"))
    except c01_tables.TranslateError as ex:
        tie_broken = str(ex)
        ctx.log("translator refused: %s" % ex)
    # (2) prove
    extra = [] if ctx.quick else ["Chess/MagicSweep.vo"]
    if os.path.exists(os.path.join(VERIF, "coq", PROP_FILE)):
        ok, pinfo = coqbuild.prove(ctx, PROP_FILE, extra_targets=extra, timeout=ctx.scale(1500, 7200))
    else:
        ok, pinfo = False, {"errors": [("Properties_C01.v", 0, "missing")]}
    proof_broken = (not ok) or tie_broken is not None
    try:
        import re as _re
        ptxt = coqbuild.strip_comments(open(os.path.join(VERIF, "coq", PROP_FILE)).read())
        ctx.notes["statements_not_proved"] = _re.findall(r"Definition\s+(C01_\w+_statement)", ptxt)
    except OSError:
        pass
    ctx.log("proof stage: %s (%d theorems)" % ("OK" if ok else "FAILED", len(ctx.obligations)))
    if not ok:
        ctx.log("proof stage failed: %s" % (pinfo.get("errors") or pinfo.get("forbidden") or pinfo.get("illegal_axioms")))
    # (3) build
    cpp = cbuild.build_harness("movegen_harness")
    try:
        ml = coqbuild.extract("ExtractMoveGen.v", "movegen_driver.ml", "movegen_driver")
    except RuntimeError as ex:
        if proof_broken:
            ctx.violation("Coq development of C01 does not build (translator/proof stage): %s" % (tie_broken or pinfo.get("errors")),
                          {"translator": tie_broken, "proof": pinfo, "extract": str(ex)[:2000]}, no_failing_input=True)
            return
        raise
    ctx.log("harness and extracted model built")
    # (4a) tables
    table_problems = tables_stage(ctx, cpp, ml)
    ctx.log("tables compared: %s" % ("OK" if not table_problems else "%d problems" % len(table_problems)))
    # (4b) positions
    rng = ctx.rng
    cases = []
    corpus = os.path.join(VERIF, "corpus", "c01.txt")
    if os.path.exists(corpus):
        for l in open(corpus):
            l = l.strip()
            if l and not l.startswith("#"):
                cases.append(("corpus", l))
    cases += [("seed_fen", "F " + f) for f in SEED_FENS]
    cases += gen_cases(rng, ctx.scale(22000, 600000), ctx.scale(500, 14000), 160, 2)
    try:
        expanded, rejects = expand_cases(cpp, cases)
    except RuntimeError as ex:
        # the implementation itself aborts (e.g. the assert in BitBoard::staticInitialize on a table collision)
        rc, out, err = sh([cpp, "expand"], input="F " + START_FEN + "\n", timeout=60)
        ctx.violation("the engine code aborts while generating moves / initialising its tables: %s" % str(ex)[:300],
                      {"translator": tie_broken, "broken_proof": None if ok else pinfo, "table_problems": table_problems[:5],
                       "failing_input": {"kind": "abort", "raw": None, "fen": START_FEN, "rc": rc, "stderr": err[-1500:]}},
                      key="abort:startpos" if rc != 0 else None, no_failing_input=(rc == 0))
        return
    for k, v in rejects.items():
        ctx.count("rejected_by_readFEN_" + k, v)
    seen = set()
    raws = []
    for kind, raw in expanded:
        if raw in seen:
            continue
        seen.add(raw)
        if not men_ok(raw):
            ctx.count("skipped_more_than_16_men")
            continue
        raws.append((kind, raw))
    n_model = ctx.scale(12000, 250000)
    # the model stream takes a kind-balanced prefix: corpus and seed FENs first, then interleaved
    rng.shuffle(raws)
    raws.sort(key=lambda kr: 0 if kr[0] in ("corpus", "seed_fen") else 1)
    model_set = raws[:n_model]
    spec_set = raws[n_model:]
    ctx.log("positions: %d for model+spec, %d for spec only (%d cases, %d rejected)" %
            (len(model_set), len(spec_set), len(cases), sum(rejects.values())))
    CH = 400
    jobs = [(True, model_set[i:i + CH]) for i in range(0, len(model_set), CH)]
    jobs += [(False, spec_set[i:i + 4 * CH]) for i in range(0, len(spec_set), 4 * CH)]

    def one(job):
        wm, items = job
        return job, run_chunk(cpp, ml, [r for _, r in items], wm)
    disagreements = []        # (kindlist, gen kind, raw, with_model, hline, dline)
    maxlen = 0
    maxlen_raw = ""
    with ThreadPoolExecutor(max_workers=NCPU) as ex:
        for (wm, items), (res, err) in ex.map(one, jobs):
            if res is None:
                # a program crashed or did not terminate: locate the position
                ctx.count("chunks_with_crash_or_timeout")
                for k, r in items:
                    bad, _ = check_raws(cpp, ml, [r], wm, timeout=15)
                    if bad[0]:
                        disagreements.append((bad[0], k, r, wm, "", err))
                        break
                continue
            for (k, raw), (_, h, d) in zip(items, res):
                bad, info = compare_position(raw, h, d, wm)
                ctx.evaluated()
                ctx.count("positions_" + ("model_and_spec" if wm else "spec_only"))
                ctx.count("source_" + k)
                ctx.count("moves_verdicts_compared", info["pl"])
                if info["ck"]:
                    ctx.count("in_check")
                    if int(info["stat"].get("nchk", "0")) >= 2:
                        ctx.count("double_check")
                    if info["lg"] == 0:
                        ctx.count("checkmate")
                elif info["lg"] == 0:
                    ctx.count("stalemate")
                if info["ep_set"]:
                    ctx.count("ep_square_set")
                    ctx.count("ep_capture_legal" if info["ep_legal"] else "ep_capture_pseudo_only")
                if info["castle"]:
                    ctx.count("castling_legal")
                if info["promo"]:
                    ctx.count("promotion_available")
                if info["pinned_or_illegal"]:
                    ctx.count("has_illegal_pseudo_move")
                if info["pl"] > maxlen:
                    maxlen, maxlen_raw = info["pl"], info["fen"]
                if info["ck"] or info["ep_set"] or info["castle"] or info["promo"] or info["pinned_or_illegal"]:
                    ctx.nontrivial(raw)
                notes = [b for b in bad if b.startswith("note:")]
                for nt in notes:
                    ctx.count(nt[5:])
                bad = [b for b in bad if not b.startswith("note:")]
                if bad:
                    disagreements.append((bad, k, raw, wm, h, d))
                elif len(ctx.samples) < 6 and (info["ep_set"] or info["ck"]) and wm:
                    ctx.sample({"fen": info["fen"], "raw": raw, "cpp": h.partition(" # ")[0][:400], "model_and_spec": d[:600]})
    ctx.notes["tables"] = ("king/knight/pawn attacks, rMasks/bMasks, epMask, squaresBetween and getDirection 64x64 compared "
                           "entry by entry; rook/bishop attacks compared for EVERY subset of the relevant-occupancy mask of every "
                           "square (107 648 patterns, ray walk and magic lookup of the model vs the C++ table) plus random occupancies")
    ctx.notes["observation_givesCheck"] = ("givesCheck answers 'no check' for a king stepping next to the enemy king (an illegal move); "
                                           "playing such a move on the board would leave the enemy king attacked by the king. Counted under "
                                           "givesCheck_differs_on_illegal_king_move; never seen for a legal move or for a non-king move.")
    ctx.notes["max_pseudo_legal_list_length"] = maxlen
    ctx.notes["max_pseudo_legal_list_fen"] = maxlen_raw
    ctx.traces_validated = ctx.counts.get("positions_model_and_spec", 0)
    ctx.log("positions compared: %d, disagreements: %d, max list length %d" % (ctx.evaluations, len(disagreements), maxlen))

    if not proof_broken and not disagreements and not table_problems:
        return

    # (5) finder: implementation vs Spec only
    replay = {"translator": tie_broken, "broken_proof": None if ok else pinfo, "table_problems": table_problems[:5],
              "disagreements": len(disagreements)}
    spec_dis = [d for d in disagreements if any(not b.startswith("model:") for b in d[0])]
    found = None
    if spec_dis:
        bad, k, raw, wm, h, d = spec_dis[0]
        kind = [b for b in bad if not b.startswith("model:")][0]
        if kind.startswith("crash"):
            # the implementation (or the model) crashes / does not terminate on this position: which one?
            rc, out, err = sh([cpp, "eval"], input=raw + "\n", timeout=15)
            found = {"kind": "crash_or_hang", "raw": raw, "original_raw": raw, "generator": k, "fen": "",
                     "implementation_rc": rc, "implementation_stderr": err[-500:], "detail": kind[:400]}
            if rc == 0:
                found = None          # the implementation is fine here: the model side failed
        else:
            small = shrink(cpp, ml, raw, kind, False)
            res, infos = check_raws(cpp, ml, [small], False, timeout=60)
            r2, _ = run_chunk(cpp, ml, [small], False, timeout=60)
            found = {"kind": kind, "raw": small, "original_raw": raw, "generator": k,
                     "fen": infos[0]["fen"] if infos[0] else "", "all_kinds": res[0],
                     "cpp": r2[0][1] if r2 else h, "spec": r2[0][2] if r2 else d}
    else:
        # model disagreements / broken proof / table problems: search for a Spec-level failure on the
        # disagreement positions and their neighbourhood by perft enumeration, then on fresh positions
        base = [d[2] for d in disagreements[:40]]
        for depth in (2, 3):
            if not base:
                break
            diffs, n = perft_compare(cpp, ml, base[:ctx.scale(12, 40)], depth)
            ctx.count("finder_perft_positions_depth%d" % depth, n)
            if diffs:
                found = {"kind": "perft", **diffs[0]}
                break
        if found is None:
            extra_cases = gen_cases(rng, ctx.scale(15000, 300000), ctx.scale(200, 4000), 160, 2)
            exp2, _ = expand_cases(cpp, extra_cases)
            r2 = [r for _, r in exp2 if men_ok(r)]
            chunks = [r2[i:i + 2000] for i in range(0, len(r2), 2000)]
            with ThreadPoolExecutor(max_workers=NCPU) as ex:
                for ch, (res, err) in zip(chunks, ex.map(lambda c: run_chunk(cpp, ml, c, False), chunks)):
                    if res is None:
                        continue
                    for raw, h, d in res:
                        bad, info = compare_position(raw, h, d, False)
                        bad = [b for b in bad if not b.startswith("note:")]
                        ctx.count("finder_positions_vs_spec")
                        if bad and found is None:
                            small = shrink(cpp, ml, raw, bad[0], False)
                            found = {"kind": bad[0], "raw": small, "original_raw": raw, "fen": info["fen"], "cpp": h, "spec": d}
    if disagreements:
        bad, k, raw, wm, h, d = disagreements[0]
        replay["first_disagreement"] = {"kinds": bad, "generator": k, "raw": raw, "cpp": h[:3000], "model_or_spec": d[:3000]}
    if found:
        replay["failing_input"] = found
        ctx.violation("move generation contradicts the FIDE specification (%s)" % found["kind"], replay,
                      key="pos:" + found["raw"].replace(" ", "_") + ":" + found["kind"])
    else:
        what = []
        if tie_broken:
            what.append("translator refused: " + tie_broken)
        if not ok:
            what.append("theorem(s) in %s no longer check" % PROP_FILE)
        if table_problems:
            what.append("table correspondence broken: %s" % json.dumps(table_problems[0])[:300])
        if disagreements:
            what.append("correspondence model/implementation broken (%s)" % ",".join(disagreements[0][0]))
        replay["broken"] = what
        ctx.violation("; ".join(what), replay, no_failing_input=True)


def replay(ctx, body):
    r = body.get("replay", {})
    f = r.get("failing_input") or {}
    raw = f.get("raw") or (r.get("first_disagreement") or {}).get("raw")
    cpp = cbuild.build_harness("movegen_harness")
    ml = coqbuild.extract("ExtractMoveGen.v", "movegen_driver.ml", "movegen_driver")
    if not raw:
        print("no position in this replay:", json.dumps(r.get("broken"))[:2000])
        return
    res, _ = run_chunk(cpp, ml, [raw], True)
    bad, info = compare_position(raw, res[0][1], res[0][2], True)
    print("position:", raw)
    print("fen:", info["fen"])
    print("implementation:", res[0][1])
    print("model # spec  :", res[0][2])
    print("disagreements :", bad)
    if f.get("kind") == "perft":
        print(perft_compare(cpp, ml, [raw], int(f.get("depth", 2))))
