"""Independent legal-move oracle for the C03 finder (plain mailbox chess rules, written from the
FIDE rules; shares no code with /repo or with the Coq models).

Position = (board, wtm, castle, ep, hmc, fmn): board is a tuple of 64 one-character strings
('.' empty, 'PNBRQK' white, 'pnbrqk' black), a1 = 0, h1 = 7, a8 = 56; castle is a string subset of
"KQkq"; ep is the en-passant target square or -1.  Moves are UCI strings ("e2e4", "e7e8q", castling as
king move "e1g1")."""

START_FEN = "rnbqkbnr/pppppppp/8/8/8/8/PPPPPPPP/RNBQKBNR w KQkq - 0 1"

KNIGHT = [(1, 2), (2, 1), (2, -1), (1, -2), (-1, -2), (-2, -1), (-2, 1), (-1, 2)]
KING = [(1, 0), (1, 1), (0, 1), (-1, 1), (-1, 0), (-1, -1), (0, -1), (1, -1)]
ROOK = [(1, 0), (0, 1), (-1, 0), (0, -1)]
BISHOP = [(1, 1), (-1, 1), (-1, -1), (1, -1)]


def sq_name(s):
    return "abcdefgh"[s & 7] + "12345678"[s >> 3]


def sq_of(name):
    return (ord(name[0]) - 97) + 8 * (ord(name[1]) - 49)


def parse_fen(fen):
    t = fen.split()
    board = ["."] * 64
    y = 7
    x = 0
    for c in t[0]:
        if c == "/":
            y -= 1
            x = 0
        elif c.isdigit():
            x += int(c)
        else:
            board[y * 8 + x] = c
            x += 1
    wtm = t[1] == "w"
    castle = "" if len(t) < 3 or t[2] == "-" else t[2]
    ep = -1 if len(t) < 4 or t[3] == "-" else sq_of(t[3])
    hmc = int(t[4]) if len(t) > 4 else 0
    fmn = int(t[5]) if len(t) > 5 else 1
    return (tuple(board), wtm, castle, ep, hmc, fmn)


def to_fen(pos):
    board, wtm, castle, ep, hmc, fmn = pos
    rows = []
    for y in range(7, -1, -1):
        r = ""
        e = 0
        for x in range(8):
            c = board[y * 8 + x]
            if c == ".":
                e += 1
            else:
                if e:
                    r += str(e)
                    e = 0
                r += c
        if e:
            r += str(e)
        rows.append(r)
    return "%s %s %s %s %d %d" % ("/".join(rows), "w" if wtm else "b", castle or "-",
                                  sq_name(ep) if ep >= 0 else "-", hmc, fmn)


def attacked(board, sq, by_white):
    """Is `sq` attacked by a piece of the given colour?"""
    x0, y0 = sq & 7, sq >> 3
    P, N, B, R, Q, K = ("P", "N", "B", "R", "Q", "K") if by_white else ("p", "n", "b", "r", "q", "k")
    # pawns: a white pawn on (x0±1, y0-1) attacks sq
    py = y0 - 1 if by_white else y0 + 1
    if 0 <= py < 8:
        for px in (x0 - 1, x0 + 1):
            if 0 <= px < 8 and board[py * 8 + px] == P:
                return True
    for dx, dy in KNIGHT:
        x, y = x0 + dx, y0 + dy
        if 0 <= x < 8 and 0 <= y < 8 and board[y * 8 + x] == N:
            return True
    for dx, dy in KING:
        x, y = x0 + dx, y0 + dy
        if 0 <= x < 8 and 0 <= y < 8 and board[y * 8 + x] == K:
            return True
    for dirs, sl in ((ROOK, R), (BISHOP, B)):
        for dx, dy in dirs:
            x, y = x0 + dx, y0 + dy
            while 0 <= x < 8 and 0 <= y < 8:
                c = board[y * 8 + x]
                if c != ".":
                    if c == sl or c == Q:
                        return True
                    break
                x += dx
                y += dy
    return False


def king_sq(board, white):
    k = "K" if white else "k"
    for i in range(64):
        if board[i] == k:
            return i
    return -1


def in_check(pos):
    board, wtm = pos[0], pos[1]
    return attacked(board, king_sq(board, wtm), not wtm)


def pseudo_moves(pos):
    board, wtm, castle, ep, hmc, fmn = pos
    out = []
    own = str.isupper if wtm else str.islower
    for s in range(64):
        c = board[s]
        if c == "." or not own(c):
            continue
        x0, y0 = s & 7, s >> 3
        k = c.upper()
        if k == "P":
            dy = 1 if wtm else -1
            y = y0 + dy
            if not 0 <= y < 8:
                continue
            promo = (y == 7) if wtm else (y == 0)
            targets = []
            if board[y * 8 + x0] == ".":
                targets.append(y * 8 + x0)
                if (y0 == 1 and wtm) or (y0 == 6 and not wtm):
                    y2 = y0 + 2 * dy
                    if board[y2 * 8 + x0] == ".":
                        targets.append(y2 * 8 + x0)
            for x in (x0 - 1, x0 + 1):
                if 0 <= x < 8:
                    t = y * 8 + x
                    d = board[t]
                    if (d != "." and not own(d)) or (t == ep and d == "."):
                        targets.append(t)
            for t in targets:
                if promo:
                    for p in "qrbn":
                        out.append((s, t, p))
                else:
                    out.append((s, t, ""))
        elif k == "N" or k == "K":
            for dx, dy in (KNIGHT if k == "N" else KING):
                x, y = x0 + dx, y0 + dy
                if 0 <= x < 8 and 0 <= y < 8:
                    d = board[y * 8 + x]
                    if d == "." or not own(d):
                        out.append((s, y * 8 + x, ""))
            if k == "K":
                rank = 0 if wtm else 7
                if s == rank * 8 + 4 and not attacked(board, s, not wtm):
                    ks, qs = ("K", "Q") if wtm else ("k", "q")
                    rook = "R" if wtm else "r"
                    if ks in castle and board[s + 1] == "." and board[s + 2] == "." and board[s + 3] == rook \
                            and not attacked(board, s + 1, not wtm):
                        out.append((s, s + 2, ""))
                    if qs in castle and board[s - 1] == "." and board[s - 2] == "." and board[s - 3] == "." \
                            and board[s - 4] == rook and not attacked(board, s - 1, not wtm):
                        out.append((s, s - 2, ""))
        else:
            dirs = ROOK if k == "R" else BISHOP if k == "B" else ROOK + BISHOP
            for dx, dy in dirs:
                x, y = x0 + dx, y0 + dy
                while 0 <= x < 8 and 0 <= y < 8:
                    d = board[y * 8 + x]
                    if d == ".":
                        out.append((s, y * 8 + x, ""))
                    else:
                        if not own(d):
                            out.append((s, y * 8 + x, ""))
                        break
                    x += dx
                    y += dy
    return out


def make(pos, mv):
    """Apply a (from, to, promo) move; no legality test."""
    board, wtm, castle, ep, hmc, fmn = pos
    s, t, p = mv
    b = list(board)
    c = b[s]
    k = c.upper()
    cap = b[t] != "."
    b[s] = "."
    newep = -1
    if k == "P":
        if t == ep and not cap and (s & 7) != (t & 7):
            b[t - 8 if wtm else t + 8] = "."     # en-passant capture
            cap = True
        if abs(t - s) == 16:
            newep = (s + t) // 2
        if p:
            c = p.upper() if wtm else p.lower()
    b[t] = c
    if k == "K" and abs(t - s) == 2:
        if t > s:
            b[t - 1] = b[t + 1]
            b[t + 1] = "."
        else:
            b[t + 1] = b[t - 2]
            b[t - 2] = "."
    # castling rights
    rem = ""
    if k == "K":
        rem += "KQ" if wtm else "kq"
    for sq, fl in ((0, "Q"), (7, "K"), (56, "q"), (63, "k")):
        if s == sq or t == sq:
            rem += fl
    castle = "".join(f for f in castle if f not in rem)
    hmc = 0 if (k == "P" or cap) else hmc + 1
    return (tuple(b), not wtm, castle, newep, hmc, fmn + (0 if wtm else 1))


def legal_moves(pos):
    """List of legal moves as (from, to, promo) triples."""
    out = []
    wtm = pos[1]
    for mv in pseudo_moves(pos):
        np = make(pos, mv)
        if not attacked(np[0], king_sq(np[0], wtm), not wtm):
            out.append(mv)
    return out


def uci(mv):
    return sq_name(mv[0]) + sq_name(mv[1]) + mv[2]


def parse_uci(s):
    if len(s) < 4 or len(s) > 5:
        return None
    try:
        a, b = sq_of(s[0:2]), sq_of(s[2:4])
    except Exception:
        return None
    if not (0 <= a < 64 and 0 <= b < 64) or s[0] not in "abcdefgh" or s[2] not in "abcdefgh":
        return None
    return (a, b, s[4:] if len(s) == 5 else "")


_cache = {}


def legal_uci(pos):
    """Set of legal moves as UCI strings (cached by position incl. castling/ep)."""
    key = pos[:4]
    r = _cache.get(key)
    if r is None:
        r = frozenset(uci(m) for m in legal_moves(pos))
        if len(_cache) > 200000:
            _cache.clear()
        _cache[key] = r
    return r


def play_line(pos, moves):
    """Play UCI strings from pos; return (index of first illegal move or -1, final position)."""
    for i, s in enumerate(moves):
        if s not in legal_uci(pos):
            return i, pos
        pos = make(pos, parse_uci(s))
    return -1, pos


def perft(pos, d):
    if d == 0:
        return 1
    n = 0
    for m in legal_moves(pos):
        n += perft(make(pos, m), d - 1)
    return n
