"""C05 — UCI session contract (DESIGN.md section 6, C05).

prove      coq/Properties_C05.v  (LTS of UCI thread + engine thread, invariants over all command
           sequences x all interleavings, for both variants of the `ponderhit` null test)
correspond the REAL engine binary (built from the current tree with a synthetic net) is driven
           with generated command scripts; the interleaved stdin/stdout event sequence must be a
           trace of the extracted LTS (drivers/ctl_driver.ml, set-of-states simulation)
spec       direct contract checks on every run, independent of the model (counts of readyok /
           bestmove, withholding, silence when no go is outstanding, exit status, no signal)
"""
import json
import os
import re
import shutil
import subprocess
import tempfile
import threading
import time
from concurrent.futures import ThreadPoolExecutor

from vlib import cbuild, coqbuild
from vlib.common import NCPU, REPO, VERIF, sh

PROP_FILE = "Properties_C05.v"
SEP = "\x1f"
KEY_PONDERHIT = "script:ponderhit-before-engine"
KEY_F8 = "script:go-ponder-depth+ponderhit-unlimited"
KEY_GARBLE = "race:stdout-interleave-uci-thread-vs-search-thread"

# ------------------------------------------------------------------------------------------
# positions with LEGAL move lists (the property quantifies over legal move lists only)
LINES = [
    "e2e4 e7e5 g1f3 b8c6 f1b5 a7a6 b5a4 g8f6 e1g1 f8e7".split(),
    "d2d4 d7d5 c2c4 e7e6 b1c3 g8f6 c1g5 f8e7 e2e3 e8g8".split(),
    "c2c4 e7e5 b1c3 g8f6 g2g3 d7d5 c4d5 f6d5 f1g2 d5b6".split(),
    "e2e4 c7c5 g1f3 d7d6 d2d4 c5d4 f3d4 g8f6 b1c3 a7a6".split(),
]
FENS = [
    ("r1bqkbnr/pppp1ppp/2n5/4p3/4P3/5N2/PPPP1PPP/RNBQKB1R w KQkq - 2 3", ["f1b5", "a7a6"]),
    ("8/8/8/4k3/8/8/4P3/4K3 w - - 0 1", ["e1d2", "e5d4"]),
    ("7k/5Q2/6K1/8/8/8/8/8 b - - 0 1", []),            # stalemate: no legal move
    ("7k/6Q1/6K1/8/8/8/8/8 b - - 0 1", []),            # checkmate
    ("6k1/5ppp/8/8/8/8/8/R3K3 w Q - 0 1", ["a1a8"]),   # after a1a8: checkmate
    ("8/P7/8/8/8/8/8/k1K5 w - - 0 1", ["a7a8q"]),      # promotion
    ("rnbqkbnr/ppp1pppp/8/3pP3/8/8/PPPP1PPP/RNBQKBNR w KQkq d6 0 3", ["e5d6"]),   # en passant
    ("7k/8/8/8/8/8/6q1/K7 w - - 0 1", ["a1b1"]),       # exactly one legal move
]
BAD_POSITIONS = [           # parse-error path of handleCommand (ChessParseError is caught)
    "position", "position fen", "position fen 8/8/8 w - - 0 1",
    "position fen rnbqkbnr/pppppppp/8/8/8/8/PPPPPPPP/RNBQKBNR x KQkq - 0 1",
    "position startpos moves", "position startpos moves zzzz", "position nonsense",
]

# declared options: (name, kind, valid values, out-of-range / ill-typed values)
# Hash and Threads are kept small on purpose (memory / thread count of 16 parallel engines).
OPTIONS = [
    ("UCI_EngineAbout", "string", ["x"], [""]),
    ("Threads", "spin", ["1", "2", "3"], ["0", "-1", "513", "abc", "99999999999"]),
    ("Hash", "spin", ["1", "16", "32"], ["0", "-5", "1048577", "x", "99999999999999"]),
    ("MultiPV", "spin", ["1", "2", "4", "256"], ["0", "257", "-1", ""]),
    ("Ponder", "check", ["true", "false", "TRUE"], ["maybe", "1", ""]),
    ("UCI_AnalyseMode", "check", ["true", "false"], ["2", "yes"]),
    ("OwnBook", "check", ["true", "false"], ["x"]),
    ("BookFile", "string", ["/nonexistent/book.bin", "<empty>"], [""]),
    ("UseNullMove", "check", ["true", "false"], ["0"]),
    ("AnalysisAgeHash", "check", ["true", "false"], ["-"]),
    ("Clear Hash", "button", [None], ["extra"]),
    ("Strength", "spin", ["0", "500", "1000"], ["-1", "1001", "1e3"]),
    ("MaxNPS", "spin", ["0", "20000", "1000000"], ["-1", "10000001", "fast"]),
    ("UCI_LimitStrength", "check", ["true", "false"], ["x"]),
    ("UCI_Elo", "spin", ["-625", "1500", "2900"], ["-626", "2901", "elo"]),
    ("Contempt", "spin", ["-2000", "0", "37", "2000"], ["-2001", "2001", "."]),
    ("AnalyzeContempt", "spin", ["-2000", "0", "2000"], ["-2001", "2001"]),
    ("AutoContempt", "check", ["true", "false"], ["?"]),
    ("ContemptFile", "string", ["/nonexistent/contempt.txt", "<empty>"], [""]),
    ("UCI_Opponent", "string", ["GM 2800 human Kasparov", "none none computer X"], [""]),
    ("GaviotaTbPath", "string", ["/nonexistent/gtb", "<empty>"], [""]),
    ("GaviotaTbCache", "spin", ["1", "64", "2047"], ["0", "2048"]),
    ("SyzygyPath", "string", ["/nonexistent/rtb", "<empty>"], [""]),
    ("MinProbeDepth", "spin", ["0", "1", "100"], ["-1", "101"]),
    ("MinProbeDepth6", "spin", ["0", "100"], ["-1", "101"]),
    ("MinProbeDepth6dtz", "spin", ["0", "100"], ["101"]),
    ("MinProbeDepth7", "spin", ["0", "12", "100"], ["101"]),
    ("MinProbeDepth7dtz", "spin", ["0", "12", "100"], ["-1"]),
    ("BufferTime", "spin", ["1", "1000", "10000"], ["0", "10001"]),
]
UNKNOWN_WORDS = ["xyzzy", "debug on", "register later", "Uci", "ISREADY", "go2", "stopp", "position2 startpos",
                 "setoptions name Hash value 1", "help", "\tfoo\tbar ", "d", "eval", "perft 3", "quit2"]
BLANKS = ["", " ", "   ", "\t", " \t \r"]


# ------------------------------------------------------------------------------------------
# script = list of steps:
#   ("send", text, meta)   meta: dict(kind=..., held=True/False/None, ...)
#   ("wait", what, ms)     wait until a line of kind `what` (info|bestmove|readyok|uciok) has
#                          arrived since the previous send, at most ms
#   ("sleep", ms)
#   ("eof",)
def S(text, kind, **meta):
    meta["kind"] = kind
    return ("send", text, meta)


def gen_position(rng):
    r = rng.random()
    if r < 0.25:
        return S("position startpos", "position")
    if r < 0.65:
        line = rng.choice(LINES)
        k = rng.randint(0, len(line))
        return S("position startpos moves " + " ".join(line[:k]) if k else "position startpos moves", "position")
    fen, mv = rng.choice(FENS)
    k = rng.randint(0, len(mv))
    t = "position fen " + fen
    if k:
        t += " moves " + " ".join(mv[:k])
    return S(t, "position")


def gen_go(rng, mode=None):
    """mode: normal | infinite | ponder | odd (degenerate limit values)"""
    if mode is None:
        mode = rng.choice(["normal"] * 5 + ["infinite", "infinite", "ponder", "ponder", "odd"])
    parts = ["go"]
    held = False
    lims = []
    r = rng.random()
    if r < 0.30:
        lims.append("depth %d" % rng.randint(1, 6))
    elif r < 0.50:
        lims.append("nodes %d" % rng.choice([1, 10, 100, 1000, 5000, 20000]))
    elif r < 0.65:
        lims.append("movetime %d" % rng.choice([1, 20, 50, 100]))
    elif r < 0.72:
        lims.append("mate %d" % rng.randint(1, 3))
    elif r < 0.92:
        w, b = rng.choice([(1200, 1200), (300, 5000), (5000, 300), (1500, 1500), (50, 50), (0, 1000), (1000, 0), (3000, 3000)])
        lims.append("wtime %d btime %d" % (w, b))
        if rng.random() < 0.5:
            lims.append("winc %d binc %d" % (rng.choice([0, 10, 100]), rng.choice([0, 10, 100])))
        if rng.random() < 0.3:
            lims.append("movestogo %d" % rng.choice([1, 2, 10, 40]))
    else:
        lims.append("depth %d" % rng.randint(1, 4))
        lims.append("nodes %d" % rng.choice([50, 500]))
        lims.append("movetime %d" % rng.choice([30, 80]))
    if mode == "infinite":
        parts.append("infinite")
        held = True
        if rng.random() < 0.2:
            parts += lims            # limits next to `infinite` are ignored by computeTimeLimit
    elif mode == "ponder":
        held = True
        k = rng.random()
        if k < 0.6:
            parts += ["ponder"] + lims
        elif k < 0.8:
            parts += lims + ["ponder"]
        elif k < 0.9:
            parts += ["ponder"]
        else:
            parts += ["ponder", "infinite"]
    elif mode == "odd":
        parts.append(rng.choice([
            "", "depth 0", "depth -3", "nodes 0", "movetime 0", "depth", "depth abc", "mate 0",
            "wtime -100 btime -100", "wtime -50 btime 1000", "depth 99999999999", "nodes -1",
            "wtime 0 btime 0", "foo bar", "depth infinite", "movetime", "depth +3", "depth 2x",
            "winc 5 binc 5", "movestogo 3"]))
        held = None
    else:
        parts += lims
    if rng.random() < 0.15:
        sm = rng.choice(["searchmoves e2e4 d2d4", "searchmoves g1f3", "searchmoves e2e4 zz ponder", "searchmoves a1a1 e2e4",
                         "searchmoves e7e8q a2a1n", "searchmoves"])
        if "ponder" in sm.split()[1:]:
            held = True if mode in ("ponder", "infinite") else None
        if rng.random() < 0.5:
            parts.append(sm)
        else:
            parts.insert(1, sm)
            # searchmoves swallows following move-shaped tokens only; sub-commands still parse
    text = " ".join(p for p in parts if p)
    toks = text.split()
    # held by the letter of the protocol: an explicit `infinite` or `ponder` sub-command
    explicit = held is True
    return S(text, "go", held=explicit if held is not None else None, mode=mode)


def gen_setoption(rng, valid=None):
    name, kind, good, bad = rng.choice(OPTIONS)
    if valid is None:
        valid = rng.random() < 0.6
    v = rng.choice(good if valid else bad)
    nm = name
    r = rng.random()
    if r < 0.15:
        nm = name.lower()
    elif r < 0.25:
        nm = name.upper()
    if v is None:
        t = "setoption name %s" % nm
    else:
        t = "setoption name %s value %s" % (nm, v)
    return S(t, "setoption", option=name, valid=valid)


def gen_setoption_odd(rng):
    return S(rng.choice(["setoption", "setoption name", "setoption name NoSuchOption value 3", "setoption value 3",
                         "setoption name value 5", "setoption Hash 32", "setoption name Hash", "setoption name  Clear   Hash",
                         "setoption name Hash value", "setoption name hash value 8 value 9", "setoption name Unknown Thing"]),
             "setoption", option=None, valid=False)


def gen_any(rng, weights=None):
    r = rng.random()
    if r < 0.20:
        return gen_go(rng)
    if r < 0.32:
        return S("stop", "stop")
    if r < 0.44:
        return S("isready", "isready")
    if r < 0.56:
        return gen_setoption(rng)
    if r < 0.60:
        return gen_setoption_odd(rng)
    if r < 0.70:
        return gen_position(rng)
    if r < 0.75:
        return S("ucinewgame", "ucinewgame")
    if r < 0.81:
        return S("ponderhit", "ponderhit")
    if r < 0.85:
        return S("uci", "uci")
    if r < 0.90:
        return S(rng.choice(UNKNOWN_WORDS), "unknown")
    if r < 0.95:
        return S(rng.choice(BLANKS), "blank")
    return S(rng.choice(BAD_POSITIONS), "position-bad")


def gen_delay(rng, after):
    """delay placed relative to search progress"""
    k = after[2]["kind"]
    r = rng.random()
    if k == "go":
        if r < 0.30:
            return []
        if r < 0.55:
            return [("wait", "info", 400)]
        if r < 0.80:
            return [("wait", "bestmove", 1500)]
        return [("sleep", rng.choice([1, 5, 20, 60]))]
    if k == "isready" and r < 0.5:
        return [("wait", "readyok", 1000)]
    if k in ("stop", "ponderhit") and r < 0.5:
        return [("wait", "bestmove", 1500)]
    if k == "uci" and r < 0.5:
        return [("wait", "uciok", 1000)]
    if r < 0.15:
        return [("sleep", rng.choice([1, 3, 10, 30]))]
    return []


def end_script(rng, steps, how=None):
    how = how or rng.choice(["quit", "quit", "eof", "quit+junk"])
    if how == "quit":
        steps.append(S("quit", "quit"))
    elif how == "eof":
        pass
    else:
        steps.append(S("quit", "quit"))
        steps.append(S(rng.choice(["isready", "go depth 2", "uci", "stop"]), "after-quit"))
    steps.append(("eof",))
    return steps


def safe_prefix(rng):
    """a tree without fix 4d13f7c crashes on `ponderhit` before the engine object exists; scripts of
    most classes first create the object so that they explore the rest even on such a tree
    (the class ponderhit-first and the witness script exercise the other order)"""
    return [rng.choice([S("isready", "isready"), S("setoption name Hash value 16", "setoption", option="Hash", valid=True),
                        S("isready", "isready")])]


def script_session(rng):
    """GUI-like session with deviations"""
    st = [S("uci", "uci"), ("wait", "uciok", 1000)]
    for _ in range(rng.randint(0, 4)):
        st.append(gen_setoption(rng, valid=True))
    st += [S("isready", "isready"), ("wait", "readyok", 2000), S("ucinewgame", "ucinewgame")]
    for _ in range(rng.randint(1, 6)):
        st.append(gen_position(rng))
        g = gen_go(rng)
        st.append(g)
        st += gen_delay(rng, g)
        mode = g[2].get("mode")
        if mode == "ponder":
            r = rng.random()
            if r < 0.5:
                st.append(S("ponderhit", "ponderhit"))
            elif r < 0.9:
                st.append(S("stop", "stop"))
            st += [("wait", "bestmove", 800)]
        elif mode in ("infinite", "odd"):
            if rng.random() < 0.85:
                st.append(S("stop", "stop"))
                st += [("wait", "bestmove", 800)]
        elif rng.random() < 0.3:
            st.append(S("stop", "stop"))
        if rng.random() < 0.3:
            st.append(S("isready", "isready"))
        if rng.random() < 0.2:
            st.append(gen_setoption(rng))
    return end_script(rng, st)


def script_chaos(rng, n=None, safe=True):
    st = safe_prefix(rng) if safe else []
    n = n or rng.randint(5, 58)
    for _ in range(n):
        c = gen_any(rng)
        st.append(c)
        st += gen_delay(rng, c)
    return end_script(rng, st)


def script_before_init(rng):
    """first command of every kind that does not need the engine object, then a normal tail"""
    first = rng.choice([S("stop", "stop"), S("ucinewgame", "ucinewgame"), gen_position(rng), S("uci", "uci"),
                        S(rng.choice(UNKNOWN_WORDS), "unknown"), S(rng.choice(BLANKS), "blank"), gen_go(rng),
                        gen_setoption(rng), gen_setoption_odd(rng), S("isready", "isready"), S("quit", "quit")])
    st = [first]
    if first[2]["kind"] in ("stop", "ucinewgame", "position", "uci", "unknown", "blank") and rng.random() < 0.5:
        st.append(rng.choice([S("stop", "stop"), S("ucinewgame", "ucinewgame"), S("stop", "stop")]))
    if first[2]["kind"] != "quit":
        st += safe_prefix(rng)
        for _ in range(rng.randint(0, 6)):
            c = gen_any(rng)
            st.append(c)
            st += gen_delay(rng, c)
    return end_script(rng, st)


def script_during_search(rng):
    """a long-running search, then a burst of commands of every kind while it runs"""
    st = safe_prefix(rng)
    st.append(gen_position(rng))
    g = gen_go(rng, mode=rng.choice(["infinite", "ponder", "infinite"]))
    st.append(g)
    st.append(("wait", "info", 500) if rng.random() < 0.7 else ("sleep", 2))
    for _ in range(rng.randint(2, 14)):
        r = rng.random()
        if r < 0.3:
            c = gen_setoption(rng)
        elif r < 0.45:
            c = S("isready", "isready")
        elif r < 0.55:
            c = gen_position(rng)
        elif r < 0.62:
            c = S("ucinewgame", "ucinewgame")
        elif r < 0.7:
            c = S("uci", "uci")
        elif r < 0.78:
            c = S("ponderhit", "ponderhit")
        elif r < 0.88:
            c = gen_go(rng)
        else:
            c = S(rng.choice(UNKNOWN_WORDS + BLANKS), "unknown")
        st.append(c)
        if rng.random() < 0.3:
            st += gen_delay(rng, c)
    if rng.random() < 0.7:
        st += [S("stop", "stop"), ("wait", "bestmove", 1500)]
    return end_script(rng, st)


def script_repeated(rng):
    st = safe_prefix(rng)
    what = rng.choice(["isready", "stop", "go", "ponderhit", "uci", "ucinewgame", "setoption", "quit", "go-stop"])
    n = rng.randint(2, 8)
    if what == "go":
        for _ in range(n):
            st.append(gen_go(rng))
            if rng.random() < 0.3:
                st.append(("sleep", rng.choice([1, 10])))
    elif what == "go-stop":
        for _ in range(n):
            st.append(gen_go(rng))
            st.append(S("stop", "stop"))
    elif what == "setoption":
        nm = rng.choice(OPTIONS)
        for _ in range(n):
            st.append(S("setoption name %s value %s" % (nm[0], rng.choice([v for v in nm[2] + nm[3] if v is not None] or ["1"])),
                        "setoption", option=nm[0], valid=None))
        st.append(S("isready", "isready"))
    elif what == "quit":
        st.append(gen_go(rng))
        for _ in range(n):
            st.append(S("quit", "quit"))
        st.append(("eof",))
        return st
    else:
        if rng.random() < 0.6:
            st.append(gen_go(rng))
        for _ in range(n):
            st.append(S(what, what))
    return end_script(rng, st)


def script_options(rng, opts):
    """every declared option with valid and out-of-range values, idle and during a search"""
    st = safe_prefix(rng)
    searching = rng.random() < 0.5
    if searching:
        st += [S("go infinite", "go", held=True, mode="infinite"), ("wait", "info", 500)]
    for (name, kind, good, bad) in opts:
        for v in [rng.choice(good), rng.choice(bad)] + ([rng.choice(good)] if rng.random() < 0.5 else []):
            if v is None:
                st.append(S("setoption name %s" % name, "setoption", option=name, valid=True))
            else:
                st.append(S("setoption name %s value %s" % (name, v), "setoption", option=name, valid=v in good))
        if rng.random() < 0.4:
            st.append(S("isready", "isready"))
    if searching:
        st += [S("stop", "stop"), ("wait", "bestmove", 1500)]
    st += [S("isready", "isready"), ("wait", "readyok", 3000)]
    g = gen_go(rng, mode="normal")
    st += [g, ("wait", "bestmove", 1500)]
    return end_script(rng, st)


def script_eof(rng):
    k = rng.randrange(5)
    if k == 0:
        return [("eof",)]
    st = safe_prefix(rng) if k != 1 else [gen_position(rng)]
    if k == 2:
        st += [gen_go(rng, mode="infinite"), ("wait", "info", 300)]
    elif k == 3:
        st += [gen_go(rng, mode="ponder")]
    elif k == 4:
        st += [gen_go(rng, mode="normal")]
    st.append(("eof",))
    return st


def script_ponderhit_first(rng):
    """finding F2 (fixed by 4d13f7c): ponderhit while the EngineControl object does not exist"""
    st = []
    for _ in range(rng.randint(0, 3)):
        st.append(rng.choice([S("uci", "uci"), gen_position(rng), S("stop", "stop"), S("ucinewgame", "ucinewgame"),
                              S(rng.choice(BLANKS), "blank"), S(rng.choice(UNKNOWN_WORDS), "unknown")]))
    st.append(S("ponderhit", "ponderhit"))
    st += [("sleep", 50), S("isready", "isready"), ("wait", "readyok", 500)]
    return end_script(rng, st, "quit")


WITNESS_PONDERHIT = [S("ponderhit", "ponderhit"), ("sleep", 100), S("isready", "isready"), ("wait", "readyok", 1500),
                     S("quit", "quit"), ("eof",)]
SCRIPT_F8 = [S("isready", "isready"), ("wait", "readyok", 3000), S("position startpos", "position"),
             S("go ponder depth 3", "go", held=True, mode="ponder"), ("wait", "info", 1000), S("ponderhit", "ponderhit"),
             ("wait", "bestmove", 2500), S("stop", "stop"), ("wait", "bestmove", 3000), S("quit", "quit"), ("eof",)]


def gen_scripts(ctx):
    rng = ctx.rng
    n = ctx.scale(1, 40)
    out = []
    for _ in range(40 * n):
        out.append(("session", script_session(rng)))
    for _ in range(45 * n):
        out.append(("chaos", script_chaos(rng)))
    for _ in range(22 * n):
        out.append(("before-init", script_before_init(rng)))
    for _ in range(28 * n):
        out.append(("during-search", script_during_search(rng)))
    for _ in range(18 * n):
        out.append(("repeated", script_repeated(rng)))
    for rep in range(2 * n):
        opts = list(OPTIONS)
        rng.shuffle(opts)
        for i in range(0, len(opts), 8):
            out.append(("options", script_options(rng, opts[i:i + 8])))
    for _ in range(8 * n):
        out.append(("eof", script_eof(rng)))
    for _ in range(4 * n):
        out.append(("ponderhit-first", script_ponderhit_first(rng)))
    return out


# ------------------------------------------------------------------------------------------
# running the real binary
RE_BEST = re.compile(r"^bestmove (0000|[a-h][1-8][a-h][1-8][qrbn]?)( ponder [a-h][1-8][a-h][1-8][qrbn]?)?$")
RE_INFO = re.compile(r"^info (depth \d+|currmove [a-h][1-8][a-h][1-8][qrbn]? currmovenumber \d+|nodes \d+ nps \d+ hashfull \d+( tbhits \d+)? time \d+)$")
RE_INFOSTR = re.compile(r"^info string (eval [a-z]+ *:-?[0-9.]+( \d+)?|Found \d+ syzygy tablebases|error parsing contempt file)$")
RE_INFO_PV = re.compile(r"^info depth \d+ score (cp|mate) -?\d+( upperbound| lowerbound)? time \d+ nodes \d+ nps \d+( tbhits \d+)?( multipv \d+)? pv( [a-h][1-8][a-h][1-8][qrbn]?)*$")
RE_INFO_DEPTH = re.compile(r"^info depth \d+$")


UCI_LINES = None     # the id / option lines of an undisturbed `uci` answer (set from an idle run)


def canon(line):
    """canonical kind of one stdout line; None = dropped (a line of the uci block)"""
    if line == "readyok":
        return "readyok"
    if line == "uciok":
        return "uciok"
    if line.startswith("bestmove"):
        return "bestmove" if RE_BEST.match(line) else "other"
    if line.startswith("info depth ") and not RE_INFO_DEPTH.match(line):
        return "info" if RE_INFO_PV.match(line) else "other"
    if line.startswith("info string"):
        return "infostr" if RE_INFOSTR.match(line) else "other"
    if line.startswith("info"):
        return "info" if RE_INFO.match(line) else "other"
    if line.startswith("id name ") or line.startswith("id author ") or line.startswith("option name "):
        return None if (UCI_LINES is None or line in UCI_LINES) else "other"
    return "other"


def run_script(exe, steps, exit_timeout=12.0, stderr_to=None):
    """Drive one engine process.  Returns dict(events=[...], rc, hang, exit_latency)."""
    errf = open(stderr_to, "wb") if stderr_to else subprocess.DEVNULL
    p = subprocess.Popen([exe], stdin=subprocess.PIPE, stdout=subprocess.PIPE, stderr=errf, bufsize=0)
    lock = threading.Lock()
    cond = threading.Condition(lock)
    events = []          # ("send", text) | ("eof",) | ("out", kind, raw)
    counts = {"info": 0, "infostr": 0, "bestmove": 0, "readyok": 0, "uciok": 0}
    raw_uci = []

    def reader():
        buf = b""
        f = p.stdout
        while True:
            chunk = f.read(65536)
            if not chunk:
                break
            buf += chunk
            while b"\n" in buf:
                ln, buf = buf.split(b"\n", 1)
                line = ln.decode("latin-1").rstrip("\r")
                k = canon(line)
                with cond:
                    if k is None:
                        raw_uci.append(line)
                    else:
                        events.append(("out", k, line if k in ("other", "bestmove", "infostr") else ""))
                        if k in counts:
                            counts[k] += 1
                    cond.notify_all()
        if buf:
            with cond:
                events.append(("out", "other", "unterminated:" + buf.decode("latin-1")))
                cond.notify_all()

    th = threading.Thread(target=reader, daemon=True)
    th.start()
    base = dict(counts)
    dead_pipe = False
    t_end = None
    for st in steps:
        if st[0] == "send":
            with cond:
                base = dict(counts)
                events.append(("send", st[1]))
            try:
                p.stdin.write((st[1] + "\n").encode("latin-1"))
                p.stdin.flush()
            except (BrokenPipeError, OSError):
                dead_pipe = True
                break
        elif st[0] == "wait":
            deadline = time.time() + st[2] / 1000.0
            with cond:
                while counts[st[1]] <= base[st[1]] and p.poll() is None:
                    left = deadline - time.time()
                    if left <= 0:
                        break
                    cond.wait(min(left, 0.05))
        elif st[0] == "sleep":
            time.sleep(st[1] / 1000.0)
        elif st[0] == "eof":
            with cond:
                events.append(("eof",))
            try:
                p.stdin.close()
            except (BrokenPipeError, OSError):
                pass
            t_end = time.time()
    if t_end is None:
        t_end = time.time()
        try:
            p.stdin.close()
        except (BrokenPipeError, OSError):
            pass
    hang = False
    try:
        rc = p.wait(timeout=exit_timeout)
    except subprocess.TimeoutExpired:
        hang = True
        p.kill()
        rc = p.wait()
    lat = time.time() - t_end
    th.join(timeout=5)
    if stderr_to:
        errf.close()
    with cond:
        ev = list(events)
    return dict(events=ev, rc=rc, hang=hang, exit_latency=lat, dead_pipe=dead_pipe, uci_lines=len(raw_uci))


def trace_line(g, res):
    f = ["g1" if g else "g0"]
    for e in res["events"]:
        if e[0] == "send":
            f.append(">" + e[1])
        elif e[0] == "eof":
            f.append("$eof")
        else:
            f.append("<" + e[1])
    if not res["hang"]:
        f.append("!exit0" if res["rc"] == 0 else "!crash" if res["rc"] < 0 else "!exit%d" % res["rc"])
    else:
        f.append("!hang")
    return SEP.join(f)


def first_word(text):
    t = text.split()
    return t[0] if t else ""


def engine_exists_before(sends, idx):
    return any(first_word(t) in ("isready", "setoption", "go") for t in sends[:idx])


def ponderhit_before_engine(res):
    """python-level description of finding F2: a `ponderhit` was sent when no
    isready/setoption/go (the commands that create the engine object) had been sent before"""
    sends = [e[1] for e in res["events"] if e[0] == "send"]
    for i, t in enumerate(sends):
        if first_word(t) == "quit":
            return False
        if first_word(t) == "ponderhit" and not engine_exists_before(sends, i):
            return True
    return False


RELEASE = ("stop", "ponderhit", "go", "quit")


def contract_check(steps, res):
    """The property itself, checked on the observed run (independent of the Coq model).
    Returns (failures, garbled): `garbled` = output lines of the UCI thread (answer to uci /
    isready) and of the search thread were mixed character-wise while a search was running --
    the two threads write to std::cout without a lock; after that point lines cannot be
    attributed any more, so only crash / hang / exit status are judged for such a run."""
    bad = []
    if res["hang"]:
        bad.append("no exit within timeout after quit/EOF (hang)")
    elif res["rc"] < 0:
        bad.append("killed by signal %d" % -res["rc"])
    elif res["rc"] != 0:
        bad.append("exit status %d" % res["rc"])
    metas = [s[2] for s in steps if s[0] == "send"]
    ev = res["events"]
    n_go = n_best = n_isr = n_rdy = n_uci = n_uciok = 0
    quit_seen = False
    garbled = False
    go_meta = []           # per go sent before quit: [held, released]
    si = 0
    for e in ev:
        if e[0] == "send":
            w = first_word(e[1])
            meta = metas[si] if si < len(metas) else {}
            si += 1
            if quit_seen:
                continue
            if w in RELEASE:
                for gm in go_meta:
                    gm[1] = True
            if w == "go":
                n_go += 1
                go_meta.append([meta.get("held"), False])
            elif w == "isready":
                n_isr += 1
            elif w == "uci":
                n_uci += 1
            elif w == "quit":
                quit_seen = True
        elif e[0] == "eof":
            for gm in go_meta:
                gm[1] = True
        else:
            k = e[1]
            if k == "other":
                if n_go > n_best and (n_uci > n_uciok or n_isr > n_rdy):
                    garbled = True
                    break
                bad.append("malformed output line: %r" % e[2][:200])
            elif k == "readyok":
                n_rdy += 1
                if n_rdy > n_isr:
                    bad.append("readyok without isready")
            elif k == "uciok":
                n_uciok += 1
                if n_uciok > n_uci:
                    bad.append("uciok without uci")
            elif k == "info":
                if n_go == n_best:
                    bad.append("search info line while no go is outstanding (after bestmove #%d)" % n_best)
            elif k == "bestmove":
                if n_go == n_best:
                    bad.append("bestmove without outstanding go (bestmove #%d)" % (n_best + 1))
                else:
                    gm = go_meta[n_best]
                    if gm[0] is True and not gm[1]:
                        bad.append("bestmove of ponder/infinite search #%d before stop/ponderhit" % (n_best + 1))
                n_best += 1
    crashed = res["rc"] < 0
    if not crashed and not res["hang"] and not garbled:
        if n_best != n_go:
            bad.append("%d go but %d bestmove at exit" % (n_go, n_best))
        if n_rdy != n_isr:
            bad.append("%d isready but %d readyok at exit" % (n_isr, n_rdy))
        if n_uciok != n_uci:
            bad.append("%d uci but %d uciok at exit" % (n_uci, n_uciok))
    seen = set()
    return [b for b in bad if not (b in seen or seen.add(b))], garbled


def judge(steps, res):
    """contract_check minus the crash that is the `ponderhit`-before-engine finding (that one is
    reported once, through the witness script, under its own key)"""
    fails, garbled = contract_check(steps, res)
    if res["rc"] < 0 and ponderhit_before_engine(res):
        fails = [f for f in fails if not f.startswith("killed by signal")]
    return fails, garbled


def script_text(steps):
    out = []
    for s in steps:
        if s[0] == "send":
            out.append(s[1])
        elif s[0] == "wait":
            out.append("<wait %s %dms>" % (s[1], s[2]))
        elif s[0] == "sleep":
            out.append("<sleep %dms>" % s[1])
        else:
            out.append("<EOF>")
    return out


def steps_to_json(steps):
    return [list(s[:2]) + ([s[2]] if len(s) > 2 else []) for s in steps]


def steps_from_json(js):
    return [tuple(s) for s in js]


def check_traces(ml_exe, lines):
    rc, out, err = sh([ml_exe], input="\n".join(lines) + "\n", timeout=900)
    res = out.strip("\n").split("\n") if out.strip() else []
    if rc != 0 or len(res) != len(lines):
        raise RuntimeError("ctl_driver failed rc=%d: %s" % (rc, err[-2000:]))
    return res


def evaluate(exe, ml_exe, g, steps, exit_timeout=8.0):
    """run + trace check + contract check; returns (res, verdict, fails)"""
    res = run_script(exe, steps, exit_timeout=exit_timeout)
    v = check_traces(ml_exe, [trace_line(g, res)])[0]
    fails, garbled = judge(steps, res)
    return res, v, fails


def shrink(exe, ml_exe, g, steps, pred, budget=40, attempts=2, exit_timeout=8.0):
    """delta-debug a script (chunks of decreasing size, the final EOF is kept);
    pred(res, verdict, fails) -> still failing.  Timing dependent: two attempts per candidate."""
    cur = list(steps)
    chunk = max(1, len(cur) // 2)
    while budget > 0 and chunk >= 1:
        i = 0
        progressed = False
        while i < len(cur) and budget > 0:
            cand = cur[:i] + [s for s in cur[i:i + chunk] if s[0] == "eof"] + cur[i + chunk:]
            if len(cand) == len(cur):
                i += chunk
                continue
            budget -= 1
            ok = False
            for _ in range(attempts):
                r, v, f = evaluate(exe, ml_exe, g, cand, exit_timeout=exit_timeout)
                if pred(r, v, f):
                    ok = True
                    break
            if ok:
                cur = cand
                progressed = True
            else:
                i += chunk
        if chunk == 1 and not progressed:
            break
        chunk = chunk // 2 if chunk > 1 else (1 if progressed else 0)
    return cur


# ------------------------------------------------------------------------------------------
def run(ctx):
    ctx.rule = ("command scripts (<= ~60 commands) over all command kinds: uci, isready, setoption (every declared option, "
                "valid and out-of-range values, odd forms), ucinewgame, position (startpos/fen with legal move lists, parse "
                "errors), go (depth/nodes/movetime/mate/clock limits, infinite, ponder, searchmoves, degenerate values), stop, "
                "ponderhit, quit, unknown words, blank lines, EOF; delays placed relative to search progress (none / first "
                "info / bestmove / ms); classes: session, chaos, before-init, during-search, repeated, options, eof, "
                "ponderhit-first.  non-trivial = the script starts at least one search and sends at least one command while "
                "a go is outstanding; distinct by command text sequence")
    ctx.trusted_base = ["Coq 8.16.1 kernel (coqc, vm_compute)",
                        "extraction (ExtrOcamlBasic only) + OCaml 4.13 + drivers/ctl_driver.ml",
                        "props/c05.py: script runner (event order = order of stdin writes / stdout reads), canonicaliser, "
                        "direct contract checks",
                        "hand-written model coq/Ctl/{Uci,Engine}.v tied to app/texel by trace inclusion"]
    ctx.assumptions = ["model = code is established by trace inclusion on generated scripts (every observed stdin/stdout "
                       "interleaving is a trace of the LTS), not by proof",
                       "the search is an oracle in the model: it may emit any number of info lines and finish at any step; "
                       "liveness statements assume it finishes after finitely many info lines once timeLimit(0,0) is installed",
                       "mutex/condition variable/atomic<bool> behave as specified (one critical section = one step)",
                       "outside the model: memory errors inside the search, OS scheduling latency, character-level "
                       "interleaving of output lines written by two threads"]
    ok, info = coqbuild.prove(ctx, PROP_FILE, extra_targets=["Ctl/CtlExamples.vo"], timeout=ctx.scale(1500, 3600))
    proof_broken = not ok
    ctx.log("proof stage done (ok=%s)" % ok)
    exe = cbuild.build_engine(net_kind="material", net_seed=1)
    ctx.log("engine binary built from %s" % REPO)
    ml_exe = coqbuild.extract("ExtractCtl.v", "ctl_driver.ml", "ctl_driver")
    ctx.log("checker extracted")
    # the shared build caches are purged by concurrently running checks: work on private copies
    tmp = tempfile.mkdtemp(prefix="c05-")
    try:
        exe = shutil.copy(exe, os.path.join(tmp, "texel"))
        ml_exe = shutil.copy(ml_exe, os.path.join(tmp, "ctl_driver"))
        run_checks(ctx, exe, ml_exe, proof_broken, info)
    finally:
        shutil.rmtree(tmp, ignore_errors=True)


def run_checks(ctx, exe, ml_exe, proof_broken, info):

    # --- tie of the declared option list
    rc, out, err = sh([ml_exe], input="#options\n", timeout=60)
    model_opts = out.strip().split("|")
    rc2, out2, err2 = sh([exe], input="uci\nquit\n", timeout=60)
    real_opts = [re.match(r"option name (.*?) type ", l).group(1).lower() for l in out2.split("\n") if l.startswith("option name ")]
    global UCI_LINES
    UCI_LINES = {l for l in out2.split("\n") if l.startswith(("id name ", "id author ", "option name "))}
    opts_ok = model_opts == real_opts and sorted(o[0].lower() for o in OPTIONS) == sorted(real_opts)
    ctx.count("declared_options", len(real_opts))

    # --- which variant of the ponderhit null test does the code match?  (witness of
    #     C05_no_null_engine_use_refuted replayed on the implementation)
    wres = run_script(exe, WITNESS_PONDERHIT)
    crashed = wres["rc"] < 0
    g = not crashed
    wv = check_traces(ml_exe, [trace_line(False, wres), trace_line(True, wres)])
    ctx.notes["ponderhit_guarded_variant"] = g
    ctx.notes["witness_ponderhit"] = {"script": script_text(WITNESS_PONDERHIT), "rc": wres["rc"], "model_g0": wv[0], "model_g1": wv[1]}
    ctx.log("witness [ponderhit]: rc=%s -> code matches ponderhit_guarded=%s (model g0: %s, g1: %s)" % (wres["rc"], g, wv[0].split()[0], wv[1].split()[0]))
    witness_consistent = wv[1 if g else 0].startswith("ok") and not wv[0 if g else 1].startswith("ok")
    if crashed:
        ctx.violation("`ponderhit` before the engine object exists dereferences a null pointer (uciprotocol.cpp:291): "
                      "C05_no_null_engine_use is refuted for the code as it is (Coq witness [ponderhit]); observed signal %d" % -wres["rc"],
                      {"script": script_text(WITNESS_PONDERHIT), "steps": steps_to_json(WITNESS_PONDERHIT), "rc": wres["rc"],
                       "theorem": "C05_no_null_engine_use_refuted", "fix": "hooks/fix-ponderhit-null.patch"},
                      key=KEY_PONDERHIT)

    # --- F8: ponder search keeps no depth/node limit after ponderhit (finding candidate, reported)
    f8 = run_script(exe, SCRIPT_F8)
    ev = f8["events"]
    i_ph = next((i for i, e in enumerate(ev) if e[0] == "send" and e[1] == "ponderhit"), None)
    i_st = next((i for i, e in enumerate(ev) if e[0] == "send" and e[1] == "stop"), None)
    i_bm = next((i for i, e in enumerate(ev) if e[0] == "out" and e[1] == "bestmove"), None)
    f8_unlimited = i_ph is not None and i_st is not None and i_bm is not None and i_bm > i_st
    ctx.notes["F8_go_ponder_depth_then_ponderhit"] = {
        "script": script_text(SCRIPT_F8), "bestmove_only_after_stop": f8_unlimited,
        "note": "depth limit of `go ponder depth 3` is dropped (startThread(-1,-1,-1,-1,-1)); after ponderhit the search "
                "runs until stop (2.5 s waited).  Allowed by the LTS (search oracle); finding candidate, not fixed."}
    ctx.log("F8 go ponder depth 3 + ponderhit: bestmove only after stop = %s" % f8_unlimited)

    # --- correspondence: generated scripts
    scripts = []
    corpus = os.path.join(VERIF, "corpus", "c05.txt")
    if os.path.exists(corpus):
        for ln in open(corpus):
            ln = ln.strip()
            if ln and not ln.startswith("#"):
                scripts.append(("corpus", steps_from_json(json.loads(ln))))
    scripts += gen_scripts(ctx)
    t0 = time.time()
    with ThreadPoolExecutor(max_workers=NCPU) as ex:
        results = list(ex.map(lambda s: run_script(exe, s[1]), scripts))
    ctx.log("%d scripts run in %.1fs" % (len(scripts), time.time() - t0))
    # "no exit within 12 s" on a loaded machine is re-examined once with a generous timeout
    hung = [i for i, r in enumerate(results) if r["hang"]]
    for i in hung[:8]:
        r2 = run_script(exe, scripts[i][1], exit_timeout=45.0)
        ctx.count("hang_rerun")
        if not r2["hang"]:
            ctx.count("hang_rerun_recovered")
            results[i] = r2
    verdicts = check_traces(ml_exe, [trace_line(g, r) for r in results])
    ctx.log("traces checked against the extracted LTS")

    rejected, failed, known_crash, garbled_runs = [], [], 0, []
    max_lat = 0.0
    opts_seen = set()
    for (cls, steps), res, v in zip(scripts, results, verdicts):
        ctx.evaluated()
        ctx.count("class_" + cls)
        sends = [e for e in res["events"] if e[0] == "send"]
        outs = [e for e in res["events"] if e[0] == "out"]
        ctx.count("commands_sent", len(sends))
        ctx.count("output_lines", len(outs))
        parts = v.split(" ")
        kinds = parts[-1].split(",") if parts[-1] else []
        for k in kinds:
            ctx.count("cmd_" + k)
        for s in steps:
            if s[0] == "wait":
                ctx.count("delay_wait_" + s[1])
            elif s[0] == "sleep":
                ctx.count("delay_sleep")
            elif s[0] == "send" and s[2].get("kind") == "setoption" and s[2].get("option"):
                ctx.count("setoption_valid" if s[2].get("valid") else "setoption_invalid")
                opts_seen.add((s[2]["option"], bool(s[2].get("valid"))))
        # commands sent while a go is outstanding
        n_go = n_bm = during = 0
        for e in res["events"]:
            if e[0] == "send":
                if n_go > n_bm:
                    during += 1
                if first_word(e[1]) == "go":
                    n_go += 1
            elif e[0] == "out" and e[1] == "bestmove":
                n_bm += 1
        ctx.count("commands_during_search", during)
        ctx.count("searches", n_go)
        if n_go >= 1 and during >= 1:
            ctx.nontrivial("\n".join(e[1] for e in sends))
        max_lat = max(max_lat, res["exit_latency"]) if not res["hang"] else max_lat
        fails, garbled = judge(steps, res)
        if res["rc"] < 0 and ponderhit_before_engine(res):
            known_crash += 1
            ctx.count("crash_ponderhit_before_engine")
        if fails:
            failed.append((cls, steps, res, v, fails))
        if garbled:
            # lines of two threads mixed: the run cannot be canonicalised (known finding)
            ctx.count("garbled_runs_excluded_from_trace_inclusion")
            garbled_runs.append((cls, steps, res))
        elif not v.startswith("ok"):
            rejected.append((cls, steps, res, v))
        else:
            ctx.traces_validated += 1
        ctx.sample({"class": cls, "script": script_text(steps)[:25], "rc": res["rc"], "model": parts[0],
                    "events": len(res["events"])}, limit=5)
    if garbled_runs:
        cls, steps, res = garbled_runs[0]
        bad_lines = [e[2] for e in res["events"] if e[0] == "out" and e[1] == "other"][:6]
        ctx.violation("malformed output: lines of the UCI thread and of the search thread are mixed character-wise "
                      "(std::cout written by two threads without a lock); %d of %d runs affected" % (len(garbled_runs), len(scripts)),
                      {"class": cls, "script": script_text(steps), "steps": steps_to_json(steps), "malformed_lines": bad_lines,
                       "note": "race: replay may need several attempts"}, key=KEY_GARBLE)
    ctx.notes["options_exercised"] = {"valid_value": len({o for o, v in opts_seen if v}),
                                      "invalid_value": len({o for o, v in opts_seen if not v}), "declared": len(OPTIONS)}
    ctx.notes["max_exit_latency_s"] = round(max_lat, 2)
    ctx.notes["model_variant_used"] = "ponderhit_guarded=%s" % g
    ctx.log("rejected traces: %d, contract failures: %d, known-crash scripts: %d, max exit latency %.2fs" %
            (len(rejected), len(failed), known_crash, max_lat))

    # --- thorough tier: a sample of the scripts on an ASan/UBSan build (supports the finder only)
    if not ctx.quick:
        try:
            san = ["-fsanitize=address,undefined", "-fno-omit-frame-pointer"]
            sexe = cbuild.build_engine(net_kind="material", net_seed=1, extra_flags=san, lib_flags=san)
            sexe = shutil.copy(sexe, os.path.join(os.path.dirname(exe), "texel-san"))
            sample = [sc for i, sc in enumerate(scripts) if i % 10 == 0 and sc[0] != "ponderhit-first"]
            tmpd = os.path.dirname(exe)

            def run_san(isc):
                i, sc = isc
                ef = os.path.join(tmpd, "san-%d.err" % i)
                r = run_script(sexe, sc[1], exit_timeout=60.0, stderr_to=ef)
                txt = open(ef, "rb").read().decode("latin-1")
                os.remove(ef)
                return sc, r, txt
            with ThreadPoolExecutor(max_workers=max(2, NCPU // 2)) as ex:
                sres = list(ex.map(run_san, enumerate(sample)))
            n_rep = 0
            for sc, r, txt in sres:
                ctx.count("sanitizer_runs")
                if "runtime error" in txt or "AddressSanitizer" in txt:
                    n_rep += 1
                    if n_rep <= 2:
                        ctx.violation("sanitizer report while running a UCI script on the ASan/UBSan build",
                                      {"script": script_text(sc[1]), "steps": steps_to_json(sc[1]), "stderr": txt[-3000:]},
                                      key="sanitizer:" + (re.findall(r"([\w./]+:\d+):\d+: runtime error", txt) or
                                                          re.findall(r"ERROR: AddressSanitizer: ([\w-]+)", txt) or ["?"])[0])
            ctx.log("sanitizer build: %d scripts, %d with reports" % (len(sres), n_rep))
        except cbuild.BuildError as ex:
            ctx.notes["sanitizer_build"] = "failed: %s" % str(ex)[:300]

    if not opts_ok:
        ctx.violation("declared option list of the model differs from the binary's `uci` output",
                      {"model": model_opts, "binary": real_opts}, no_failing_input=True)
    if not witness_consistent:
        ctx.violation("witness [ponderhit]: neither/both model variants explain the observed behaviour",
                      ctx.notes["witness_ponderhit"], no_failing_input=True)

    # --- (5) finder = the direct contract checks on the real binary (implementation vs the
    #     property itself); scripts that failed are re-run and shrunk
    reported = 0
    for cls, steps, res, v, fails in failed[:2]:
        what0 = fails[0]
        ctx.log("contract failure (%s): %s" % (cls, "; ".join(fails[:3])))

        def pred(r, vv, f, what0=what0):
            return any(x.split(" (")[0][:25] == what0.split(" (")[0][:25] for x in f)
        hang = res["hang"]
        small = shrink(exe, ml_exe, g, steps, pred, budget=ctx.scale(20 if hang else 30, 120), attempts=1 if hang else 2,
                       exit_timeout=5.0 if hang else 8.0)
        r2, v2, f2 = evaluate(exe, ml_exe, g, small)
        reproduced = pred(r2, v2, f2)
        ctx.violation("UCI contract broken on the real engine: %s" % "; ".join(fails[:3]),
                      {"class": cls, "script": script_text(small if reproduced else steps),
                       "steps": steps_to_json(small if reproduced else steps),
                       "original_script": script_text(steps), "failures": fails, "rc": res["rc"], "model_verdict": v,
                       "events": [list(e) for e in (r2 if reproduced else res)["events"]][:400]},
                      key="script:" + ";".join(x for x in script_text(small if reproduced else steps)))
        reported += 1
    failed_ids = {id(f[1]) for f in failed}
    for cls, steps, res, v in rejected[:2]:
        if id(steps) in failed_ids:
            continue
        idx = int(v.split()[1])
        ctx.log("trace rejected by the LTS (%s) at event %d" % (cls, idx))
        small = shrink(exe, ml_exe, g, steps, lambda r, vv, f: not vv.startswith("ok"), budget=ctx.scale(30, 120))
        r2, v2, f2 = evaluate(exe, ml_exe, g, small)
        use = small if not v2.startswith("ok") else steps
        rr = r2 if not v2.startswith("ok") else res
        vv = v2 if not v2.startswith("ok") else v
        fields = trace_line(g, rr).split(SEP)[1:]
        ctx.violation("observed stdin/stdout trace is not a trace of the LTS (event %s impossible in the model)" % vv.split()[1],
                      {"class": cls, "script": script_text(use), "steps": steps_to_json(use), "verdict": vv,
                       "trace": fields[:600], "impossible_event": fields[int(vv.split()[1])] if int(vv.split()[1]) < len(fields) else None,
                       "contract_failures": f2},
                      no_failing_input=True)
        reported += 1
    if proof_broken:
        ctx.violation("theorem(s) in %s no longer check" % PROP_FILE, {"broken_proof": info,
                      "contract_failures_found": len(failed)}, no_failing_input=not failed)


def replay(ctx, body):
    r = body.get("replay", {})
    steps = steps_from_json(r.get("steps") or steps_to_json(WITNESS_PONDERHIT))
    tmp = tempfile.mkdtemp(prefix="c05-")
    exe = shutil.copy(cbuild.build_engine(net_kind="material", net_seed=1), os.path.join(tmp, "texel"))
    ml_exe = shutil.copy(coqbuild.extract("ExtractCtl.v", "ctl_driver.ml", "ctl_driver"), os.path.join(tmp, "ctl_driver"))
    global UCI_LINES
    UCI_LINES = {l for l in sh([exe], input="uci\nquit\n", timeout=60)[1].split("\n") if l.startswith(("id name ", "id author ", "option name "))}
    res = run_script(exe, steps)
    print("script:")
    for l in script_text(steps):
        print("   ", l)
    print("exit status:", res["rc"], "hang:", res["hang"])
    for gg in (False, True):
        print("model ponderhit_guarded=%s:" % gg, check_traces(ml_exe, [trace_line(gg, res)])[0])
    print("contract failures / garbled:", contract_check(steps, res))
    for e in res["events"][:200]:
        print("   ", e)
    shutil.rmtree(tmp, ignore_errors=True)
