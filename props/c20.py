"""C20 — the rank-constraint solver decides satisfiability exactly (DESIGN.md section 6, C20)."""
import itertools
import os

from vlib import cbuild, coqbuild
from vlib.common import VERIF, sh

PROP_FILE = "Properties_C20.v"
PREFS = ["SMALL", "LARGE", "MIDDLE_SMALL", "MIDDLE_LARGE"]


# ---------- generators (all randomness from ctx.rng) ----------
def gen_random_system(rng, risky=False):
    ops = []
    nv = rng.randint(1, 10) if rng.random() < 0.85 else rng.randint(1, 3)
    # wide domains only with few variables: parity conflicts are invisible to the bounds
    # propagation and make the real solver enumerate width^nv nodes
    width = rng.choice([63, 63, 20]) if nv <= 3 else rng.choice([12, 8]) if nv <= 5 else rng.choice([6, 5, 3])
    for v in range(nv):
        if rng.random() < 0.12:
            lo, hi = rng.choice([(-16, -10), (-16, -16), (47, 47), (-16, -12), (42, 47), (1, 6), (0, 7)])
            if nv <= 3 and rng.random() < 0.5:
                lo, hi = -16, 47
        else:
            lo = rng.randint(-16, 47)
            hi = min(47, lo + rng.randint(0, width))
            if rng.random() < 0.03:
                hi = max(-16, lo - rng.randint(1, 2))      # empty range
        ops.append("V %d %d %d" % (rng.randint(0, 3), lo, hi))
    rest = []
    for v in range(nv):
        r = rng.random()
        if r < 0.15:
            rest.append("E %d" % v)
        elif r < 0.30:
            rest.append("O %d" % v)
        if rng.random() < 0.02:      # both parities: empty domain
            rest.append("E %d" % v)
            rest.append("O %d" % v)
        if rng.random() < 0.15:
            rest.append("m %d %d" % (v, rng.randint(-30, 47)))
        if rng.random() < 0.15:
            rest.append("M %d %d" % (v, rng.randint(-17, 60)))
    nc = rng.choice([0, 1, 1, 2, 2, 3, 4, 5, 8, 12, 18, 25])
    lows = [int(o.split()[2]) for o in ops]
    for _ in range(nc):
        v1 = rng.randrange(nv)
        v2 = rng.randrange(nv) if rng.random() < 0.93 else v1
        k = rng.choice("LLGGQ")
        if rng.random() < 0.7:
            # offset near the distance of the two ranges, so that the constraint bites
            c = lows[v1] - lows[v2] + rng.randint(-3, 6) * (1 if k == "L" else -1 if k == "G" else 0) + (rng.randint(0, 3) if k == "Q" else 0)
        else:
            c = rng.choice([0, 1, -1, 2, -2, 20, -20, 63, -63, 70, -70])
        rest.append("%s %d %d %d" % (k, v1, v2, c))
    rng.shuffle(rest)
    return ops + rest


def gen_structured_system(rng):
    """Systems shaped like extproofkernel.cpp: rank variables 1..6 (or 2..7), pawn-move chains
    v[i] <= v[i+1] - 1, capture equalities, parity flags."""
    ops = []
    nv = rng.randint(2, 10)
    for v in range(nv):
        lo, hi = rng.choice([(1, 6), (2, 7), (0, 7), (1, 7)])
        ops.append("V %d %d %d" % (rng.choice([0, 1, 2, 3]), lo, hi))
    for v in range(nv - 1):
        r = rng.random()
        if r < 0.5:
            ops.append("L %d %d %d" % (v, v + 1, -rng.choice([0, 1, 1, 2])))
        elif r < 0.7:
            ops.append("Q %d %d %d" % (v, v + 1, rng.choice([0, 1, -1])))
        elif r < 0.8:
            ops.append("G %d %d %d" % (v, rng.randrange(nv), rng.choice([0, 1, 2])))
    for v in range(nv):
        r = rng.random()
        if r < 0.2:
            ops.append("E %d" % v)
        elif r < 0.4:
            ops.append("O %d" % v)
        if rng.random() < 0.2:
            ops.append("m %d %d" % (v, rng.randint(1, 7)))
        if rng.random() < 0.2:
            ops.append("M %d %d" % (v, rng.randint(0, 6)))
    return ops


def gen_risky_system(rng):
    """Malformed stream: systems outside the supported limits (C++ assert fires)."""
    ops = gen_random_system(rng)
    k = rng.randrange(3)
    nv = sum(1 for o in ops if o.startswith("V"))
    if k == 0:
        ops.insert(rng.randint(0, nv), "V 0 %d %d" % rng.choice([(-17, 3), (0, 48), (48, 50), (-20, -18)]))
    elif k == 1:
        ops.append("L %d %d 0" % (nv + rng.randint(0, 2), 0))
    else:
        for i in range(200):
            ops.append("L 0 %d %d" % (rng.randrange(nv), rng.randint(20, 60)))
    return ops


def to_stream(systems):
    out = []
    for risky, ops in systems:
        out.append("SYS !" if risky else "SYS")
        out.extend(ops)
        out.append("SOLVE")
    return "\n".join(out) + "\n"


# ---------- specification side (independent of model and code) ----------
def spec_system(ops):
    """Meaning of an op list: per-variable value sets and constraints (v1,v2,c): a[v1] <= a[v2]+c."""
    vars_, cons = [], []
    for o in ops:
        t = o.split()
        k = t[0]
        a = [int(x) for x in t[1:]]
        if k == "V":
            vars_.append(set(range(a[1], a[2] + 1)))
        elif k == "E":
            vars_[a[0]] = {x for x in vars_[a[0]] if x % 2 == 0}
        elif k == "O":
            vars_[a[0]] = {x for x in vars_[a[0]] if x % 2 != 0}
        elif k == "m":
            vars_[a[0]] = {x for x in vars_[a[0]] if x >= a[1]}
        elif k == "M":
            vars_[a[0]] = {x for x in vars_[a[0]] if x <= a[1]}
        elif k == "L":
            cons.append((a[0], a[1], a[2]))
        elif k == "G":
            cons.append((a[1], a[0], -a[2]))
        elif k == "Q":
            cons.append((a[0], a[1], a[2]))
            cons.append((a[1], a[0], -a[2]))
    return vars_, cons


def spec_check_assignment(ops, vals):
    vars_, cons = spec_system(ops)
    if len(vals) != len(vars_):
        return False
    if any(v not in d for v, d in zip(vals, vars_)):
        return False
    return all(vals[a] <= vals[b] + c for a, b, c in cons)


def spec_solvable(ops, limit=2_000_000):
    """Exhaustive enumeration of the Spec (None if the product space is above `limit`)."""
    vars_, cons = spec_system(ops)
    size = 1
    for d in vars_:
        size *= max(1, len(d))
        if size > limit:
            return None
    if any(len(d) == 0 for d in vars_):
        return False
    n = len(vars_)
    doms = [sorted(d) for d in vars_]
    bycons = [[] for _ in range(n)]
    for a, b, c in cons:
        bycons[max(a, b)].append((a, b, c))
    vals = [0] * n

    def rec(i):
        if i == n:
            return True
        for x in doms[i]:
            vals[i] = x
            if all(vals[a] <= vals[b] + c for a, b, c in bycons[i]) and rec(i + 1):
                return True
        return False
    # NB: this is plain exhaustive backtracking with no propagation; pruning only skips
    # assignments already violating a constraint among assigned variables.
    return rec(0)


def classify(ops, res):
    nv = sum(1 for o in ops if o.startswith("V"))
    nc = sum(1 for o in ops if o[0] in "LGQ")
    return nv, nc


NODE_CAP = 20000   # the extracted model runs ~100x slower than the C++: systems needing more
                   # search nodes than this are compared against the Spec only (counted)


def run_pair(ctx, cpp_exe, ml_exe, systems):
    """Run the implementation on all systems, the extracted model on those within NODE_CAP.
    Returns per-system lines; the model line is None where the system was skipped."""
    stream = to_stream(systems)
    rc1, out1, err1 = sh([cpp_exe], input=stream, timeout=3600)
    l1 = out1.strip("\n").split("\n") if out1.strip() else []
    if rc1 != 0 or len(l1) != len(systems):
        return rc1, 0, l1, [], err1, ""
    small = []
    for i, l in enumerate(l1):
        t = l.split()
        if t[0] == "ERR" or int(t[1]) <= NODE_CAP:
            small.append(i)
    rc2, out2, err2 = sh([ml_exe], input=to_stream([systems[i] for i in small]), timeout=3600)
    m = out2.strip("\n").split("\n") if out2.strip() else []
    l2 = [None] * len(systems)
    if len(m) == len(small):
        for i, l in zip(small, m):
            l2[i] = l
    else:
        rc2 = rc2 or 99
    return rc1, rc2, l1, l2, err1, err2


def shrink(ctx, cpp_exe, ml_exe, ops, risky):
    """Delta-debug an op list on which model and implementation disagree."""
    def bad(o):
        rc1, rc2, l1, l2, _, _ = run_pair(ctx, cpp_exe, ml_exe, [(risky, o)])
        return rc1 != 0 or rc2 != 0 or any(b is not None and a != b for a, b in zip(l1, l2))
    cur = list(ops)
    changed = True
    while changed and len(cur) > 1:
        changed = False
        for i in range(len(cur) - 1, -1, -1):
            if cur[i].startswith("V"):
                continue
            cand = cur[:i] + cur[i + 1:]
            if bad(cand):
                cur = cand
                changed = True
    return cur


def finder(ctx, cpp_exe, systems_first, budget_systems):
    """Stage (5): implementation vs the Spec (exhaustive enumeration) — never vs the model."""
    rng = ctx.rng
    found = None
    cand = list(systems_first)
    for _ in range(budget_systems):
        ops = gen_structured_system(rng) if rng.random() < 0.4 else gen_random_system(rng)
        cand.append(ops)
    batch = [(False, o) for o in cand]
    rc, out, err = sh([cpp_exe], input=to_stream(batch), timeout=1800)
    lines = out.strip("\n").split("\n") if out.strip() else []
    checked = 0
    for ops, line in zip(cand, lines):
        t = line.split()
        if not t or t[0] == "ERR":
            continue
        said = t[0] == "1"
        vals = [int(x) for x in t[2:]]
        if said and not spec_check_assignment(ops, vals):
            found = dict(ops=ops, cpp=line, expected="returned assignment violates the system")
            break
        truth = spec_solvable(ops, limit=300_000)
        if truth is None:
            continue
        checked += 1
        if truth != said:
            found = dict(ops=ops, cpp=line, expected="solvable=%s by exhaustive enumeration" % truth)
            break
    ctx.count("finder_systems_vs_spec", checked)
    return found


def run(ctx):
    ctx.rule = ("random systems (1..10 variables, ranges in [-16,47], parity, min/max tightenings, 0..25 "
                "difference constraints incl. cycles/self-constraints/empty domains) + structured systems "
                "shaped like extproofkernel.cpp + a malformed stream outside the supported limits; "
                "non-trivial = has >=1 constraint and >=2 variables; distinct by op list")
    ctx.trusted_base = ["Coq 8.16.1 kernel (coqc, vm_compute)", "extraction (ExtrOcamlBasic only) + OCaml 4.13 + drivers/csp_driver.ml",
                        "harness/csp_harness.cpp", "hand-written model coq/Csp/{BitSet,Csp}.v tied by correspondence"]
    ctx.assumptions = ["model = code is established by differential testing (result, node count and returned values equal), not by proof"]
    # (2) prove
    ok, info = coqbuild.prove(ctx, PROP_FILE, timeout=ctx.scale(900, 1800))
    proof_broken = not ok
    # (3) build harness + extracted model
    cpp_exe = cbuild.build_harness("csp_harness")
    ml_exe = coqbuild.extract("ExtractCsp.v", "csp_driver.ml", "csp_driver")
    # (4) correspond
    rng = ctx.rng
    n_rand = ctx.scale(30000, 1500000)
    n_struct = ctx.scale(4000, 200000)
    n_risky = ctx.scale(150, 2000)
    systems = []
    corpus = os.path.join(VERIF, "corpus", "c20.txt")
    if os.path.exists(corpus):
        for blk in open(corpus).read().split("\n\n"):
            ops = [l for l in blk.strip().split("\n") if l and not l.startswith("#")]
            if ops:
                systems.append((True, ops))
    systems += [(False, gen_random_system(rng)) for _ in range(n_rand)]
    systems += [(False, gen_structured_system(rng)) for _ in range(n_struct)]
    systems += [(True, gen_risky_system(rng)) for _ in range(n_risky)]
    disagreements = []
    CH = 1000
    chunks = [systems[i:i + CH] for i in range(0, len(systems), CH)]
    from concurrent.futures import ThreadPoolExecutor
    from vlib.common import NCPU
    with ThreadPoolExecutor(max_workers=NCPU) as ex:
        results = list(ex.map(lambda ch: run_pair(ctx, cpp_exe, ml_exe, ch), chunks))
    for chunk, (rc1, rc2, l1, l2, e1, e2) in zip(chunks, results):
        if rc1 != 0 or rc2 != 0 or len(l1) != len(chunk):
            # locate the crashing system one by one
            for risky, ops in chunk:
                r1, r2, a, b, _, _ = run_pair(ctx, cpp_exe, ml_exe, [(risky, ops)])
                if r1 != 0 or r2 != 0 or (b and b[0] is not None and a != b):
                    disagreements.append((risky, ops, a, b, "rc=%d/%d" % (r1, r2)))
                    break
            continue
        for (risky, ops), a, b in zip(chunk, l1, l2):
            ctx.evaluated()
            nv, nc = classify(ops, a)
            t = a.split()
            ctx.count("result_" + ("err" if t[0] == "ERR" else "sat" if t[0] == "1" else "unsat"))
            if t[0] != "ERR":
                ctx.count("nodes_total", int(t[1]))
                if int(t[1]) == 0:
                    ctx.count("decided_by_arc_consistency_alone")
            if nv >= 2 and nc >= 1:
                ctx.nontrivial(" ".join(ops))
            if b is None:
                ctx.count("model_skipped_over_node_cap")
                if t[0] == "1" and not spec_check_assignment(ops, [int(x) for x in t[2:]]):
                    disagreements.append((risky, ops, a, "spec: assignment invalid", ""))
            elif a != b:
                disagreements.append((risky, ops, a, b, ""))
        ctx.sample({"ops": chunk[0][1], "cpp": l1[0], "model": l2[0]})
    ctx.notes["distribution"] = {"random": n_rand, "structured": n_struct, "malformed": n_risky}
    ctx.traces_validated = ctx.evaluations

    corr_broken = bool(disagreements)
    if not proof_broken and not corr_broken:
        return
    # (5) find
    first = []
    replay = {"broken_proof": info if proof_broken else None, "disagreement": None}
    if corr_broken:
        risky, ops, a, b, note = disagreements[0]
        small = shrink(ctx, cpp_exe, ml_exe, ops, risky)
        replay["disagreement"] = {"ops": small, "original_ops": ops, "cpp": a, "model": b, "note": note,
                                  "count": len(disagreements)}
        first = [small, ops] + [d[1] for d in disagreements[1:50]]
    found = finder(ctx, cpp_exe, first, ctx.scale(40000, 1000000))
    if found:
        replay["failing_input"] = found
        ctx.violation("solver answer contradicts the specification: %s" % found["expected"], replay,
                      key="ops:" + ";".join(found["ops"]))
    else:
        what = ("theorem(s) in %s no longer check" % PROP_FILE) if proof_broken else "correspondence model/implementation broken"
        replay["broken"] = what
        ctx.violation(what, replay, no_failing_input=True)


def replay(ctx, body):
    r = body.get("replay", {})
    ops = (r.get("failing_input") or r.get("disagreement") or {}).get("ops")
    cpp_exe = cbuild.build_harness("csp_harness")
    rc, out, err = sh([cpp_exe], input=to_stream([(True, ops)]))
    print("ops:", ops)
    print("implementation:", out.strip())
    print("spec solvable:", spec_solvable(ops))
