"""C14 — Clear Hash makes the next search identical to a fresh start (DESIGN.md section 6, C14).

Stages
  prove        coq/Properties_C14.v (model coq/Persist/*.v)
  correspond   S1: synthetic op sequences on the real TranspositionTable / History / KillerTable /
                   eval cache / Clear-Hash listener / ucinewgame / Hash option (inside a real
                   EngineControl) vs the extracted model: complete state dumps must be equal
               S2: in-process UCI sessions with REAL searches vs the model's Search step: the frame
                   (generation, sizes, resident TB, notUsedCnt, clearHistory, contempt hash, seed,
                   options) must be equal and whatever the model says is empty must be empty
               variant: a DETECT op decides which Variant (clear resets generation / Clear Hash
                   empties eval cache / eval key has contempt) the code matches -> which theorem
                   (C14_clear_equiv_fresh or the _refuted ones) speaks about this tree
  end-to-end   pairs of engine processes (prior session + Clear Hash + probe  vs  fresh + probe):
               this is the tie for the frame assumption AND the finder (implementation vs the
               specification "identical to a fresh start", never vs the model)
"""
import json
import os
import time
from concurrent.futures import ThreadPoolExecutor

from vlib import cbuild, coqbuild
from vlib.common import NCPU, VERIF, sh
from props import c14_sessions as S

PROP_FILE = "Properties_C14.v"
KEY_F5 = "prior-searches=15mod16"
KEY_F3 = "prior-search-under-other-contempt"
APP_SRCS = ("app/texel/enginecontrol.cpp", "app/texel/uciprotocol.cpp")

TB_FENS = {  # positions suitable for on-demand TB generation (3 men, generated in well under 0.4 s)
    "8/8/8/4k3/8/8/3QK3/8 w - - 0 1": 101,
    "8/8/3k4/8/8/8/3RK3/8 b - - 0 1": 102,
    "8/8/3k4/8/8/8/4KR2/8 w - - 0 1": 102,
    "8/8/8/4k3/8/8/3QK3/8 b - - 0 1": 101,
}


# =============================================================================================
# S1: synthetic op sequences
def gen_s1(rng, tb=False):
    ops = ["RESET"]
    if tb:
        ops.append("UCI setoption name Hash value %d" % rng.choice([8, 16]))
    elif rng.random() < 0.5:
        ops.append("UCI setoption name Hash value 1")
    else:
        ops.append("UCI setoption name Hash value 1")
        ops.append("RESIZE %d" % rng.choice([512, 512, 1024, 2048, 4096, 513, 1027]))
    his = [rng.getrandbits(16) for _ in range(rng.choice([1, 2, 3]))]
    los = [rng.getrandbits(48) for _ in range(rng.choice([2, 3, 5]))] + [0]
    keys = [((rng.choice(his) << 48) | rng.choice(los)) for _ in range(rng.randint(3, 9))]
    if rng.random() < 0.3:
        keys.append(0)
    if rng.random() < 0.5:   # first and last bucket of the table, whatever its size
        keys += [(1 << 64) - 1, (0xFFFF << 48) | rng.getrandbits(48) | 0xFFFFFFFC, rng.getrandbits(2), (rng.getrandbits(40) << 2) & ~0xFFFFFFFC]
    if rng.random() < 0.5:   # keys that differ only above the bucket: same bucket for every table size used here
        k0 = rng.choice(keys)
        keys += [k0 ^ (rng.getrandbits(20) << 20) for _ in range(4)]
    n = rng.randint(15, 70)
    dumps = 0
    for _ in range(n):
        r = rng.random()
        if tb and r < 0.52:
            r = 0.52 + rng.random() * 0.48      # no inserts/probes next to tablebase bytes (left behind when the TB is dropped)
        if r < 0.36:
            score = rng.choice([rng.randint(-300, 300), rng.randint(-300, 300), 31990 - rng.randint(0, 20), -31990 + rng.randint(0, 20),
                                32000, -32000, 16000, 16001, -16001])
            depth = rng.choice([0, 0, 1, 2, 3, 5, 8, 12, -1, -3, 40, 511, 512, 600])
            ops.append("INS %d %d %d %d %d %d %d %d" % (
                rng.choice(keys), rng.choice([0, rng.getrandbits(16), rng.getrandbits(12), 65 * rng.randrange(64)]), score,
                rng.choice([1, 2, 3, 1, 2, 3, 0]), rng.randint(0, 30), depth,
                rng.choice([rng.randint(-500, 500), -32767, 0]), 1 if rng.random() < 0.1 else 0))
        elif r < 0.52:
            ops.append("PRB %d" % rng.choice(keys + [rng.getrandbits(64)]))
        elif r < 0.60:
            ops.extend(["NEXTGEN"] * rng.choice([1, 1, 1, 2, 13, 14, 15, 16]))
        elif r < 0.64:
            ops.append("WC %d" % rng.choice([0, 0, 25, -40, 2000, -2000, 1]))
        elif r < 0.70:
            ops.append("UCI setoption name Clear Hash")
        elif r < 0.72:
            ops.append("UCI ucinewgame")
        elif r < 0.74:
            ops.append("TTCLEAR")
        elif r < 0.77 and not tb:
            ops.append("UCI setoption name Hash value %d" % rng.choice([1, 1, 2]))
        elif r < 0.80:
            name, (dflt, alts) = rng.choice([(n_, S.OPTIONS[n_]) for n_ in
                                             ("Contempt", "UCI_AnalyseMode", "AnalyzeContempt", "AnalysisAgeHash", "AutoContempt",
                                              "Strength", "UCI_LimitStrength", "MultiPV", "UseNullMove")])
            ops.append("UCI setoption name %s value %s" % (name, rng.choice(alts + [dflt])))
        elif r < 0.88:
            ops.append("%s %d %d %d" % (rng.choice(["HS", "HS", "HF"]), rng.randint(1, 12), rng.choice([0, 7, 20, 20, 63, rng.randrange(64)]),
                                        rng.choice([-1, 0, 1, 2, 3, 4, 5, 6, 30])))
        elif r < 0.90:
            ops.append(rng.choice(["HRESCALE", "HRESCALE", "HINIT"]))
        elif r < 0.95:
            ops.append("KA %d %d" % (rng.choice([0, 1, 2, 3, 50, 199, 200, 250]), rng.choice([77, 78, 1032, rng.getrandbits(16)])))
        elif r < 0.96:
            ops.append("KCLEAR")
        else:
            ops.append("EV %d %d" % (rng.randrange(65536), rng.getrandbits(64)))
        if tb and rng.random() < 0.25:
            fen = rng.choice(list(TB_FENS) + ["rnbqkbnr/pppppppp/8/8/8/8/PPPPPPPP/RNBQKBNR w KQkq - 0 1"] * 4)
            if fen in TB_FENS and rng.random() < 0.15:
                ops.append("TTCLEAR")                                      # no tablebase resident before
                ops.append("UPDTBA %d | %s" % (TB_FENS[fen], fen))       # generation aborted as soon as it has started
                ops.append("DUMPF")
                ops.append(rng.choice(["UCI setoption name Clear Hash", "TTCLEAR", "UCI ucinewgame"]))   # probing a partial table is F4
            else:
                ops.append("UPDTB %d %d | %s" % (rng.choice([-1, -1, 100, 2999, 3000, 10000]), TB_FENS.get(fen, -1), fen))
            ops.append("DUMPF")
        elif not tb and rng.random() < 0.08:
            ops.append("DUMP")
            dumps += 1
    ops.append("DUMPF" if tb else "DUMP")
    return ops


# S2: in-process sessions with real searches
def gen_s2(rng, positions):
    ops = ["RESET", "UCI setoption name Hash value %d" % rng.choice([1, 1, 2, 16]), "DUMPF"]
    hash_big = ops[1].endswith("16")       # follows the Hash option: on-demand tablebases need a table of >= 7 MB
    for _ in range(rng.randint(4, 14)):
        r = rng.random()
        if r < 0.55:
            tbk = -1
            if hash_big and rng.random() < 0.35:
                fen = rng.choice(list(TB_FENS))
                tbk = TB_FENS[fen]
            else:
                fen = rng.choice(positions)[0] if rng.random() < 0.9 else "rnbqkbnr/pppppppp/8/8/8/8/PPPPPPPP/RNBQKBNR w KQkq - 0 1"
            white = 1 if fen.split()[1] == "w" else 0
            kind = rng.choice(["depth", "depth", "nodes", "nodes", "infinite", "movetime", "depthnodes", "mate", "searchmoves"])
            posarg = "fen " + fen
            if kind == "depth":
                go, mode, wait, lim, inf, maxt = "depth %d" % rng.randint(1, 3), "wait", 0, 1, 0, -1
            elif kind == "nodes":
                go, mode, wait, lim, inf, maxt = "nodes %d" % rng.choice([1, 50, 300, 1500]), "wait", 0, 1, 0, -1
            elif kind == "depthnodes":
                go, mode, wait, lim, inf, maxt = "depth %d nodes %d" % (rng.randint(1, 4), rng.choice([20, 400, 2000])), "wait", 0, 1, 0, -1
            elif kind == "mate":
                go, mode, wait, lim, inf, maxt = "mate %d" % rng.randint(1, 2), "wait", 0, 1, 0, -1
            elif kind == "searchmoves":
                # the last move of the game that led to a random position is legal in its predecessor
                g = rng.choice([p for p in positions if len(p[1].split()) >= 2])
                mv = g[1].split()
                posarg, white, tbk = "startpos moves " + " ".join(mv[:-1]), 1 if (len(mv) - 1) % 2 == 0 else 0, -1
                go, mode, wait, lim, inf, maxt = "searchmoves %s depth 2" % mv[-1], "wait", 0, 1, 0, -1
            elif kind == "infinite":
                # with a tablebase root the stop waits (up to 120 s) for the generation to finish instead of a fixed time
                go, mode, wait, lim, inf, maxt = ("infinite", "tbstop", 60, 0, 1, -1) if tbk >= 0 else ("infinite", "stop", rng.randint(5, 40), 0, 1, -1)
            else:
                t = rng.choice([5, 20, 40])
                go, mode, wait, lim, inf, maxt = "movetime %d" % t, "wait", 0, 0, 0, t
            ops.append("GO %s %d %d %d %d %d %d | position %s | go %s" % (mode, wait, white, lim, inf, tbk, maxt, posarg, go))
        elif r < 0.70:
            ops.append("UCI setoption name Clear Hash")
        elif r < 0.76:
            ops.append("UCI ucinewgame")
        elif r < 0.82:
            h = rng.choice([1, 2, 16, 16])
            hash_big = h == 16
            ops.append("UCI setoption name Hash value %d" % h)
        else:
            name = rng.choice(["Contempt", "UCI_AnalyseMode", "AnalyzeContempt", "AnalysisAgeHash", "AutoContempt", "MultiPV", "UseNullMove"])
            dflt, alts = S.OPTIONS[name]
            ops.append("UCI setoption name %s value %s" % (name, rng.choice(alts + [dflt])))
        ops.append("DUMPF")
    return ops


def _split(line):
    """(frame, empties or None, content or None) of a DUMP/DUMPF output line."""
    if " | T" in line:
        i = line.index(" | T")
        return line[:i], None, line[i:]
    if " empty=" in line:
        i = line.index(" empty=")
        return line[:i], line[i + 7:].strip(), None
    return line, None, None


def lines_agree(h, d):
    if h == d:
        return True
    fh, eh, ch = _split(h)
    fd, ed, cd = _split(d)
    if fh != fd or ch != cd:
        return False
    if (eh is None) != (ed is None):
        return False
    if eh is not None:
        # one-sided: whatever the model says is empty must be empty in the real engine
        return len(eh) == len(ed) and all(not (m == "1" and r != "1") for r, m in zip(eh, ed))
    return True


class HarnessFailure(Exception):
    pass


def _run_ops_once(har, drv, variant, seqs, timeout):
    stream = "\n".join("\n".join(s) for s in seqs) + "\n"
    rc1, o1, e1 = sh([har, "ops"], input=stream, timeout=timeout)
    rc2, o2, e2 = sh([drv] + [str(x) for x in variant], input=stream, timeout=timeout)
    l1 = [l for l in o1.split("\n") if l and not l.startswith("info ")]
    l2 = [l for l in o2.split("\n") if l]
    counts = [sum(1 for op in s if op in ("DUMP", "DUMPF") or op.startswith("PRB ")) for s in seqs]
    if rc1 != 0 or rc2 != 0 or len(l1) != sum(counts) or len(l2) != sum(counts):
        who = "harness" if (rc1 != 0 or len(l1) != sum(counts)) else "model driver"
        return None, {"who": who, "harness_rc": rc1, "harness_lines": len(l1), "driver_rc": rc2, "driver_lines": len(l2),
                      "expected_lines": sum(counts), "harness_stderr": e1[-1500:], "driver_stderr": e2[-1500:]}, l1, l2
    bad = []
    pos = 0
    for si, c in enumerate(counts):
        for j in range(c):
            if not lines_agree(l1[pos + j], l2[pos + j]):
                bad.append((si, j, l1[pos + j], l2[pos + j]))
                break
        pos += c
    return bad, None, l1, l2


def run_ops(har, drv, variant, seqs, timeout=600, stats=None):
    """Run op sequences (list of op lists) through harness and driver.  Returns
    (disagreements, l1, l2); disagreements = list of (seq index, output line index, harness line,
    model line), each CONFIRMED by running that sequence alone again (a difference that does
    not show again is counted in stats["unreproducible"], not reported).  A crash / timeout /
    missing output of either program is located by running the sequences one by one and
    returned as (seq index, -1, "CRASH ...", details)."""
    stats = stats if stats is not None else {}
    bad, fail, l1, l2 = _run_ops_once(har, drv, variant, seqs, timeout)
    if fail is not None:
        if len(seqs) == 1:
            return [(0, -1, "CRASH of the %s (rc=%s, %s of %s output lines)" % (fail["who"], fail["harness_rc"] if fail["who"] == "harness" else fail["driver_rc"],
                                                                               fail["harness_lines"] if fail["who"] == "harness" else fail["driver_lines"], fail["expected_lines"]), fail)], l1, l2
        out = []
        for si, sq in enumerate(seqs):
            b, f, _, _ = _run_ops_once(har, drv, variant, [sq], min(timeout, 300))
            if f is not None:
                # once more: a crash that does not repeat is still a crash of the batch run, keep its stderr
                b2, f2, _, _ = _run_ops_once(har, drv, variant, [sq], min(timeout, 300))
                f["repeats_alone"] = f2 is not None
                out.append((si, -1, "CRASH of the %s" % f["who"], f))
            elif b:
                out.append((si,) + b[0][1:])
        if not out:
            stats["unreproducible_batch_failures"] = stats.get("unreproducible_batch_failures", 0) + 1
            stats.setdefault("unreproducible_details", []).append(fail)
        return out, l1, l2
    confirmed = []
    for (si, j, a, b) in bad:
        if len(seqs) == 1:
            confirmed.append((si, j, a, b))
            continue
        again = 0
        for _ in range(2):
            b1, f1, _, _ = _run_ops_once(har, drv, variant, [seqs[si]], min(timeout, 300))
            if f1 is not None or b1:
                again += 1
        if again:
            confirmed.append((si, j, a, b))
        else:
            stats["unreproducible"] = stats.get("unreproducible", 0) + 1
            stats.setdefault("unreproducible_details", []).append({"ops": seqs[si], "harness": a, "model": b})
    return confirmed, l1, l2


def shrink_ops(har, drv, variant, ops):
    def bad(o):
        b, _, _ = run_ops(har, drv, variant, [o], timeout=120)
        return bool(b)
    cur = list(ops)
    if not cur or cur[-1] not in ("DUMP", "DUMPF"):
        cur.append("DUMP")
    changed = True
    rounds = 0
    while changed and rounds < 6:
        changed = False
        rounds += 1
        i = len(cur) - 2
        while i >= 2:
            cand = cur[:i] + cur[i + 1:]
            if bad(cand):
                cur = cand
                changed = True
            i -= 1
    return cur


# =============================================================================================
# end-to-end pairs
def run_pair(exe, a, b, with_b2=False, search_timeout=300):
    pa = S.run_session(exe, a, search_timeout)
    pb = S.run_session(exe, b, search_timeout)
    pb2 = S.run_session(exe, b[:-2], search_timeout) if with_b2 else None
    return pa, pb, pb2


def classes_of(tr, variant):
    g_fix, e_fix, k_fix = variant[:3]
    c = set()
    if tr["probe_generation"] == 0 and not g_fix:
        c.add(KEY_F5)
    if tr["stale_contempts"]:
        c.add(KEY_F3)
    return c


def neutralise_generation(a, base_opts):
    """The same session with the table resized away and back right before every Clear Hash of
    the tail: leaves everything as it is except that the generation counter restarts at 0."""
    h = base_opts.get("Hash", "16")
    alt = "2" if h != "2" else "4"
    out = []
    n = len(a)
    for i, st in enumerate(a):
        if st["k"] == "clear" and i >= n - 4:
            # a search between the two setoptions: pending options of the same name coalesce
            # in EngineMainThread::pendingOptions until the engine thread has applied them
            out.append({"k": "opt", "name": "Hash", "value": alt})
            out.append({"k": "go", "pos": "startpos", "go": "nodes 1", "mode": "wait", "wait": 0})
            out.append({"k": "opt", "name": "Hash", "value": h})
        out.append(st)
    return out


def minimise_prior(exe, base_opts, prior, probe_pos, probe_go, expect, budget_runs=40):
    """Delta debugging over the prior session: smallest sublist of steps (options are reverted
    automatically by `assemble`) for which the probe after Clear Hash still differs from the
    fresh-process output `expect`."""
    runs = [0]

    def bad(pr):
        if runs[0] >= budget_runs:
            return False
        runs[0] += 1
        a, _ = S.assemble(base_opts, pr, probe_pos, probe_go)
        try:
            out = S.run_session(exe, a[:-2])      # only the first probe
        except S.EngineError:
            return False
        return out[0] != expect
    cur = list(prior)
    n = 2
    while len(cur) >= 2 and runs[0] < budget_runs:
        chunk = max(1, len(cur) // n)
        subsets = [cur[i:i + chunk] for i in range(0, len(cur), chunk)]
        reduced = False
        for i in range(len(subsets)):
            comp = [x for j, sub in enumerate(subsets) if j != i for x in sub]
            if comp and bad(comp):
                cur = comp
                n = max(n - 1, 2)
                reduced = True
                break
        if not reduced:
            if chunk == 1:
                break
            n = min(len(cur), n * 2)
    return cur, runs[0]


def make_jobs(ctx, positions, variant, directed=None):
    rng = ctx.rng
    quick = ctx.quick
    budget = {"depth": 4, "nodes": 3000, "ms": 30} if quick else {"depth": 5, "nodes": 8000, "ms": 60}
    # depth-limited probes carry a node cap as well: with a random net a depth-7 tree is sometimes 100x the usual size
    probe_gos = (["depth 6 nodes 60000", "depth 7 nodes 60000", "depth 7 nodes 60000", "nodes 8000", "nodes 20000", "nodes 40000"] if quick else
                 ["depth 6 nodes 2000000", "depth 7 nodes 2000000", "depth 8 nodes 2000000", "depth 9 nodes 2000000", "depth 10 nodes 2000000",
                  "depth 11 nodes 2000000", "nodes 30000", "nodes 100000", "nodes 300000"])
    plan = []

    def add(k, flavour, base, want=None, tries=30):
        """want: None (anything) | "clean" (no known-finding class for either probe)"""
        for _ in range(tries):
            pp = rng.choice(positions)
            prior = S.gen_prior(rng, positions, pp, k, base, flavour, budget)
            pgo = rng.choice(probe_gos)
            if any(st["k"] == "go" and st["pos"] in S.TB_POSITIONS for st in prior) and rng.random() < 0.5:
                pp = (S.TB_POSITIONS[0][4:], "")
                pgo = "depth 6"
            a, b = S.assemble(base, prior, S.pos_cmd(pp), pgo)
            trs = S.track(a, variant)
            cl = [classes_of(t, variant) for t in trs]
            if want == "clean" and (cl[0] or cl[1]):
                k = k + 2 if k + 2 <= 40 else max(0, k - 13)      # moves both probes away from generation 0
                continue
            plan.append({"base": base, "prior": prior, "pp": S.pos_cmd(pp), "pgo": pgo, "a": a, "b": b, "tr": trs,
                         "classes": cl, "flavour": flavour, "k": k})
            return
    def add_tb():
        """a prior session that leaves an on-demand tablebase resident (go infinite on a KQK root),
        probe on another KQK position: a depth-limited search never generates a tablebase itself,
        so any tablebase knowledge in its output comes from before Clear Hash"""
        base = {"Hash": rng.choice(["8", "16"])}
        pp = ("8/8/8/3k4/8/8/4Q3/4K3 %s - - 0 1" % rng.choice("wb"), "")
        prior = S.gen_prior(rng, positions, pp, rng.randint(0, 3), base, "plain", budget)
        prior.append({"k": "go", "pos": S.TB_POSITIONS[0], "go": "infinite", "mode": "stop_after_info", "wait": 0})
        prior += S.gen_prior(rng, positions, pp, rng.randint(0, 2), base, "plain", {"depth": 3, "nodes": 500, "ms": 10})
        # limited searches only after the tablebase: unlimited ones on other roots would drop it after 5
        prior = [st for st in prior if st["k"] != "go" or st["pos"] == S.TB_POSITIONS[0] or "depth" in st["go"] or "nodes" in st["go"]
                 or prior.index(st) < len(prior) - 3]
        a, b = S.assemble(base, prior, S.pos_cmd(pp), "depth 6")
        trs = S.track(a, variant)
        plan.append({"base": base, "prior": prior, "pp": S.pos_cmd(pp), "pgo": "depth 6", "a": a, "b": b, "tr": trs,
                     "classes": [classes_of(t, variant) for t in trs], "flavour": "tablebase", "k": len(prior)})
    pressure = []
    ppath = os.path.join(VERIF, "corpus", "c14_pressure_probes.txt")
    if os.path.exists(ppath):
        for l in open(ppath):
            l = l.strip()
            if l and not l.startswith("#"):
                fen, go = l.split("|")
                pressure.append((fen.strip(), go.strip()))

    def add_tb_pressure(hash_mb, scale=1, probe_go=None, extra_prior=None):
        """tablebase resident before Clear Hash, then a probe whose output is known to depend on the
        size of the table (corpus/c14_pressure_probes.txt): everything updateTB() changed in the table
        geometry (usedSize and the index parameters derived from it) must be back, otherwise buckets
        collide differently"""
        base = {"Hash": hash_mb}
        if pressure:
            fen, go = rng.choice(pressure)
            pp = (fen, "")
            if probe_go is None:
                probe_go = "nodes %d" % (int(go.split()[1]) * scale)
        else:
            busy = [p for p in positions if sum(c.isalpha() for c in p[0].split()[0]) >= 26] or positions
            pp = rng.choice(busy)
            probe_go = probe_go or "nodes 600000"
        small = {"depth": 3, "nodes": 500, "ms": 10}
        prior = S.gen_prior(rng, positions, pp, rng.randint(0, 2), base, "plain", small)
        if extra_prior is not None:
            prior += extra_prior
        else:
            prior.append({"k": "go", "pos": rng.choice(S.TB_POSITIONS[:2]), "go": "infinite", "mode": "stop_after_info", "wait": 0})
        lim = [st for st in S.gen_prior(rng, positions, pp, rng.randint(0, 2), base, "plain", small)
               if "depth" in st["go"] or "nodes" in st["go"]]
        prior += lim
        a, b = S.assemble(base, prior, S.pos_cmd(pp), probe_go)
        trs = S.track(a, variant)
        plan.append({"base": base, "prior": prior, "pp": S.pos_cmd(pp), "pgo": probe_go, "a": a, "b": b, "tr": trs,
                     "classes": [classes_of(t, variant) for t in trs], "flavour": "tablebase-pressure", "k": len(prior)})
    depth_probes = []
    dpath = os.path.join(VERIF, "corpus", "c14_depth_probes.txt")
    if os.path.exists(dpath):
        for l in open(dpath):
            l = l.strip()
            if l and not l.startswith("#"):
                fen, go = l.split("|")
                depth_probes.append((fen.strip(), go.strip()))

    def add_cross(flavour, k, probe_kind):
        """the limit kind of the probe differs from the limit kinds of the prior searches: a limit member of
        EngineControl that one kind of go sets and another kind fails to reset shows here.  Depth-only
        probes (no node cap!) come from corpus/c14_depth_probes.txt, where they are known to be fast."""
        base = H()
        if probe_kind == "depth" and depth_probes:
            fen, pgo = rng.choice(depth_probes)
            pp = (fen, "")
        else:
            pp = rng.choice(positions)
            pgo = "nodes %d" % rng.choice([8000, 20000, 40000])
        prior = S.gen_prior(rng, positions, pp, k, base, flavour, budget)
        a, b = S.assemble(base, prior, S.pos_cmd(pp), pgo)
        trs = S.track(a, variant)
        plan.append({"base": base, "prior": prior, "pp": S.pos_cmd(pp), "pgo": pgo, "a": a, "b": b, "tr": trs,
                     "classes": [classes_of(t, variant) for t in trs], "flavour": "cross-" + flavour, "k": k})
    H = lambda: {"Hash": rng.choice(["1", "1", "2", "4", "16"])}
    if directed is not None:
        # finder stage after a broken correspondence: sessions derived from the shrunk op sequence
        for hash_mb, scale, pgo in (("8", 3, None), ("8", 1, "depth 10 nodes 600000"), (directed["hash"], 5, None)):
            add_tb_pressure(hash_mb if int(hash_mb) >= 8 or not directed["tb"] else "8", scale, pgo, extra_prior=list(directed["prior"]))
        return plan
    if quick:
        for k in (15, 31, 15):                      # F5 class: probe runs with generation 0
            add(k, "plain", H())
        for k in (16, 32, 0, 14):                   # generation 1 again / no prior / second probe in F5 class
            add(k, "plain", H())
        for _ in range(7):
            add(rng.randint(1, 40), rng.choice(["plain", "options0", "options0", "related"]), H(), want="clean")
        for fl in ("contempt", "related", "contempt", "related", "contempt"):     # F3 class
            base = H()
            if fl == "related" or rng.random() < 0.4:
                base["Contempt"] = rng.choice(["25", "-40", "60"])
            add(rng.randint(1, 12), fl, base)
        for _ in range(4):
            base = H()
            if rng.random() < 0.3:
                base["MultiPV"] = rng.choice(["2", "3"])
            if rng.random() < 0.2:
                base["UseNullMove"] = "false"
            add(rng.randint(1, 40), "options", base)
        add(rng.randint(2, 6), "options0", {"Hash": "16"}, want="clean")
        add_tb()
        add_tb_pressure("8")
        add_tb_pressure("8")
        add_cross("nodes-prior", rng.randint(1, 6), "depth")
        add_cross("nodes-prior", rng.randint(1, 12), "depth")
        add_cross("time-prior", rng.randint(1, 8), "depth")
        add_cross("depth-prior", rng.randint(1, 8), "nodes")
        add_cross("plain", rng.randint(2, 12), "depth")
    else:
        n = 500
        for i in range(n):
            res = i % 16
            k = res + 16 * rng.randint(0, 2)
            if k > 40:
                k -= 16
            fl = rng.choice(["plain", "plain", "options0", "options", "contempt", "related"])
            base = H()
            if rng.random() < 0.3:
                base["Contempt"] = rng.choice(["25", "-40", "60"])
            if rng.random() < 0.15:
                base["MultiPV"] = rng.choice(["2", "3"])
            if rng.random() < 0.1:
                base["UseNullMove"] = "false"
            if rng.random() < 0.05:
                base["Strength"] = rng.choice(["300", "800"])
                fl = "plain"
            add(max(k, 0), fl, base, want=("clean" if i % 3 == 0 and "Contempt" not in base else None))
            if i % 5 == 0:
                add_cross(rng.choice(["nodes-prior", "nodes-prior", "time-prior", "depth-prior", "plain", "options0"]), rng.randint(1, 20),
                          rng.choice(["depth", "depth", "nodes"]))
            if i % 25 == 0:
                add_tb()
                add_tb_pressure(rng.choice(["8", "8", "16"]), rng.choice([1, 3, 6]))
    return plan


def witness_jobs(variant, positions):
    """The histories of the Coq refutation witnesses (C14_clear_equiv_fresh_refuted: fifteen
    searches; ..._refuted_evalcache: a search under a Contempt value that is reverted) turned
    into UCI sessions with probes known to be sensitive."""
    jobs = []
    g_fix, e_fix, k_fix = variant[:3]
    corpus = os.path.join(VERIF, "corpus", "c14_probes.txt")
    probes = []
    if os.path.exists(corpus):
        for l in open(corpus):
            l = l.strip()
            if l and not l.startswith("#"):
                fen, go = l.split("|")
                probes.append((fen.strip(), go.strip()))
    if not g_fix:
        for fen, go in probes[:3]:
            prior = [{"k": "go", "pos": "startpos", "go": "depth 1", "mode": "wait", "wait": 0} for _ in range(15)]
            jobs.append(("F5", {"Hash": "1"}, prior, "fen " + fen, go))
    if not (e_fix or k_fix):
        for fen, go in probes[:2]:
            white = fen.split()[1] == "w"
            # the same position with the contempt sign the probe will not use
            prior = [{"k": "opt", "name": "Contempt", "value": "60"},
                     {"k": "go", "pos": "fen " + fen, "go": "depth 5", "mode": "wait", "wait": 0}]
            jobs.append(("F3", {"Hash": "1"}, prior, "fen " + fen, go))
    return jobs


def derive_directed(ops, rng, positions):
    """Turn a (shrunk) op sequence on which model and implementation disagree into the prior part of
    a UCI session that drives the real engine through the same operations: option changes, Clear
    Hash / ucinewgame, real searches, and for updateTB ops a search that makes the engine call
    updateTB the same way (go infinite on the tablebase root, stopped only after the tablebase is
    there).  Low-level table writes become one ordinary search."""
    hash_mb, tb, prior, generic = "16", False, [], False
    for op in ops:
        t = op.split()
        if op.startswith("UCI setoption name Clear Hash"):
            prior.append({"k": "clear"})
        elif op.startswith("UCI ucinewgame"):
            prior.append({"k": "newgame"})
        elif op.startswith("UCI setoption name ") and " value " in op:
            name = op[len("UCI setoption name "):op.index(" value ")]
            val = op[op.index(" value ") + 7:]
            if name == "Hash":
                hash_mb = val
            elif name in S.OPTIONS:
                prior.append({"k": "opt", "name": name, "value": val})
        elif t[0] in ("UPDTB", "UPDTBA"):
            fen = op[op.index("|") + 1:].strip()
            tb = True
            if t[0] == "UPDTBA":
                prior.append({"k": "go", "pos": "fen " + fen, "go": "infinite", "mode": "stop", "wait": 1})
            elif int(t[2]) >= 0 and (int(t[1]) < 0 or int(t[1]) >= 3000):
                prior.append({"k": "go", "pos": "fen " + fen, "go": "infinite", "mode": "stop_after_info", "wait": 0})
            else:
                prior.append({"k": "go", "pos": "fen " + fen, "go": "movetime %d" % max(1, min(int(t[1]), 50) if int(t[1]) >= 0 else 5), "mode": "wait", "wait": 0})
        elif t[0] == "GO":
            a = op.index("|")
            b = op.index("|", a + 1)
            pos = op[a + 1:b].strip()[len("position "):]
            go = op[b + 1:].strip()[len("go "):]
            mode = {"tbstop": "stop_after_info", "stop": "stop"}.get(t[1], "wait")
            tb = tb or t[1] == "tbstop"
            prior.append({"k": "go", "pos": pos, "go": go, "mode": mode, "wait": int(t[2]) if mode == "stop" else 0})
        elif t[0] == "NEXTGEN":
            prior.append({"k": "go", "pos": "startpos", "go": "depth 1", "mode": "wait", "wait": 0})
        elif t[0] in ("INS", "PRB", "HS", "HF", "KA", "EV") and not generic:
            generic = True
            prior.append({"k": "go", "pos": S.pos_cmd(rng.choice(positions)), "go": "depth 4", "mode": "wait", "wait": 0})
    # the session itself ends with Clear Hash: drop trailing clears of the op sequence
    while prior and prior[-1]["k"] == "clear":
        prior.pop()
    return {"hash": hash_mb, "tb": tb, "prior": prior, "ops": ops}


def end_to_end(ctx, exe, positions, variant, directed=None):
    """Returns list of findings: dicts(kind='unexpected'|KEY, replay=...)."""
    plan = make_jobs(ctx, positions, variant, directed=directed)
    findings = []
    t0 = time.time()

    def one(job_i):
        i, job = job_i
        try:
            pa, pb, pb2 = run_pair(exe, job["a"], job["b"], with_b2=(i % 4 == 0), search_timeout=ctx.scale(300, 1200))
            if job["flavour"] == "tablebase-pressure" and job["base"].get("Hash") == "8":
                # is the probe (still) sensitive to the table size?  fresh engine with 196608 entries
                b3 = [dict(st, value="3") if st["k"] == "opt" and st["name"] == "Hash" else st for st in job["b"][:-2]]
                job["size_sensitive"] = S.first_diff(S.run_session(exe, b3, ctx.scale(300, 1200))[0], pb[0]) is not None
        except S.EngineError as ex:
            return i, "error", str(ex)
        return i, "ok", (pa, pb, pb2)
    order = sorted(enumerate(plan), key=lambda ij: -len(ij[1]["prior"]))      # longest sessions first
    with ThreadPoolExecutor(max_workers=NCPU) as ex:
        results = sorted(ex.map(one, order), key=lambda r: r[0])
    ctx.log("end-to-end: %d session pairs in %.1fs" % (len(plan), time.time() - t0))
    unexpected = []
    for (i, status, res) in results:
        job = plan[i]
        if status == "error":
            ctx.count("pair_session_errors")
            ctx.notes.setdefault("session_errors", []).append(res[:200])
            continue
        pa, pb, pb2 = res
        ctx.evaluated()
        ctx.count("pairs_flavour_" + job["flavour"])
        if "size_sensitive" in job:
            ctx.count("pressure_probe_sensitive_to_table_size" if job["size_sensitive"] else "pressure_probe_NOT_sensitive_to_table_size")
        ctx.count("pairs_prior_searches_mod16_%d" % (job["tr"][0]["n_prior"] % 16))
        ctx.count("probe_generation_%d" % job["tr"][0]["probe_generation"])
        nsteps = len(job["prior"])
        if nsteps >= 1:
            ctx.nontrivial(json.dumps(job["a"], sort_keys=True))
        if len(ctx.samples) < 4:
            ctx.sample({"prior_steps": S.dumps(job["prior"])[:6], "n_prior_steps": nsteps, "probe": job["pp"] + " | go " + job["pgo"],
                        "fresh_output_tail": pb[0][-3:], "after_clear_hash_tail": pa[0][-3:]})
        comparisons = [("A1", pa[0], job["classes"][0], job["tr"][0]), ("A2", pa[1], job["classes"][1], job["tr"][1]),
                       ("B2", pb[1], classes_of(S.track(job["b"], variant)[1], variant), S.track(job["b"], variant)[1])]
        if pb2 is not None:
            comparisons.append(("B1'", pb2[0], set(), None))
        for name, out, cls, tr in comparisons:
            ctx.count("comparisons")
            d = S.first_diff(out, pb[0])
            if d is None:
                ctx.count("comparisons_identical")
                if cls:
                    ctx.count("identical_although_in_class_" + "+".join(sorted(cls)))
                continue
            ctx.count("comparisons_different")
            rec = {"which": name, "first_diff": d, "classes": sorted(cls), "track": tr, "job": i}
            if not cls:
                unexpected.append(rec)
            else:
                findings.append(rec)
    # ---- attribute differences inside a known-finding class; make sure nothing else hides there
    reported = []
    seen_keys = set()
    for rec in findings:
        job = plan[rec["job"]]
        cls = rec["classes"]
        key = cls[0] if len(cls) == 1 else None
        if KEY_F5 in cls and len([r for r in reported if r["key"] == KEY_F5 and r.get("neutralised")]) < 3:
            # neutralise the generation (resize away and back before Clear Hash): must agree then
            try:
                na = neutralise_generation(job["a"], job["base"])
                pn = S.run_session(exe, na, ctx.scale(300, 1200))
                fresh = S.run_session(exe, job["b"][:-2], ctx.scale(300, 1200))[0]
                idx = 0 if rec["which"] == "A1" else 1
                still = rec["which"] in ("A1", "A2") and S.first_diff(pn[idx], fresh) is not None
            except S.EngineError:
                still = False
            rec["neutralised"] = True
            if still and KEY_F3 not in cls:
                rec["classes"] = []
                rec["note"] = "difference persists with the generation counter neutralised"
                unexpected.append(rec)
                continue
            key = KEY_F5 if not still else KEY_F3
        if key is None:
            key = KEY_F3 if KEY_F3 in cls else cls[0]
        rec["key"] = key
        reported.append(rec)
        ctx.count("differences_attributed_" + key)
    return plan, reported, unexpected


def report_unexpected(ctx, exe, plan, unexpected, variant, derived_from=None):
    for rec in unexpected[:3]:
        job = plan[rec["job"]]
        replay = {"first_difference": rec["first_diff"], "which_probe": rec["which"], "note": rec.get("note"),
                  "session_after_clear_hash": S.dumps(job["a"]), "fresh_session": S.dumps(job["b"]), "track": rec.get("track"),
                  "variant": variant}
        if derived_from is not None:
            replay["derived_from_correspondence_disagreement"] = derived_from
        key = "session:" + str(abs(hash(json.dumps(job["a"], sort_keys=True))) % 10**10)
        if rec["which"] in ("A1", "A2"):
            try:
                fresh = S.run_session(exe, job["b"][:-2])[0]
                small, nruns = minimise_prior(exe, job["base"], job["prior"], job["pp"], job["pgo"], fresh, budget_runs=ctx.scale(40, 150))
                replay["minimised_prior"] = S.dumps(small)
                replay["minimisation_runs"] = nruns
                a2, b2 = S.assemble(job["base"], small, job["pp"], job["pgo"])
                replay["minimised_session"] = S.dumps(a2[:-2])
                key = "prior:" + ";".join("%s" % (st["k"] if st["k"] != "opt" else "opt-" + st["name"]) for st in small)[:200]
            except S.EngineError:
                pass
        ctx.violation("output of the probe search after Clear Hash (%s) differs from a fresh engine for a reason other than the known findings"
                      % rec["which"], replay, key=key)


# =============================================================================================
def run(ctx):
    ctx.rule = ("end-to-end: pairs of engine processes (random synthetic net, Threads=1): prior session of 0..40 searches of all "
                "limit kinds (depth, nodes, movetime, clocks, mate, infinite+stop, ponder+ponderhit/stop, on-demand-TB roots) on "
                "random-game positions or on predecessors of the probe position, interleaved with ucinewgame, Clear Hash and option "
                "changes that are reverted (Hash, Contempt, MultiPV, UseNullMove, Strength, UCI_AnalyseMode, AnalysisAgeHash, Threads, ...), "
                "then Clear Hash + probe (go depth 6..11 / go nodes N) twice, vs fresh process + same probe (+ Clear Hash + probe; + second "
                "fresh process); the complete canonicalised output must be identical; every quick run contains prior-search counts "
                "15, 31 (generation 0), 16, 32, 0, 14. correspondence: random op sequences (bucket collisions forced, generation wrap, "
                "mate scores, depth limits) and in-process sessions with real searches. non-trivial = has at least one prior step; "
                "distinct by full session text / op list")
    ctx.trusted_base = ["Coq 8.16.1 kernel (coqc, vm_compute)", "extraction (ExtrOcamlBasic only) + OCaml 4.13 + drivers/persist_driver.ml",
                        "harness/persist_harness.cpp (reads private members via #define private public)",
                        "props/c14_sessions.py (UCI driver, canonicaliser: drops time/nps/hashfull/currmove)",
                        "hand-written model coq/Persist/{PTable,Persist}.v tied by correspondence",
                        "synthetic evaluation networks (vlib/cbuild.make_net)"]
    ctx.assumptions = ["FRAME: a search changes the persistent state only by Persist.search_prologue followed by table/cache writes, and its "
                       "writes and output depend only on the command, the clock input and Persist.relevant (Section variables oracle/output); "
                       "exercised by the in-process sessions (frame fields) and by the two-process runs, not proved",
                       "depth/node-limited single-thread searches do not depend on the wall clock (clock_independent)",
                       "no Zobrist/eval-cache key collisions between positions (cache entries computed under the same contempt are transparent)",
                       "allocation of the transposition table succeeds (setupTT's bad_alloc halving is not modelled)",
                       "probe at full strength (Strength=1000, no UCI_LimitStrength): otherwise ucinewgame reseeds randomSeed from the clock by design"]
    t0 = time.time()
    # (2) prove
    ok, info = coqbuild.prove(ctx, PROP_FILE, timeout=ctx.scale(900, 1800))
    proof_broken = not ok
    ctx.log("prove: %s (%.1fs)" % ("ok" if ok else "BROKEN", time.time() - t0))
    # (3) build
    net = cbuild.make_net("material", 1)
    har = cbuild.build_harness("persist_harness", with_util=False, netfile=net, extra_srcs=APP_SRCS)
    drv = coqbuild.extract("ExtractPersist.v", "persist_driver.ml", "persist_driver")
    exe = cbuild.build_engine(net_kind="random", net_seed=1)
    ctx.log("build done (%.1fs)" % (time.time() - t0))
    rng = ctx.rng
    # (4a) which variant of the model is this tree?
    rc, out, err = sh([har, "ops"], input="DETECT\n", timeout=120)
    vline = [l for l in out.split("\n") if l.startswith("V ")]
    if rc != 0 or not vline:
        raise RuntimeError("DETECT failed: rc=%d %s" % (rc, err[-500:]))
    variant = tuple(max(0, int(x)) for x in vline[0].split()[1:6])
    fixed = bool(variant[0] and (variant[1] or variant[2]) and variant[4])
    ctx.notes["variant"] = {"clear_resets_generation": variant[0], "clear_clears_evalcache": variant[1],
                            "evalkey_has_contempt": variant[2], "tbabort_drops_tb": variant[3], "go_resets_limits": variant[4], "detect_line": vline[0],
                            "theorem_that_applies": "C14_clear_equiv_fresh" if fixed else
                            "C14_clear_diff_characterised + C14_clear_equiv_fresh_refuted" + ("" if variant[0] else " (generation)") +
                            ("" if (variant[1] or variant[2]) else " (+ _refuted_evalcache)") + ("" if variant[4] else " (+ _refuted_limits)")}
    ctx.log("variant of the code: %s -> %s" % (variant, "FIXED" if fixed else "not fixed"))
    rc, out, err = sh([har, "f5"], timeout=120)
    f5 = [l.split()[-1] for l in out.strip().split("\n")]
    ctx.notes["api_level_f5"] = {"generation_0": f5[0] if f5 else None, "generations_1_15": sorted(set(f5[1:]))}
    api_f5_as_model = len(f5) == 16 and f5[0] == "first-entry-overwritten" and set(f5[1:]) == {"first-entry-survives"}
    # (4b) S1
    rc, out, _ = sh([har, "genpos", str(ctx.seed), "300"], timeout=120)
    positions = [tuple(l.split("|")) for l in out.strip().split("\n") if "|" in l]
    # random-game positions with at most 4 men and no pawns are roots for on-demand tablebase generation
    # (4-man generation takes seconds): tablebase roots are only the curated ones (TB_FENS, S.TB_POSITIONS)
    def tb_root(fen):
        men = [c for c in fen.split()[0] if c.isalpha()]
        return len(men) <= 4 and not any(c in "pP" for c in men)
    positions = [p for p in positions if not tb_root(p[0])]
    corpus_ops = []
    cpath = os.path.join(VERIF, "corpus", "c14.txt")
    if os.path.exists(cpath):
        for blk in open(cpath).read().split("\n\n"):
            ops = [l for l in blk.strip().split("\n") if l and not l.startswith("#")]
            if ops:
                corpus_ops.append(ops)
    n_s1 = ctx.scale(1600, 40000)
    n_s1_tb = ctx.scale(40, 600)
    n_s2 = ctx.scale(48, 1200)
    s1 = corpus_ops + [gen_s1(rng) for _ in range(n_s1)] + [gen_s1(rng, tb=True) for _ in range(n_s1_tb)]
    s2 = [gen_s2(rng, positions) for _ in range(n_s2)]
    disagreements = []

    def chunked(seqs, n):
        size = max(1, (len(seqs) + n - 1) // n)
        return [seqs[i:i + size] for i in range(0, len(seqs), size)]
    t1 = time.time()
    chunks = chunked(s1, NCPU) + chunked(s2, NCPU)
    ops_stats = {}
    with ThreadPoolExecutor(max_workers=NCPU) as ex:
        res = list(ex.map(lambda ch: run_ops(har, drv, variant, ch, timeout=ctx.scale(600, 3600), stats=ops_stats), chunks))
    crashes = []
    for ch, (bad, l1, l2) in zip(chunks, res):
        for (si, j, a, b) in bad:
            if j == -1:
                crashes.append((ch[si], a, b))
            else:
                disagreements.append((ch[si], j, a, b))
    ctx.notes["correspondence_unreproducible"] = {k: v for k, v in ops_stats.items()}
    if ops_stats:
        ctx.log("correspondence: differences that did not show again when the sequence was run alone: %s" %
                {k: v for k, v in ops_stats.items() if not k.endswith("details")})
    for seqs, tag in ((s1, "s1"), (s2, "s2")):
        for ops in seqs:
            ctx.evaluated()
            ctx.count("opseq_" + tag)
            ctx.count("ops_" + tag, len(ops))
            ctx.nontrivial("\n".join(ops))
            for op in ops:
                k = op.split()[0]
                if k == "UCI":
                    k = "UCI_" + ("clearhash" if "Clear Hash" in op else "newgame" if "ucinewgame" in op else "setoption")
                ctx.count("op_" + k)
    ctx.traces_validated = len(s2)
    ctx.sample({"s1_ops": s1[len(corpus_ops)][:12], "s2_ops": s2[0][:6]})
    ctx.log("correspondence: %d synthetic + %d in-process op sequences, %d disagreements (%.1fs)" %
            (len(s1), len(s2), len(disagreements), time.time() - t1))
    for ops, what_c, det in crashes[:3]:
        ctx.log("HARNESS/DRIVER FAILURE: %s\n  ops: %s\n  stderr: %s" % (what_c, ops[:40], (det.get("harness_stderr") or det.get("driver_stderr") or "")[-600:]))
    corr_broken = bool(disagreements) or bool(crashes) or not api_f5_as_model
    # (5) end-to-end pairs = tie for the frame assumption + finder
    plan, reported, unexpected = end_to_end(ctx, exe, positions, variant)
    # replay the Coq witnesses on the implementation (is the finding still real?)
    wit = witness_jobs(variant, positions)
    wit_hits = {}

    def wit_one(w):
        kind, base, prior, ppos, pgo = w
        a, b = S.assemble(base, prior, ppos, pgo)
        try:
            pa = S.run_session(exe, a[:-2], ctx.scale(300, 1200))
            pb = S.run_session(exe, b[:-2], ctx.scale(300, 1200))
        except S.EngineError as ex:
            return kind, None, str(ex)
        return kind, S.first_diff(pa[0], pb[0]), {"session": S.dumps(a[:-2]), "fresh": S.dumps(b[:-2])}
    with ThreadPoolExecutor(max_workers=NCPU) as ex:
        for kind, d, rep in ex.map(wit_one, wit):
            ctx.count("witness_replays_" + kind)
            if d:
                ctx.count("witness_reproduced_" + kind)
                wit_hits.setdefault(kind, {"first_diff": d, "replay": rep})
    ctx.notes["coq_witness_replayed"] = {k: v["first_diff"] for k, v in wit_hits.items()}
    # known-finding classes: each reported once, with a concrete replay
    by_key = {}
    for rec in reported:
        by_key.setdefault(rec["key"], rec)
    for kind, key in (("F5", KEY_F5), ("F3", KEY_F3)):
        if kind in wit_hits and key not in by_key:
            by_key[key] = {"which": "coq-witness", "first_diff": wit_hits[kind]["first_diff"], "witness": wit_hits[kind]["replay"], "job": None}
    what = {KEY_F5: "Clear Hash keeps the transposition-table generation: after 15 (mod 16) prior searches the probe search runs with "
                    "generation 0, empty slots look current, and its info lines / node counts differ from a fresh start "
                    "(TranspositionTable::clear(), finding F5; theorem C14_clear_equiv_fresh_refuted)",
            KEY_F3: "Clear Hash keeps the evaluation cache: scores cached by a prior search under another contempt (Contempt changed and "
                    "reverted, or Contempt!=0 and the other side to move at the root) are reused, the probe differs from a fresh start "
                    "(EngineControl Clear Hash listener / Evaluate::evalPos key, finding F3; theorem C14_clear_equiv_fresh_refuted_evalcache)"}
    for key, rec in by_key.items():
        job = plan[rec["job"]] if rec.get("job") is not None else None
        replay = {"finding": key, "first_difference": rec["first_diff"], "which_probe": rec["which"]}
        if job is not None:
            replay["session_after_clear_hash"] = S.dumps(job["a"])
            replay["fresh_session"] = S.dumps(job["b"])
            replay["track"] = rec.get("track")
            if ctx.kf.match(ctx.prop, key) is None or not ctx.quick:
                # unlisted (or thorough run): minimise the prior session for the report
                try:
                    fresh = S.run_session(exe, job["b"][:-2])[0]
                    small, nruns = minimise_prior(exe, job["base"], job["prior"], job["pp"], job["pgo"], fresh, budget_runs=ctx.scale(30, 120))
                    replay["minimised_prior"] = S.dumps(small)
                    replay["minimisation_runs"] = nruns
                except S.EngineError:
                    pass
        else:
            replay["coq_witness_session"] = rec["witness"]
        ctx.violation(what.get(key, key), replay, key=key)
    # differences outside every known-finding class: the property fails for another reason
    report_unexpected(ctx, exe, plan, unexpected, variant)
    ctx.notes["unexpected_differences"] = len(unexpected)
    if unexpected:
        return
    # a fixed tree must show no difference at all (checked above: classes are empty then);
    # broken proof / correspondence without a failing end-to-end input
    if proof_broken or corr_broken:
        replay = {"broken_proof": info if proof_broken else None, "variant": variant}
        if disagreements:
            ops, j, a, b = disagreements[0]
            small = shrink_ops(har, drv, variant, ops)
            bad, l1, l2 = run_ops(har, drv, variant, [small], timeout=120)
            replay["disagreement"] = {"ops": small, "original_len": len(ops), "harness": [x[2] for x in bad][:1], "model": [x[3] for x in bad][:1],
                                      "count": len(disagreements)}
            # directed finder: drive the real engine through the operations of the shrunk sequence, then
            # Clear Hash and probes large enough to put the table under replacement pressure
            directed = derive_directed(small, rng, positions)
            ctx.log("directed finder: session derived from the shrunk op sequence (%d prior steps, tablebase=%s, Hash=%s)" %
                    (len(directed["prior"]), directed["tb"], directed["hash"]))
            plan2, reported2, unexpected2 = end_to_end(ctx, exe, positions, variant, directed=directed)
            ctx.count("directed_sessions", len(plan2))
            if unexpected2:
                report_unexpected(ctx, exe, plan2, unexpected2, variant, derived_from=replay["disagreement"])
                ctx.notes["unexpected_differences"] = len(unexpected2)
                return
        if crashes:
            replay["crash"] = [{"ops": o, "what": w, "details": d} for o, w, d in crashes[:3]]
        if not api_f5_as_model:
            replay["api_level_f5"] = f5
        what_b = ("theorem(s) in %s no longer check" % PROP_FILE) if proof_broken else \
                 ("the correspondence harness or the model driver CRASHED / timed out on an op sequence (see replay.crash: stderr, exit status)"
                  if crashes and not disagreements else
                  "correspondence between the real tables / Clear Hash listener and the model is broken")
        ctx.violation(what_b + "; the end-to-end finder found no session on which Clear Hash differs from a fresh start beyond the known findings",
                      replay, no_failing_input=True)


def replay(ctx, body):
    r = body.get("replay", {})
    exe = cbuild.build_engine(net_kind="random", net_seed=1)
    if r.get("disagreement"):
        net = cbuild.make_net("material", 1)
        har = cbuild.build_harness("persist_harness", with_util=False, netfile=net, extra_srcs=APP_SRCS)
        drv = coqbuild.extract("ExtractPersist.v", "persist_driver.ml", "persist_driver")
        ops = r["disagreement"]["ops"]
        bad, l1, l2 = run_ops(har, drv, tuple(r.get("variant", (0, 0, 0, 0, 1))), [ops])
        print("ops:", ops)
        print("harness:", l1)
        print("model:  ", l2)
        return
    a = r.get("minimised_session") or r.get("session_after_clear_hash") or (r.get("coq_witness_session") or {}).get("session")
    b = r.get("fresh_session") or (r.get("coq_witness_session") or {}).get("fresh")
    if not a or not b:
        print("nothing to replay")
        return
    a = [json.loads(x) for x in a]
    b = [json.loads(x) for x in b]
    pa = S.run_session(exe, a)
    pb = S.run_session(exe, b)
    print("after Clear Hash:")
    print("\n".join(pa[0]))
    print("fresh engine:")
    print("\n".join(pb[0]))
    print("first difference:", S.first_diff(pa[0], pb[0]))
