"""C10 — search control always terminates with exactly one result (DESIGN.md section 6, C10).

prove   : coq/Properties_C10.v (invariants of the LTS coq/Workers/Workers.v for every N / tree / schedule)
tie     : the real engine (Threads 1..8, seeded schedule perturbation of hook H5) is driven through
          command scripts; every recorded synchronisation-event trace is replayed by the extracted
          checker (coq/Workers/Checker.v + drivers/workers_driver.ml): each event must be an enabled
          transition and the abstract state it reports must agree with the model;
outcome : independently of the hook: exactly one bestmove per go, process exits after quit, no hang.
On a tree WITHOUT hook H5 only the outcome contract runs (the evidence says so)."""
import json
import os
import queue
import shutil
import subprocess
import tempfile
import threading
import time
from concurrent.futures import ThreadPoolExecutor

from vlib import cbuild, coqbuild
from vlib.common import NCPU, REPO, VERIF, sh

PROP_FILE = "Properties_C10.v"

FENS = [
    "startpos",
    "fen r1bqkbnr/pppp1ppp/2n5/4p3/4P3/5N2/PPPP1PPP/RNBQKB1R w KQkq - 2 3",
    "fen 8/8/8/4k3/8/8/4P3/4K3 w - - 0 1",
    "fen 6k1/5ppp/8/8/8/8/5PPP/R5K1 w - - 0 1",            # mate in 1: helpers reach MAX_SEARCH_DEPTH quickly
    "fen 7k/5Q2/6K1/8/8/8/8/8 w - - 0 1",                   # many mates
    "fen k7/8/1K6/8/8/8/8/7R w - - 0 1",
    "fen 8/8/8/8/8/5k2/6q1/7K w - - 0 1",                   # one legal move
    "fen r3k2r/p1ppqpb1/bn2pnp1/3PN3/1p2P3/2N2Q1p/PPPBBPPP/R3K2R w KQkq - 0 1",
]

HOOK_MARK = os.path.join("lib", "texellib", "hw", "verifsync.hpp")


def hook_present():
    p = os.path.join(REPO, HOOK_MARK)
    if not os.path.exists(p):
        return False
    try:
        return "VERIF_EV(\"PUSH\"" in open(os.path.join(REPO, "lib", "texellib", "hw", "parallel.cpp")).read()
    except OSError:
        return False


# ---------------------------------------------------------------- scripts
def gen_script(rng, kinds=None):
    """A session: list of steps.  ('send', text) | ('best', n, timeout_s) wait for n bestmove lines |
    ('sleep', s) | ('ready',) isready/readyok | ('exit', timeout_s).  Returns (steps, tags)."""
    steps = [("send", "uci"), ("ready",)]
    tags = []
    threads = rng.choice([1, 2, 2, 3, 4, 4, 5, 6, 7, 8])
    steps.append(("send", "setoption name Threads value %d" % threads))
    if rng.random() < 0.5:
        steps.append(("send", "setoption name Hash value %d" % rng.choice([1, 4, 16])))
    steps.append(("ready",))
    nfrag = rng.randint(2, 4)
    allk = kinds or ["gostop", "godepth", "ponderhit", "ponderstop", "backtoback", "threads", "gogo", "movetime", "setopt"]
    quit_in_search = rng.random() < 0.3
    for i in range(nfrag):
        k = rng.choice(allk)
        tags.append(k)
        steps.append(("send", "position " + rng.choice(FENS)))
        if k == "gostop":
            steps.append(("send", "go infinite"))
            steps.append(("sleep", rng.choice([0.0, 0.0, 0.002, 0.01, 0.05, 0.15])))
            steps.append(("send", "stop"))
            steps.append(("best", 1, 20))
        elif k == "godepth":
            steps.append(("send", "go depth %d" % rng.randint(1, 7)))
            steps.append(("best", 1, 30))
        elif k == "movetime":
            steps.append(("send", "go movetime %d" % rng.choice([1, 5, 30, 80])))
            steps.append(("best", 1, 20))
        elif k == "ponderhit":
            steps.append(("send", "go ponder wtime %d btime %d" % (rng.choice([200, 1000, 3000]), rng.choice([200, 1000, 3000]))))
            steps.append(("sleep", rng.choice([0.0, 0.005, 0.05])))
            steps.append(("send", "ponderhit"))
            steps.append(("best", 1, 20))
        elif k == "ponderstop":
            steps.append(("send", "go ponder wtime 1000 btime 1000"))
            steps.append(("sleep", rng.choice([0.0, 0.005, 0.05])))
            steps.append(("send", "stop"))
            steps.append(("best", 1, 20))
        elif k == "backtoback":
            steps.append(("send", "go depth %d" % rng.randint(1, 5)))
            steps.append(("best", 1, 30))
            steps.append(("send", "go depth %d" % rng.randint(1, 5)))
            steps.append(("best", 1, 30))
        elif k == "gogo":
            # a second go without stop: the UCI layer stops the first search itself
            steps.append(("send", "go infinite"))
            steps.append(("sleep", rng.choice([0.0, 0.003, 0.03])))
            steps.append(("send", "go depth %d" % rng.randint(1, 4)))
            steps.append(("best", 2, 30))
        elif k == "setopt":
            # option change while idle, then isready / go at once: the engine must be ready (options applied) first
            for _ in range(rng.randint(1, 2)):
                steps.append(("send", rng.choice(["setoption name Hash value %d" % rng.choice([1, 4, 16, 32]),
                                                  "setoption name MultiPV value %d" % rng.choice([1, 2]), "ucinewgame"])))
            if rng.random() < 0.5:
                steps.append(("ready",))
            steps.append(("send", rng.choice(["go depth %d" % rng.randint(1, 4), "go movetime 10"])))
            steps.append(("best", 1, 30))
        elif k == "threads":
            steps.append(("send", "go depth %d" % rng.randint(1, 5)))
            steps.append(("best", 1, 30))
            threads = rng.choice([1, 2, 3, 4, 5, 6, 7, 8])
            steps.append(("send", "setoption name Threads value %d" % threads))
            if rng.random() < 0.5:
                steps.append(("ready",))
            steps.append(("send", "go depth %d" % rng.randint(1, 5)))
            steps.append(("best", 1, 30))
    if quit_in_search:
        tags.append("quitsearch")
        steps.append(("send", "position " + rng.choice(FENS)))
        steps.append(("send", rng.choice(["go infinite", "go ponder wtime 1000 btime 1000", "go depth 30"])))
        steps.append(("sleep", rng.choice([0.0, 0.003, 0.05])))
        steps.append(("send", "quit"))
        steps.append(("best", 1, 20))
    else:
        steps.append(("send", "quit"))
    steps.append(("exit", 20))
    return steps, tags


def run_session(exe, steps, env, trace_path=None):
    """Drive one engine process.  Returns dict(ok, why, bestmoves, gos, rc, transcript)."""
    e = dict(os.environ)
    e.update(env)
    if trace_path:
        e["TEXEL_VERIF_SYNCTRACE"] = trace_path
    p = subprocess.Popen([exe], stdin=subprocess.PIPE, stdout=subprocess.PIPE, stderr=subprocess.DEVNULL,
                         env=e, text=True, bufsize=1)
    q = queue.Queue()

    def reader():
        try:
            for line in p.stdout:
                q.put(line.rstrip("\n"))
        except Exception:
            pass
        q.put(None)
    th = threading.Thread(target=reader, daemon=True)
    th.start()
    transcript = []
    state = {"best": 0, "eof": False}

    def pump(until, timeout):
        """consume output until predicate true; False on timeout / EOF"""
        t_end = time.time() + timeout
        while not until():
            left = t_end - time.time()
            if left <= 0:
                return False
            try:
                line = q.get(timeout=min(left, 0.5))
            except queue.Empty:
                continue
            if line is None:
                state["eof"] = True
                return until()
            if line.startswith("bestmove"):
                state["best"] += 1
                transcript.append("< " + line)
            elif line.startswith(("readyok", "uciok")):
                transcript.append("< " + line)
                state["last"] = line
        return True

    res = dict(ok=True, why="", bestmoves=0, gos=0, rc=None)
    want = 0
    try:
        for st in steps:
            if st[0] == "send":
                transcript.append("> " + st[1])
                if st[1].startswith("go"):
                    res["gos"] += 1
                try:
                    p.stdin.write(st[1] + "\n")
                    p.stdin.flush()
                except (BrokenPipeError, OSError):
                    res.update(ok=False, why="engine closed stdin early (crash?) at '%s'" % st[1])
                    break
            elif st[0] == "sleep":
                time.sleep(st[1])
            elif st[0] == "ready":
                state["last"] = ""
                transcript.append("> isready")
                p.stdin.write("isready\n")
                p.stdin.flush()
                if not pump(lambda: state.get("last") == "readyok", 30):
                    res.update(ok=False, why="no readyok within 30 s")
                    break
            elif st[0] == "best":
                want += st[1]
                if not pump(lambda: state["best"] >= want, st[2]):
                    res.update(ok=False, why="hang: %d bestmove(s) after %d go, expected %d within %d s" %
                               (state["best"], res["gos"], want, st[2]))
                    break
            elif st[0] == "exit":
                try:
                    p.wait(timeout=st[1])
                except subprocess.TimeoutExpired:
                    res.update(ok=False, why="hang: process did not exit within %d s after quit" % st[1])
                    break
                pump(lambda: state["eof"], 5)
    finally:
        if p.poll() is None:
            p.kill()
            try:
                p.wait(timeout=5)
            except Exception:
                pass
        try:
            p.stdin.close()
        except Exception:
            pass
    res["rc"] = p.returncode
    res["bestmoves"] = state["best"]
    if res["ok"]:
        if state["best"] != res["gos"]:
            res.update(ok=False, why="%d bestmove lines for %d go commands" % (state["best"], res["gos"]))
        elif p.returncode != 0:
            res.update(ok=False, why="engine exit status %s" % p.returncode)
    res["transcript"] = transcript[-60:]
    return res


def validate_trace(drv, path):
    rc, out, err = sh([drv, path], timeout=300)
    out = out.strip()
    if rc == 0 and out.startswith("OK"):
        info = dict(kv.split("=") for kv in out.split()[1:])
        return True, info, out
    return False, {}, (out or err.strip() or "checker rc=%d" % rc)


def one_run(args):
    exe, drv, steps, tags, sched_seed, tmpdir, idx, hooked = args
    trace = os.path.join(tmpdir, "t%d.trace" % idx) if hooked else None
    env = {"TEXEL_VERIF_SCHED_SEED": str(sched_seed)} if hooked and sched_seed else {}
    r = run_session(exe, steps, env, trace)
    r["trace_ok"] = None
    r["trace_msg"] = ""
    r["trace_info"] = {}
    if hooked and r["ok"]:
        if not os.path.exists(trace):
            r["trace_ok"] = False
            r["trace_msg"] = "no trace file written"
        else:
            ok, info, msg = validate_trace(drv, trace)
            r["trace_ok"], r["trace_info"], r["trace_msg"] = ok, info, msg
            if not ok:
                # keep an excerpt around the failing line
                try:
                    ln = int(msg.split("line", 1)[1].split(":")[0])
                    lines = open(trace).read().split("\n")
                    r["trace_excerpt"] = lines[max(0, ln - 25):ln + 2]
                except Exception:
                    pass
    if trace and os.path.exists(trace):
        os.unlink(trace)
    return r


def campaign(ctx, exe, drv, hooked, nruns, kinds=None, fixed=None):
    rng = ctx.rng
    tmpdir = tempfile.mkdtemp(prefix="c10-", dir="/tmp")
    jobs = []
    for i in range(nruns):
        if fixed:
            steps, tags, sseed = fixed["steps"], fixed.get("tags", []), fixed.get("sched_seed", 0) + i
            steps = [tuple(s) for s in steps]
        else:
            steps, tags = gen_script(rng, kinds)
            sseed = rng.randint(1, 10 ** 9) if rng.random() < 0.9 else 0
        jobs.append((exe, drv, steps, tags, sseed, tmpdir, i, hooked))
    workers = max(2, min(NCPU, 12))
    t0 = time.time()
    with ThreadPoolExecutor(max_workers=workers) as ex:
        results = list(ex.map(one_run, jobs))
    shutil.rmtree(tmpdir, ignore_errors=True)
    return jobs, results, time.time() - t0


def report(ctx, jobs, results, hooked):
    nviol = 0
    for job, r in zip(jobs, results):
        _, _, steps, tags, sseed, _, idx, _ = job
        ctx.evaluated()
        for t in set(tags):
            ctx.count("script_" + t)
        thr = [s[1] for s in steps if s[0] == "send" and s[1].startswith("setoption name Threads")]
        ctx.count("sessions_threads_%s" % thr[0].split()[-1] if thr else "sessions_threads_1")
        ctx.count("go_commands", r["gos"])
        ctx.count("bestmoves", r["bestmoves"])
        replay = {"steps": steps, "tags": tags, "sched_seed": sseed, "outcome": r["why"],
                  "transcript": r.get("transcript"), "hooked": hooked,
                  "how": "VERIF_REPO=<tree> ./check C10 --replay <this file> re-runs the session 40 times with sched seeds sched_seed+i"}
        if not r["ok"]:
            nviol += 1
            kind = "hang" if r["why"].startswith("hang") else "outcome"
            ctx.count("violations_" + kind)
            ctx.violation("C10 outcome contract: %s [threads %s, scripts %s]" % (r["why"], thr, tags), replay,
                          key="%s:%s" % (kind, "+".join(tags)))
            continue
        if len(set(tags)) >= 2 or "quitsearch" in tags:
            ctx.nontrivial((tuple(tags), tuple(thr), sseed))
        if hooked:
            if r["trace_ok"]:
                ctx.traces_validated += 1
                inf = r["trace_info"]
                ctx.count("trace_events", int(inf.get("events", 0)))
                ctx.count("trace_transitions", int(inf.get("transitions", 0)))
                ctx.count("trace_reconfigs", int(inf.get("reconfigs", 0)))
                ctx.count("trace_searches", int(inf.get("searches", 0)))
                ctx.count("trace_maxN_%s" % inf.get("maxN", "?"))
                if inf.get("options") == "true":
                    ctx.count("traces_with_option_handshake_replayed")
                if int(inf.get("searches", -1)) != r["gos"] or int(inf.get("bestmoves", -1)) != r["gos"]:
                    nviol += 1
                    ctx.violation("C10 trace: model counts %s searches / %s bestmoves for %d go commands" %
                                  (inf.get("searches"), inf.get("bestmoves"), r["gos"]), replay, key="trace:count")
                ctx.sample({"scripts": tags, "threads": thr, "sched_seed": sseed, "checker": r["trace_msg"]})
            else:
                nviol += 1
                replay["checker"] = r["trace_msg"]
                replay["trace_excerpt"] = r.get("trace_excerpt")
                code = r["trace_msg"].split("|")[0].split(":", 1)[-1].strip()
                ctx.violation("C10 trace validation: engine performed a step the proved LTS does not allow: %s" %
                              r["trace_msg"][:400], replay, key="trace:" + code.replace(" ", "_")[:80])
        else:
            ctx.sample({"scripts": tags, "threads": thr, "outcome": "ok (%d bestmoves for %d go)" % (r["bestmoves"], r["gos"])})
    return nviol


def run(ctx):
    hooked = hook_present()
    ctx.log("tree %s: hook H5 %s" % (REPO, "present" if hooked else "absent (outcome contract only)"))
    ctx.rule = ("UCI sessions = 2..4 fragments drawn from {go infinite/stop, go depth N, go movetime, go ponder/ponderhit, "
                "go ponder/stop, back-to-back go, go during go, setoption Threads between searches, setoption Hash/MultiPV/Clear Hash then isready|go at once} + quit (30% during a search), "
                "Threads 1..8, 8 positions (incl. mate-in-1 / single-move positions), one H5 schedule-perturbation seed per session; "
                "non-trivial = session mixes >=2 fragment kinds or quits during a search; distinct by (fragments, threads, sched seed)")
    ctx.trusted_base = ["Coq 8.16.1 kernel", "extraction (ExtrOcamlBasic) + OCaml 4.13 + drivers/workers_driver.ml",
                        "hook H5 (hooks/h5-sync-events.patch): event positions inside the critical sections, global log order",
                        "hand-written LTS coq/Workers/Workers.v tied to parallel.cpp/enginecontrol.cpp/search.cpp by trace validation",
                        "props/c10.py session driver (outcome contract)"]
    ctx.assumptions = ["the LTS is the code: checked on the recorded traces only (every event an enabled transition, abstract state equal), not proved",
                       "schedules explored = those the OS produces under seeded sched_yield/usleep perturbation (DESIGN C10 fallback), not a cooperative scheduler that owns every blocking point",
                       "progress (C10_stop_terminates) assumes weak fairness of the thread scheduler (no thread that can make progress is starved for ever) and says nothing about time bounds; the search itself (a helper inside negaScout) is abstracted as always able to return",
                       "MPI cluster communicators, NUMA binding, book moves (waitForStop=false path) are outside the model"]
    # (2) prove
    ok, info = coqbuild.prove(ctx, PROP_FILE, timeout=ctx.scale(1500, 3600))
    if not ok:
        ctx.violation("C10: proofs of Properties_C10.v do not check", {"coq": info}, no_failing_input=True)
    # (3) build
    exe = cbuild.build_engine()
    drv = coqbuild.extract("ExtractWorkers.v", "workers_driver.ml", "workers_driver")
    ctx.notes["hook_H5_present"] = hooked
    ctx.notes["mode"] = ("event logging + seed-driven sched_yield/usleep perturbation at the hook points (the design's fallback); "
                         "no cooperative scheduler") if hooked else \
        "tree WITHOUT hook H5: only the outcome contract (one bestmove per go, exit, no hang) was checked; no trace validation"
    # model self-test: random walks of the extracted LTS under the checker's monitors
    nsim = ctx.scale(8, 64)
    for i in range(nsim):
        n = ctx.rng.randint(0, 7)
        rc, out, err = sh([drv, "--sim", str(ctx.rng.randint(1, 10 ** 6)), str(n), str(ctx.scale(20000, 100000))] +
                          (["rand"] if i % 2 else []), timeout=600)
        ctx.count("model_random_walks")
        if rc == 124:      # the walk did not finish within the time limit (machine load): not a verdict
            ctx.count("model_random_walks_timed_out")
            continue
        if rc != 0 or not out.startswith("OK"):
            ctx.violation("C10 model self-test failed: %s" % out.strip()[:300], {"sim": out, "n": n}, no_failing_input=True)
    # exhaustive exploration of small instances: deadlock freedom and fair termination of the stop phase
    # (cross-check of C10_stop_no_deadlock / C10_stop_terminates: SCC analysis + the extracted measure mu on every edge)
    exps = ctx.scale([("", 2, 2), ("0", 2, 2), ("0,0", 1, 1), ("0,1", 1, 1), ("0,1", 2, 1)],
                     [("", 3, 3), ("0", 3, 3), ("0,0", 2, 2), ("0,1", 2, 2), ("0,0,0", 1, 1), ("0,1,1", 1, 1), ("0,1,2", 1, 1)])

    def explore(cfg):
        return cfg, sh([drv, "--explore", cfg[0], str(cfg[1]), str(cfg[2])], timeout=ctx.scale(300, 3600))
    with ThreadPoolExecutor(max_workers=4) as ex:
        exres = list(ex.map(explore, exps))
    tot = 0
    for cfg, (rc, out, err) in exres:
        ctx.count("exhaustive_instances")
        if rc == 124:      # exploration not finished within the time limit: reported as not covered, not as a verdict
            ctx.count("exhaustive_instances_timed_out")
            continue
        if rc != 0 or not out.startswith("OK"):
            ctx.violation("C10 exhaustive exploration (tree %s, jobs<=%d, searches<=%d): %s" % (cfg[0] or "-", cfg[1], cfg[2], (out or err).strip()[:300]),
                          {"explore": cfg, "output": out}, no_failing_input=True)
        else:
            kv = dict(x.split("=") for x in out.split() if "=" in x and not x.startswith("tree"))
            tot += int(kv.get("states", 0))
            ctx.count("exhaustive_states", int(kv.get("states", 0)))
            ctx.count("exhaustive_stop_phase_states", int(kv.get("stop_states", 0)))
            ctx.count("exhaustive_measure_checked_edges", int(kv.get("measure_edges", 0)))
    ctx.notes["exhaustive_exploration"] = ("all interleavings of the LTS for the trees %s (parent lists; jobs / searches bounded): no deadlock and no "
                                           "weakly-fair cycle inside the stop phase (SCC analysis); the proved termination measure (WorkersMeasure.mu, extracted) decreases on every "
                                           "state-changing thread transition of the stop phase except the engine thread's idle wake-up cycle; %d states" % ([c[0] or "-" for c in exps], tot))
    # corpus of past failures first
    corpus = os.path.join(VERIF, "corpus", "c10.json")
    if os.path.exists(corpus):
        for ent in json.load(open(corpus)):
            jobs, results, _ = campaign(ctx, exe, drv, hooked, ent.get("repeat", 10), fixed=ent)
            report(ctx, jobs, results, hooked)
    # (4) sessions
    nruns = int(os.environ.get("VERIF_C10_RUNS", 0)) or ctx.scale(240, 6000)   # env override: development aid
    jobs, results, wall = campaign(ctx, exe, drv, hooked, nruns)
    ctx.notes["campaign_wall_s"] = round(wall, 1)
    report(ctx, jobs, results, hooked)
    if not hooked:
        ctx.traces_validated = 0


def replay(ctx, body):
    rp = body.get("replay", {})
    hooked = hook_present()
    exe = cbuild.build_engine()
    drv = coqbuild.extract("ExtractWorkers.v", "workers_driver.ml", "workers_driver")
    if "steps" not in rp:
        ctx.log("replay file has no session; nothing to re-run")
        return
    jobs, results, _ = campaign(ctx, exe, drv, hooked, 40, fixed=rp)
    n = report(ctx, jobs, results, hooked)
    ctx.log("replay: %d of 40 re-runs violated" % n)
