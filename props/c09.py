"""C09 — multi-threaded operation is free of data races: PARTIAL (DESIGN.md section 6, C09).

What this check can and cannot say.  A data race is a property of every memory access of the
compiled program; a theorem speaks about a model.  Proved (coq/Properties_C09.v) about the control
LTS of C10 extended with the UCI option hand-shake and with access annotations: for every number of
helpers, tree and schedule no two conflicting accesses to a MODELLED location are unordered by
happens-before (mutex unlock->lock, seq_cst store->load that reads it, program order); see the file
for the exact scope of each theorem.
Tie: with hook H5 (+ H5b for the option / table events) the engine logs lock acquire/release and the
accesses to the modelled locations; this check (a) compares the lock set held at each logged access
with the one the model's transition holds, (b) runs the extracted, proved-exact detector (raceb_on)
and an independent vector-clock detector on every recorded trace; any race is a VIOLATION whose
replay is the session script + schedule seed.
Modelled locations: mailboxes (cmdQueue), notifier flags, search, quitFlag, search parameters
(sc/pos/moves/...), ponder/infinite, pendingOptions, optionsSetFinished, option values (Parameters),
transposition-table geometry/generation.  NOT covered: everything else — evaluator/NN tables,
history/killer tables, table entries (C08), TB globals, logging, texelutil's worker pool."""
import os
import shutil
import tempfile
import time
from concurrent.futures import ThreadPoolExecutor

from vlib import cbuild, coqbuild
from vlib.common import NCPU, REPO, sh
from props import c10

PROP_FILE = "Properties_C09.v"
UCI = 99

# event -> (accesses [(loc, write, kind)], mutexes the model's transition holds)   (coq/Workers/Access.v)
MUST = {
    "N": lambda a: ([("f%d" % a, 1, "p")], {"f%d" % a}),
    "W": lambda a: ([("f%d" % a, 0, "p"), ("f%d" % a, 1, "p")], {"f%d" % a}),
    "PUSH": lambda a: ([("q%d" % a, 1, "p")], {"q%d" % a}),
    "POP": lambda a: ([("q%d" % a, 0, "p"), ("q%d" % a, 1, "p")], {"q%d" % a}),
    "EMPTY": lambda a: ([("q%d" % a, 0, "p")], {"q%d" % a}),
    "RDQUIT": lambda a: ([("x", 0, "a")], set()),
    "RDSEARCH": lambda a: ([("s", 0, "a")], set()),
    "RDSEARCHU": lambda a: ([("s", 0, "a")], {"e"}),
    "RDPARAMS": lambda a: ([("p", 0, "p")], set()),
    "GO": lambda a: ([("p", 1, "p"), ("s", 1, "a")], {"e"}),
    "QUIT": lambda a: ([("x", 1, "a")], {"e"}),
    "CLEAR": lambda a: ([("s", 1, "a")], {"e"}),
    "BEST": lambda a: ([("o", 0, "r")], set()),
    "UNPONDER": lambda a: ([("o", 1, "r")], set()),
    # H5b
    "SETOPT": lambda a: ([("d", 1, "p"), ("e", 1, "p")], {"e"}),
    "OPTTAKE": lambda a: ([("d", 0, "p"), ("d", 1, "p")] if a else [("d", 0, "p"), ("e", 1, "p")], {"e"}),
    "RDFIN": lambda a: ([("e", 0, "p")], {"e"}),
    "WOPT": lambda a: ([("v", 1, "p")], set()),
    "ROPT": lambda a: ([("v", 0, "p")], set()),
    "WTT": lambda a: ([("g", 1, "p")], set()),
    "RTT": lambda a: ([("g", 0, "p")], set()),
}
OWNER_EVENTS = ("N", "W", "PUSH", "POP", "EMPTY")
MUTEX_KIND = {0: "q", 1: "f", 2: "e"}
LOCNAME = {"q": "mailbox", "f": "notifier-flag", "s": "search", "x": "quitFlag", "p": "search-parameters", "o": "ponder/infinite",
           "d": "pendingOptions", "e": "optionsSetFinished", "v": "option-values", "g": "TT-geometry/generation"}


def convert(path):
    """H5 trace -> (tev lines, lock-set mismatches, set of event kinds seen)."""
    held = {}
    out = []
    mism = []
    kinds = set()
    for ln, line in enumerate(open(path), 1):
        tk = line.split()
        if len(tk) < 6:
            continue
        t = int(tk[0])
        t = UCI if t < 0 else t
        kind = tk[1]
        a, b = int(tk[2]), int(tk[3])
        h = held.setdefault(t, [])
        if kind == "ACQ":
            m = MUTEX_KIND[a] + ("" if a == 2 else str(b))
            h.append(m)
            out.append("Q %d %s" % (t, m))
        elif kind == "REL":
            m = MUTEX_KIND[a] + ("" if a == 2 else str(b))
            if m in h:
                h.remove(m)
            else:
                mism.append((ln, line.strip(), "release of a mutex not logged as held"))
            out.append("R %d %s" % (t, m))
        elif kind in MUST:
            if kind in OWNER_EVENTS and a < 0:
                continue
            kinds.add(kind)
            accs, must = MUST[kind](a)
            if not must <= set(h):
                mism.append((ln, line.strip(), "model holds %s here, engine holds %s" % (sorted(must), sorted(h))))
            for loc, w, k in accs:
                out.append("A %d %s %d %s" % (t, loc, w, k))
    return out, mism, kinds


def vc_races(lines):
    """Independent vector-clock happens-before detector over the converted trace: program order,
    unlock->lock, atomic store -> atomic load that reads it (= the last write of the location)."""
    vc = {}
    mvc = {}
    svc = {}          # location -> vector clock released by its last write if that was an atomic store
    lastw = {}
    lastr = {}
    races = set()

    def get(t):
        if t not in vc:
            vc[t] = {t: 1}
        return vc[t]

    def leq(ev, cur):
        u, c = ev
        return cur.get(u, 0) >= c

    def join(cur, other):
        for u, c in other.items():
            if cur.get(u, 0) < c:
                cur[u] = c
    for l in lines:
        tk = l.split()
        t = int(tk[1])
        cur = get(t)
        if tk[0] == "Q":
            join(cur, mvc.get(tk[2], {}))
        elif tk[0] == "R":
            mvc[tk[2]] = dict(cur)
            cur[t] = cur.get(t, 0) + 1
        else:
            loc, w, k = tk[2], tk[3] == "1", tk[4]
            if k == "a" and not w and svc.get(loc) is not None:
                join(cur, svc[loc])
            me = (t, cur.get(t, 0))
            for u, (ev, uk) in lastw.get(loc, {}).items():
                if u != t and (k == "p" or uk == "p") and not leq(ev, cur):
                    races.add(loc)
            if w:
                for u, (ev, uk) in lastr.get(loc, {}).items():
                    if u != t and (k == "p" or uk == "p") and not leq(ev, cur):
                        races.add(loc)
                lastw.setdefault(loc, {})[t] = (me, k)
                if k == "a":
                    svc[loc] = dict(cur)
                    cur[t] = cur.get(t, 0) + 1
                else:
                    svc[loc] = None
            else:
                lastr.setdefault(loc, {})[t] = (me, k)
    return races


def gen_c09_script(rng):
    """Sessions around the option hand-shake: setoption immediately before / after go and go ponder."""
    steps = [("send", "uci"), ("ready",)]
    threads = rng.choice([1, 2, 3, 4, 6, 8])
    steps.append(("send", "setoption name Threads value %d" % threads))
    if rng.random() < 0.5:
        steps.append(("ready",))
    tags = ["threads%d" % threads]

    def setopt():
        r = rng.random()
        if r < 0.6:
            return "setoption name Hash value %d" % rng.choice([1, 2, 4, 8, 16, 32])
        if r < 0.75:
            return "ucinewgame"
        if r < 0.9:
            return "setoption name MultiPV value %d" % rng.choice([1, 2, 3])
        return "setoption name Threads value %d" % rng.choice([1, 2, 3, 4])
    for i in range(rng.randint(2, 5)):
        steps.append(("send", "position " + rng.choice(c10.FENS)))
        k = rng.choice(["opt-go", "opt-ponder", "opt-ponder", "go-opt", "ponder-opt", "opt-infinite"])
        tags.append(k)
        if k == "opt-go":
            for _ in range(rng.randint(1, 2)):
                steps.append(("send", setopt()))
            steps.append(("send", "go depth %d" % rng.randint(1, 4)))
            steps.append(("best", 1, 30))
        elif k == "opt-ponder":
            for _ in range(rng.randint(1, 2)):
                steps.append(("send", setopt()))
            steps.append(("send", "go ponder wtime 1000 btime 1000"))
            steps.append(("sleep", rng.choice([0.0, 0.01, 0.05])))
            steps.append(("send", rng.choice(["stop", "ponderhit"])))
            steps.append(("best", 1, 20))
        elif k == "opt-infinite":
            steps.append(("send", setopt()))
            steps.append(("send", "go infinite"))
            steps.append(("sleep", rng.choice([0.0, 0.01])))
            steps.append(("send", "stop"))
            steps.append(("best", 1, 20))
        elif k == "go-opt":
            steps.append(("send", "go movetime %d" % rng.choice([5, 30])))
            steps.append(("send", setopt()))
            steps.append(("best", 1, 20))
        else:
            steps.append(("send", "go ponder wtime 1000 btime 1000"))
            steps.append(("send", setopt()))
            steps.append(("sleep", rng.choice([0.0, 0.01])))
            steps.append(("send", "stop"))
            steps.append(("best", 1, 20))
    if rng.random() < 0.5:
        steps.append(("send", setopt()))
    steps.append(("send", "quit"))
    steps.append(("exit", 20))
    return steps, tags


CLASSES = ["q", "f", "s", "x", "p", "o", "d", "e", "v", "g"]


def one(args):
    exe, drv, steps, sseed, tmpdir, idx = args
    trace = os.path.join(tmpdir, "t%d.trace" % idx)
    r = c10.run_session(exe, steps, {"TEXEL_VERIF_SCHED_SEED": str(sseed)}, trace)
    res = dict(ok=r["ok"], why=r["why"], races=set(), det=None, mism=[], n=0, agree=True, kinds=set())
    if r["ok"] and os.path.exists(trace):
        lines, mism, kinds = convert(trace)
        res.update(mism=mism[:3], n=len(lines), kinds=kinds)
        res["races"] = vc_races(lines)
        # definitional detector: always for the hand-off locations, for mailboxes/flags on short traces
        # (the scan is linear per access of the class: bound the quadratic cases by trace length)
        cls = ["s", "x", "p", "o", "d", "e"] + (["v", "g"] if len(lines) <= 15000 else []) + (["q", "f"] if len(lines) <= 5000 else [])
        rc, out, err = sh([drv] + cls, input="\n".join(lines) + "\n", timeout=900)
        det = dict(kv.split("=") for kv in out.split()) if rc == 0 and out.strip() else {}
        res["det"] = det
        if det:
            for c in cls:
                vcr = any(x[0] == c for x in res["races"])
                if vcr != (det.get(c) == "true"):
                    res["agree"] = False
        else:
            res["agree"] = False
    if os.path.exists(trace):
        os.unlink(trace)
    return res


def hook_level():
    try:
        pc = open(os.path.join(REPO, "lib/texellib/hw/parallel.cpp"), errors="replace").read()
        ec = open(os.path.join(REPO, "app/texel/enginecontrol.cpp"), errors="replace").read()
    except OSError:
        return 0
    if not (c10.hook_present() and "VerifSync::Held" in pc):
        return 0
    return 2 if 'VERIF_EV("WOPT")' in ec else 1


def campaign(ctx, exe, drv, jobs_spec):
    tmpdir = tempfile.mkdtemp(prefix="c09-", dir="/tmp")
    jobs = [(exe, drv, steps, sseed, tmpdir, i) for i, (steps, sseed) in enumerate(jobs_spec)]
    t0 = time.time()
    with ThreadPoolExecutor(max_workers=max(2, min(NCPU, 12))) as ex:
        results = list(ex.map(one, jobs))
    shutil.rmtree(tmpdir, ignore_errors=True)
    return jobs, results, time.time() - t0


def report(ctx, jobs, results):
    nrace = 0
    seen_kinds = set()
    for job, r in zip(jobs, results):
        ctx.evaluated()
        replay = {"steps": job[2], "sched_seed": job[3],
                  "how": "VERIF_REPO=<tree> ./check C09 --replay <this file> re-runs the session 40 times with sched seeds sched_seed+i"}
        if not r["ok"]:
            ctx.count("sessions_failed_outcome")      # C10's business; not a C09 verdict
            continue
        ctx.traces_validated += 1
        seen_kinds |= r["kinds"]
        ctx.count("trace_events", r["n"])
        opt = bool(r["kinds"] & {"WOPT", "WTT"})
        if opt:
            ctx.count("traces_with_option_or_table_writes")
        # non-trivial: an option / table write was observed (H5b), or - on a tree with H5 only - at least one search hand-off
        if opt or ("GO" in r["kinds"] and "ROPT" not in r["kinds"]):
            ctx.nontrivial((str(job[2])[:300], job[3]))
        if r["mism"]:
            ctx.violation("C09 conformance: engine access with a lock set different from the model's: %s" % (r["mism"][0],),
                          dict(replay, mismatches=r["mism"]), key="lockset:" + r["mism"][0][1].split()[1])
        if not r["agree"]:
            ctx.violation("C09: extracted detector and vector-clock detector disagree: %s vs %s" % (r["det"], sorted(r["races"])),
                          replay, no_failing_input=True)
        if r["races"]:
            nrace += 1
            locs = sorted(set(LOCNAME.get(x[0], x) for x in r["races"]))
            ctx.count("traces_with_race")
            ctx.violation("C09: data race on %s: two conflicting accesses of different threads not ordered by happens-before "
                          "(session script + sched seed = replay)" % ", ".join(locs), dict(replay, races=sorted(r["races"])),
                          key="race:" + "+".join(locs))
        ctx.sample({"events": r["n"], "races": sorted(r["races"]), "detector": r["det"]})
    return nrace, seen_kinds


def run(ctx):
    level = hook_level()
    ctx.rule = ("UCI sessions with Threads 1..8 around the option hand-shake: {setoption Hash / Clear Hash (ucinewgame) / MultiPV / Threads} sent "
                "immediately before or after {go, go ponder, go infinite} with no delay, stop / ponderhit, plus the C10 session mix; one "
                "schedule-perturbation seed each; per recorded trace: lock set at every logged access vs the model's, extracted detector "
                "raceb_on (proved exact) + independent vector-clock detector; non-trivial = trace in which an option value or the table "
                "geometry is written; distinct by (session, sched seed)")
    ctx.trusted_base = ["Coq 8.16.1 kernel", "extraction + OCaml + drivers/race_driver.ml",
                        "hooks H5 + H5b: ACQ/REL logged inside the real critical sections, atomic accesses logged together with the access, global log order "
                        "(a load reads the last logged store of its location)",
                        "hand-written access annotations coq/Workers/Access.v tied to the code by the lock-set comparison on recorded traces",
                        "props/c09.py trace conversion and vector-clock cross-check"]
    ctx.assumptions = ["PARTIAL: only the modelled shared state {mailboxes, notifier flags, search, quitFlag, search parameters, ponder/infinite, "
                       "pendingOptions, optionsSetFinished, option values, TT geometry/generation}; the property says 'any memory location', "
                       "which only a whole-program detector sees",
                       "the model's access annotations are the code: checked on the recorded traces only (lock set at every logged access equals the model's, "
                       "no race found by two detectors); the race freedom of the MODEL itself is proved for every N, tree and schedule (C09_model_drf), including the "
                       "helpers' reads of option values / TT geometry ordered over the START / STOP_ACK message edges",
                       "compiler/CPU implement mutexes and seq_cst atomics as the C++ memory model says; ponder/infinite are treated as relaxed (no ordering derived)"]
    ctx.notes["locations_covered"] = sorted(LOCNAME.values())
    ctx.notes["not_covered"] = ("all locations outside the list above: evaluator/NN tables, history/killer tables, transposition table entries (C08), "
                                "TB globals, logging, texelutil's worker pool and the proof-game filter")
    ok, info = coqbuild.prove(ctx, PROP_FILE, timeout=ctx.scale(900, 1800))
    if not ok:
        ctx.violation("C09: proofs of Properties_C09.v do not check", {"coq": info}, no_failing_input=True)
    ctx.notes["hook_level"] = {0: "no H5 lock events: only the Coq theorems were checked; no conformance run",
                               1: "H5 only: option values / TT geometry / pendingOptions are NOT observed (apply hooks/h5b-option-events.patch)",
                               2: "H5 + H5b: all modelled locations observed"}[level]
    ctx.log("tree %s: %s" % (REPO, ctx.notes["hook_level"]))
    if level == 0:
        return
    ctx.notes["mode"] = "event logging + seeded perturbation (no cooperative scheduler)"
    exe = cbuild.build_engine()
    drv = coqbuild.extract("ExtractRace.v", "race_driver.ml", "race_driver")
    nruns = int(os.environ.get("VERIF_C09_RUNS", 0)) or ctx.scale(150, 3000)
    spec = []
    for i in range(nruns):
        steps, tags = gen_c09_script(ctx.rng) if i % 4 else c10.gen_script(ctx.rng)
        spec.append((steps, ctx.rng.randint(1, 10 ** 9)))
    jobs, results, wall = campaign(ctx, exe, drv, spec)
    ctx.notes["campaign_wall_s"] = round(wall, 1)
    nrace, kinds = report(ctx, jobs, results)
    ctx.notes["event_kinds_observed"] = sorted(kinds)
    ctx.notes["traces_with_race"] = nrace


def replay(ctx, body):
    rp = body.get("replay", {})
    if "steps" not in rp or hook_level() == 0:
        ctx.log("nothing to replay (no session in the file, or tree without hook H5)")
        return
    exe = cbuild.build_engine()
    drv = coqbuild.extract("ExtractRace.v", "race_driver.ml", "race_driver")
    steps = [tuple(s) for s in rp["steps"]]
    spec = [(steps, rp.get("sched_seed", 0) + i) for i in range(40)]
    jobs, results, _ = campaign(ctx, exe, drv, spec)
    n, _ = report(ctx, jobs, results)
    ctx.log("replay: race in %d of 40 re-runs" % n)
