"""C09 — multi-threaded operation is free of data races: PARTIAL (DESIGN.md section 6, C09).

What this check can and cannot say.  A data race is a property of every memory access of the
compiled program; a theorem speaks about a model.  Proved (coq/Properties_C09.v) about the control
LTS of C10 extended with access annotations: no schedule races on a mailbox or a notifier flag, the
only locations any schedule can race on are `search`, `quitFlag` and the search parameters — and on
those the model DOES race (C09_model_drf_refuted, finding F9).  Tie: with hook H5 the engine logs
lock acquire/release and the accesses to the modelled locations; this check (a) compares the lock
set held at each logged access with the one the model's transition holds, (b) runs the extracted,
proved-exact detector (raceb_on) and an independent vector-clock detector on every recorded trace.
NOT covered: every location outside {mailboxes, notifier flags, search, quitFlag, search parameters,
ponder/infinite}: evaluator tables, history/killer tables, TT, logging, texelutil's worker pool."""
import os
import shutil
import tempfile
import time
from concurrent.futures import ThreadPoolExecutor

from vlib import cbuild, coqbuild
from vlib.common import NCPU, REPO, sh
from props import c10

PROP_FILE = "Properties_C09.v"
UCI = 99

# expected lock sets of the model's transitions (coq/Workers/Access.v): event -> (accesses, must hold, must not hold)
MUST = {
    "N": lambda a: ([("f%d" % a, 1, 0)], {"f%d" % a}, set()),
    "W": lambda a: ([("f%d" % a, 0, 0), ("f%d" % a, 1, 0)], {"f%d" % a}, set()),
    "PUSH": lambda a: ([("q%d" % a, 1, 0)], {"q%d" % a}, set()),
    "POP": lambda a: ([("q%d" % a, 0, 0), ("q%d" % a, 1, 0)], {"q%d" % a}, set()),
    "EMPTY": lambda a: ([("q%d" % a, 0, 0)], {"q%d" % a}, set()),
    "RDQUIT": lambda a: ([("x", 0, 0)], set(), {"e"}),
    "RDSEARCH": lambda a: ([("s", 0, 0)], set(), {"e"}),
    "RDPARAMS": lambda a: ([("p", 0, 0)], set(), {"e"}),
    "GO": lambda a: ([("p", 1, 0), ("s", 1, 0)], {"e"}, set()),
    "QUIT": lambda a: ([("x", 1, 0)], {"e"}, set()),
    "CLEAR": lambda a: ([("s", 1, 0)], {"e"}, set()),
    "RDSEARCHU": lambda a: ([("s", 0, 0)], {"e"}, set()),
    "BEST": lambda a: ([("o", 0, 1)], set(), set()),
    "UNPONDER": lambda a: ([("o", 1, 1)], set(), set()),
}
MUTEX_KIND = {0: "q", 1: "f", 2: "e"}


def convert(path):
    """H5 trace -> (tev lines, lockset mismatches, unlocked-read count)."""
    held = {}
    out = []
    mism = []
    unlocked_reads = 0
    fixed_reads = 0
    for ln, line in enumerate(open(path), 1):
        tk = line.split()
        if len(tk) < 6:
            continue
        t = int(tk[0])
        t = UCI if t < 0 else t
        kind = tk[1]
        a, b = int(tk[2]), int(tk[3])
        h = held.setdefault(t, [])
        if kind == "ACQ":
            m = MUTEX_KIND[a] + ("" if a == 2 else str(b))
            h.append(m)
            out.append("Q %d %s" % (t, m))
        elif kind == "REL":
            m = MUTEX_KIND[a] + ("" if a == 2 else str(b))
            if m in h:
                h.remove(m)
            else:
                mism.append((ln, line.strip(), "release of a mutex not logged as held"))
            out.append("R %d %s" % (t, m))
        elif kind in MUST:
            if kind in ("N", "W", "PUSH", "POP", "EMPTY") and a < 0:
                continue
            accs, must, mustnot = MUST[kind](a)
            hs = set(h)
            if not must <= hs:
                mism.append((ln, line.strip(), "model holds %s here, engine holds %s" % (sorted(must), sorted(hs))))
            if mustnot & hs:
                fixed_reads += 1
            elif mustnot:
                unlocked_reads += 1
            for loc, w, at in accs:
                out.append("A %d %s %d %d" % (t, loc, w, at))
    return out, mism, unlocked_reads, fixed_reads


def vc_races(lines):
    """Independent vector-clock (happens-before) race detector over the converted trace."""
    vc = {}
    mvc = {}
    lastw = {}
    lastr = {}
    races = set()

    def get(t):
        if t not in vc:
            vc[t] = {t: 1}
        return vc[t]

    def leq(ev, cur):      # event (thread u at clock c) happens-before the current point of thread t
        u, c = ev
        return cur.get(u, 0) >= c
    for l in lines:
        tk = l.split()
        t = int(tk[1])
        cur = get(t)
        if tk[0] == "Q":
            for u, c in mvc.get(tk[2], {}).items():
                if cur.get(u, 0) < c:
                    cur[u] = c
        elif tk[0] == "R":
            mvc[tk[2]] = dict(cur)
            cur[t] = cur.get(t, 0) + 1
        else:
            loc, w, at = tk[2], tk[3] == "1", tk[4] == "1"
            me = (t, cur.get(t, 0))
            for u, (ev, uat) in lastw.get(loc, {}).items():
                if u != t and not (at and uat) and not leq(ev, cur):
                    races.add(loc)
            if w:
                for u, (ev, uat) in lastr.get(loc, {}).items():
                    if u != t and not (at and uat) and not leq(ev, cur):
                        races.add(loc)
                lastw.setdefault(loc, {})[t] = (me, at)
            else:
                lastr.setdefault(loc, {})[t] = (me, at)
            # accesses do not advance the clock; po order within a thread is implicit (same thread skipped)
    return races


def gen_c09_script(rng):
    """Sessions biased towards the F9 window: setoption immediately followed by go / quit."""
    steps = [("send", "uci"), ("ready",)]
    threads = rng.choice([1, 2, 3, 4, 6, 8])
    steps.append(("send", "setoption name Threads value %d" % threads))
    steps.append(("ready",))
    for i in range(rng.randint(2, 5)):
        steps.append(("send", "position " + rng.choice(c10.FENS)))
        for _ in range(rng.randint(1, 3)):
            steps.append(("send", "setoption name Hash value %d" % rng.choice([1, 2, 4])))
        k = rng.random()
        if k < 0.5:
            steps.append(("send", "go depth %d" % rng.randint(1, 4)))
            steps.append(("best", 1, 30))
        elif k < 0.8:
            steps.append(("send", "go infinite"))
            steps.append(("sleep", rng.choice([0.0, 0.002, 0.02])))
            steps.append(("send", "stop"))
            steps.append(("best", 1, 20))
        else:
            steps.append(("send", "go ponder wtime 500 btime 500"))
            steps.append(("sleep", 0.002))
            steps.append(("send", "ponderhit"))
            steps.append(("best", 1, 20))
    if rng.random() < 0.5:
        steps.append(("send", "setoption name Hash value 2"))
    steps.append(("send", "quit"))
    steps.append(("exit", 20))
    return steps, ["c09", "threads%d" % threads]


def one(args):
    exe, drv, steps, sseed, tmpdir, idx = args
    trace = os.path.join(tmpdir, "t%d.trace" % idx)
    r = c10.run_session(exe, steps, {"TEXEL_VERIF_SCHED_SEED": str(sseed)}, trace)
    res = dict(ok=r["ok"], why=r["why"], races=set(), det=None, mism=[], unlocked=0, fixed=0, n=0, agree=True)
    if r["ok"] and os.path.exists(trace):
        lines, mism, unlocked, fixed = convert(trace)
        res.update(mism=mism[:3], unlocked=unlocked, fixed=fixed, n=len(lines))
        res["races"] = vc_races(lines)
        small = len(lines) <= 6000
        rc, out, err = sh([drv] + (["--guarded"] if small else []), input="\n".join(lines) + "\n", timeout=600)
        det = dict(kv.split("=") for kv in out.split()) if rc == 0 and out.strip() else {}
        res["det"] = det
        if det:
            for loc, name in (("s", "search"), ("x", "quit"), ("p", "params")):
                if (loc in res["races"]) != (det.get(name) == "true"):
                    res["agree"] = False
            if det.get("guarded") in ("true", "false"):
                g = any(x[0] in "qf" for x in res["races"])
                if g != (det["guarded"] == "true"):
                    res["agree"] = False
        else:
            res["agree"] = False
    if os.path.exists(trace):
        os.unlink(trace)
    return res


def run(ctx):
    hooked = c10.hook_present() and "VerifSync::Held" in open(os.path.join(REPO, "lib/texellib/hw/parallel.cpp"), errors="replace").read()
    ctx.rule = ("UCI sessions with Threads 1..8 biased towards the F9 window (setoption immediately followed by go/quit), "
                "one schedule-perturbation seed each; per recorded trace: lock set at every logged access vs the model's, "
                "extracted detector raceb_on (proved exact) + independent vector-clock detector; non-trivial = trace with >= 1 search and "
                ">= 1 unlocked read of search/quitFlag; distinct by (session, sched seed)")
    ctx.trusted_base = ["Coq 8.16.1 kernel", "extraction + OCaml + drivers/race_driver.ml", "hook H5 (ACQ/REL logged inside the real critical sections; global log order)",
                        "hand-written access annotations coq/Workers/Access.v tied to the code by the lock-set comparison on recorded traces",
                        "props/c09.py trace conversion and vector-clock cross-check"]
    ctx.assumptions = ["PARTIAL: only the modelled shared state {mailboxes, notifier flags, search, quitFlag, search parameters, ponder/infinite}; "
                       "the property says 'any memory location', which only a whole-program detector sees",
                       "compiler/CPU implement mutexes and atomics as the C++ memory model says"]
    ctx.notes["not_covered"] = ("all locations outside the modelled list: evaluator/NN tables, history/killer tables, transposition table slots (C08), "
                                "Parameters values, TB globals, logging, texelutil's worker pool and the proof-game filter")
    ok, info = coqbuild.prove(ctx, PROP_FILE, timeout=ctx.scale(900, 1800))
    if not ok:
        ctx.violation("C09: proofs of Properties_C09.v do not check", {"coq": info}, no_failing_input=True)
    ctx.notes["hook_H5_locks_present"] = hooked
    if not hooked:
        ctx.notes["mode"] = "tree WITHOUT the lock/access events of hook H5: only the Coq theorems were checked; no conformance run"
        ctx.log("tree %s: hook H5 (lock events) absent: conformance not run" % REPO)
        return
    ctx.notes["mode"] = "event logging + seeded perturbation (no cooperative scheduler)"
    exe = cbuild.build_engine()
    drv = coqbuild.extract("ExtractRace.v", "race_driver.ml", "race_driver")
    tmpdir = tempfile.mkdtemp(prefix="c09-", dir="/tmp")
    nruns = int(os.environ.get("VERIF_C09_RUNS", 0)) or ctx.scale(120, 3000)
    jobs = []
    for i in range(nruns):
        steps, tags = gen_c09_script(ctx.rng) if i % 3 else c10.gen_script(ctx.rng)
        jobs.append((exe, drv, steps, ctx.rng.randint(1, 10 ** 9), tmpdir, i))
    t0 = time.time()
    with ThreadPoolExecutor(max_workers=max(2, min(NCPU, 12))) as ex:
        results = list(ex.map(one, jobs))
    shutil.rmtree(tmpdir, ignore_errors=True)
    ctx.notes["campaign_wall_s"] = round(time.time() - t0, 1)
    seen = {"s": 0, "x": 0, "p": 0}
    for job, r in zip(jobs, results):
        ctx.evaluated()
        replay = {"steps": job[2], "sched_seed": job[3]}
        if not r["ok"]:
            ctx.count("sessions_failed_outcome")      # C10's business; not a C09 verdict
            continue
        ctx.traces_validated += 1
        ctx.count("trace_events", r["n"])
        ctx.count("unlocked_reads_of_search_or_quitFlag", r["unlocked"])
        if r["unlocked"] and r["n"]:
            ctx.nontrivial((str(job[2])[:200], job[3]))
        if r["mism"]:
            ctx.violation("C09 conformance: engine access with a lock set different from the model's: %s" % (r["mism"][0],),
                          dict(replay, mismatches=r["mism"]), key="lockset:" + r["mism"][0][1].split()[1])
        if r["fixed"]:
            ctx.violation("C09: search/quitFlag/parameters are read WITH the engine mutex held in this tree: finding F9 looks fixed, "
                          "the model (Access.v: ARdQuit/ARdSearch) and C09_model_drf_refuted are out of date", replay,
                          no_failing_input=True)
        if not r["agree"]:
            ctx.violation("C09: extracted detector and vector-clock detector disagree: %s vs %s" % (r["det"], sorted(r["races"])),
                          replay, no_failing_input=True)
        other = sorted(x for x in r["races"] if x[0] not in "sxp")
        if other:
            ctx.violation("C09: data race on %s (a location the model proves race-free)" % other, replay, key="race:" + other[0])
        for loc in "sxp":
            if loc in r["races"]:
                seen[loc] += 1
        ctx.sample({"events": r["n"], "races": sorted(r["races"]), "unlocked_reads": r["unlocked"], "detector": r["det"]})
    names = {"s": "search", "x": "quitFlag", "p": "search-parameters"}
    for loc, n in seen.items():
        ctx.count("traces_with_race_on_" + names[loc], n)
        if n:
            ctx.violation("F9: data race on EngineMainThread::%s observed on the real engine in %d of %d traces: mainLoop/doSearch read it "
                          "without the mutex that guards its writer" % (names[loc], n, len(results)),
                          {"witness_model": "C09_model_drf_refuted (setoption; go|quit right after)", "traces": n},
                          key="F9:race-on-" + names[loc])
    ctx.notes["f9_confirmed_on_real_engine"] = {names[k]: v for k, v in seen.items()}


def replay(ctx, body):
    ctx.log("C09 replay: re-run ./check C09 with the same VERIF_SEED; races depend on the schedule")
    run(ctx)
